#!/bin/sh
# verify_seed.sh <name> [demo command]  -- confirms a sub-agent's change in ITS scratch worktree:
# compiles, suite passes with the change, demo fails with it and passes without it.
# (no git stash: the stash is shared between worktrees)
name="$1"; shift
dir=/tmp/mw/$name
demo="${*:-python3 demo/demo.py}"
cd "$dir" || exit 2
git diff -- src > /tmp/mw/$name.patch
echo "== diff stat"; git diff --stat -- src | tail -3
echo "== build+tests WITH change"
cargo build --offline 2>&1 | grep -E "^error|Finished" | tail -1
cargo test --workspace --no-fail-fast --offline 2>&1 | grep -E "^test result|FAILED" | tr '\n' ' '; echo
echo "== demo WITH change (expect failure)"
timeout 900 sh -c "$demo" > /tmp/mw/$name.with.log 2>&1; echo "exit=$?"; tail -3 /tmp/mw/$name.with.log
git checkout -- src
cargo build --offline 2>&1 | grep -E "^error|Finished" | tail -1
echo "== demo WITHOUT change (expect success)"
timeout 900 sh -c "$demo" > /tmp/mw/$name.without.log 2>&1; echo "exit=$?"; tail -3 /tmp/mw/$name.without.log
git apply /tmp/mw/$name.patch
git diff --stat -- src | tail -1
