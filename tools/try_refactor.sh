#!/bin/sh
# try_refactor.sh <name> -- applies a behaviour-preserving refactoring to /repo, runs all 20 quick checks, undoes it.
# Expected: every check exits 0 (no VIOLATION, no CHECK-BROKEN).
p=/verif/refactors/$1/patch.diff
git -C /repo apply "$p" 2>/dev/null || { echo "patch does not apply"; exit 2; }
for c in C01 C02 C03 C04 C05 C06 C07 C08 C09 C10 C11 C12 C13 C14 C15 C16 C17 C18 C19 C20; do
  /verif/check $c > /tmp/try_ref.out 2>&1; rc=$?
  if [ $rc -ne 0 ]; then echo "== $c rc=$rc"; grep -E "finding:|BROKEN" /tmp/try_ref.out | grep -v "^KNOWN" | head -${2:-8}; fi
done
git -C /repo checkout -- .
git -C /repo status --short | head -3
