#!/usr/bin/env python3
"""mk_prompt.py <name> <Cxx> <port>  -- writes /tmp/mw/prompt_<name>.txt: property text + procedure only,
plus the list of changes other people already made for this property (so that a different one is chosen).
Nothing from /verif's checks goes into the prompt."""
import sys, json, os, glob, re
name, pid, port = sys.argv[1], sys.argv[2], sys.argv[3]
props = {json.loads(l)["id"]: json.loads(l) for l in open("/verif/properties.jsonl")}
p = props[pid]
taken = []
for mp in sorted(glob.glob("/verif/seeded/*/meta.json")):
    m = json.load(open(mp))
    if m.get("property") == pid:
        taken.append(m["breaks"])
d = "/tmp/mw/" + name
txt = f"""You are working in a scratch git worktree of iGentAI/ferrous, a Redis-compatible in-memory key-value server written in Rust, located at {d} (work ONLY inside this directory; never touch /repo, /verif or any sibling directory). The sandbox has no network. The project builds offline: `cd {d} && cargo build --offline`; the existing test suite is `cargo test --workspace --no-fail-fast --offline` (a pre-built target/ directory is present, so builds are incremental and take well under a minute). The server binary is target/debug/ferrous (e.g. `target/debug/ferrous --port {port}`; useful flags: `--requirepass <pw>`, `--dir <path>` for the dump directory, `--appendonly yes`; it speaks RESP2 over TCP; python3 is available for a raw-socket client; there is no redis-cli). IMPORTANT: never use `git stash` (the stash is shared with sibling worktrees that other people use); to run something without your change do `git diff -- src > demo/my_change.patch && git checkout -- src && cargo build --offline`, and restore with `git apply demo/my_change.patch && cargo build --offline`.

Here is a behavioural property the server is supposed to satisfy:

---
{pid} — {p['title']}

Statement: {p['statement']}

Quantifier: {p['quantifier']['text']}
---

YOUR TASK: make ONE change to the source code under src/ that BREAKS this property, such that (a) the project still compiles, (b) the existing test suite still passes completely, and (c) the breakage needs something specific to manifest -- a particular interleaving, a crash or fault at a particular point, a multi-step sequence of operations, an unusual input, or two cooperating code sites that each look fine alone -- rather than being exposed at once by ordinary use. The change should look like a plausible developer mistake or a well-meant refactor/optimisation (no obvious sabotage, no dead code, no comments announcing the bug). Read the relevant source first and choose the place yourself.
"""
if taken:
    txt += "\nOther people have already made the following changes for this property; choose a DIFFERENT one (a different code site and a different clause of the property if possible):\n" + "".join("- %s\n" % t for t in taken)
txt += f"""
Also write a DEMONSTRATION (a Python 3 raw-socket script that starts target/debug/ferrous on a free port and exits non-zero on failure, or a Rust integration test under tests/) that FAILS with your change and PASSES without it, and verify both yourself (with the change: demo fails and the full existing suite passes; without it: demo passes). If, while reading, you notice that the UNMODIFIED code already violates the property for some input, note it in the README (with the input), but do not use it as your change.

DELIVERABLES, all inside {d}: the source change left UNCOMMITTED in the working tree (`git diff -- src` must show exactly your change and nothing else); the demonstration under {d}/demo/ (main script: demo/demo.py unless it is a Rust test); {d}/demo/README.md stating what you changed and why it breaks the property, what is needed to make it manifest, and the exact commands you ran with their observed results. Do not commit anything. In your final reply, summarise the change (file/function), the trigger, the verification results, and any violation of the property you noticed in the unmodified code.
"""
open("/tmp/mw/prompt_%s.txt" % name, "w").write(txt)
print("/tmp/mw/prompt_%s.txt" % name, len(taken), "taken")
