#!/usr/bin/env python3
"""mk_refactor_prompt.py <name> <Cxx> <port> -- prompt for a BEHAVIOUR-PRESERVING refactor of the code behind a
property (used to test the checks for false alarms). Only the property text + procedure."""
import sys, json
name, pid, port = sys.argv[1], sys.argv[2], sys.argv[3]
props = {json.loads(l)["id"]: json.loads(l) for l in open("/verif/properties.jsonl")}
p = props[pid]
d = "/tmp/mw/" + name
files = ", ".join(p["anchors"]["files"])
txt = f"""You are working in a scratch git worktree of iGentAI/ferrous, a Redis-compatible in-memory key-value server written in Rust, located at {d} (work ONLY inside this directory; never touch /repo, /verif or any sibling directory). The sandbox has no network. The project builds offline: `cd {d} && cargo build --offline`; the existing test suite is `cargo test --workspace --no-fail-fast --offline` (a pre-built target/ directory is present, so builds are incremental). The server binary is target/debug/ferrous (e.g. `target/debug/ferrous --port {port}`; flags: `--requirepass <pw>`, `--dir <path>`, `--appendonly yes`; RESP2 over TCP; python3 is available for a raw-socket client). Never use `git stash`.

Here is a behavioural property the server satisfies and must KEEP satisfying:

---
{pid} — {p['title']}

Statement: {p['statement']}
---

The code behind it lives mainly in: {files}.

YOUR TASK: act as a maintainer doing clean-up. Make a BEHAVIOUR-PRESERVING refactoring of moderate size (roughly 30-150 changed lines) in the code that implements this property: the kind of change that gets merged routinely -- extract a helper function or method, inline one, rename functions/variables/fields, turn a loop into an iterator chain or back, replace nested `if let`/`match` by early returns or `?`, reorder independent statements, split a long function, move code between the modules involved, replace a hand-written pattern by an equivalent std API, change a data-structure access idiom to an equivalent one. Touch the functions that are central to the property (not just comments or formatting), and combine several such edits. The observable behaviour of the server must be EXACTLY the same for every input (replies, dataset, files written, timing semantics); do not fix bugs and do not introduce any. The project must compile and the whole existing test suite must pass. Exercise the refactored paths with a short Python raw-socket smoke script to convince yourself nothing changed.

DELIVERABLES inside {d}: the refactoring left UNCOMMITTED in the working tree (`git diff -- src`), and {d}/demo/README.md listing each edit (function, what kind of refactoring) and the commands you ran with results. In your final reply, list the edits briefly.
"""
import glob, re
prev = []
for rp in sorted(glob.glob("/verif/refactors/%sr*/README.md" % pid)) + sorted(glob.glob("/verif/refactors/%s-*/README.md" % pid)):
    for m in re.finditer(r"^\|[^|]*\|?\s*`([A-Za-z_:]+)`", open(rp).read(), re.M):
        prev.append(m.group(1))
if prev:
    txt += "\nAn earlier clean-up by someone else already touched these functions: " + ", ".join(sorted(set(prev))[:40]) + ". Prefer OTHER functions that are central to the property, and other kinds of refactoring than a plain extract-helper (e.g. change the control-flow shape, the data-access idiom, move responsibilities between modules/types, change a container or a signature, merge or split match arms, replace flags by early returns or vice versa).\n"
open("/tmp/mw/prompt_%s.txt" % name, "w").write(txt)
print("/tmp/mw/prompt_%s.txt" % name)
