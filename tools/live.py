#!/usr/bin/env python3
"""ad-hoc live reproduction helper (NOT part of any check): starts /repo/target/debug/ferrous on a
port and sends raw RESP; used only to confirm defects and fixes by hand."""
import socket, subprocess, sys, time, os

def enc(*args):
    out = b"*%d\r\n" % len(args)
    for a in args:
        if isinstance(a, str):
            a = a.encode()
        out += b"$%d\r\n%s\r\n" % (len(a), a)
    return out

class Srv:
    def __init__(s, port=7391, args=()):
        s.port = port
        s.p = subprocess.Popen(["/repo/target/debug/ferrous", "--port", str(port)] + list(args), stdout=subprocess.DEVNULL, stderr=subprocess.DEVNULL, cwd="/tmp")
        for _ in range(100):
            try:
                socket.create_connection(("127.0.0.1", port), timeout=0.2).close(); break
            except OSError:
                time.sleep(0.05)
    def conn(s):
        c = socket.create_connection(("127.0.0.1", s.port)); c.settimeout(1.0); return c
    def stop(s):
        s.p.kill(); s.p.wait()
    def alive(s):
        return s.p.poll() is None

def rx(c, wait=0.3):
    time.sleep(wait)
    try:
        return c.recv(65536)
    except socket.timeout:
        return b"<timeout>"
    except OSError as e:
        return b"<closed %s>" % str(e).encode()
