#!/usr/bin/env python3
"""par_try.py refactors|seeds [name ...] [-j N]
Development tool.  Tries patches against the checks in scratch copies of /repo (outside /repo and /verif),
several at a time, without touching /repo:
  refactors: every /verif/refactors/<name>/patch.diff is applied to a scratch copy and all 20 properties are
             evaluated on it (one process, facts loaded once); expected: no violation, nothing broken.
  seeds:     every /verif/seeded/<id>/patch.diff is applied and the properties named in its meta.json are
             evaluated; expected: a finding with one of the expected keys that the unchanged tree does not have.
Exit 1 if any expectation fails."""
import json, os, re, shutil, subprocess, sys, tempfile
from concurrent.futures import ThreadPoolExecutor

VERIF = os.path.dirname(os.path.dirname(os.path.abspath(__file__)))
RULES = os.path.join(VERIF, "engine", "rules")
REPO = "/repo"

CODE = r"""
import sys, json
sys.path.insert(0, %r)
import runner, props
pids = %r
ctx = None
out = {}
for pid in pids:
    try:
        if ctx is None:
            ctx = runner.Ctx('quick')
        rc, rep = runner.run_property(pid, 'quick', props.rules_for(pid), quiet=True, write_evidence=False, ctx=ctx)
    except runner.Broken as e:
        out[pid] = {'rc': 2, 'keys': [], 'broken': [str(e)[-600:]]}
        continue
    known, _ = runner.load_known()
    keys = sorted({f.key for r in (rep or []) for f in r.findings})
    unknown = [k for k in keys if (pid, k) not in known]
    broken = ['%%s: %%s' %% (r.rule, m) for r in (rep or []) for m in r.broken]
    out[pid] = {'rc': rc, 'keys': keys, 'unknown': unknown, 'broken': broken}
print('RESULT ' + json.dumps(out))
"""


def run_on(patch, pids, base_cache):
    tmp = tempfile.mkdtemp(prefix="verif_try_")
    try:
        wt = os.path.join(tmp, "repo")
        subprocess.run(["rsync", "-a", "--exclude", "target", "--exclude", ".git", REPO + "/", wt + "/"], check=True)
        if patch:
            a = subprocess.run(["git", "apply", "--unsafe-paths", "--directory=" + wt, patch], cwd=tmp,
                               stdout=subprocess.PIPE, stderr=subprocess.STDOUT, text=True)
            if a.returncode != 0:
                a = subprocess.run(["patch", "-p1", "-d", wt, "-i", patch], stdout=subprocess.PIPE, stderr=subprocess.STDOUT, text=True)
            if a.returncode != 0:
                return {"error": "patch does not apply: " + a.stdout.strip()[:300]}
        cache = os.path.join(tmp, "cache")
        os.makedirs(cache)
        src_t = os.path.join(base_cache, "target-dev")
        if os.path.isdir(src_t):
            subprocess.run(["cp", "-a", src_t, os.path.join(cache, "target-dev")])
        env = dict(os.environ, VERIF_REPO=wt, VERIF_CACHE=cache)
        p = subprocess.run([sys.executable, "-c", CODE % (RULES, pids)], env=env, stdout=subprocess.PIPE,
                           stderr=subprocess.STDOUT, text=True)
        m = re.search(r"^RESULT (.*)$", p.stdout, re.M)
        if not m:
            return {"error": "did not run: " + p.stdout.strip()[-600:]}
        return json.loads(m.group(1))
    finally:
        shutil.rmtree(tmp, ignore_errors=True)


ALL = ["C%02d" % i for i in range(1, 21)]


def main():
    args = sys.argv[1:]
    j = 5
    if "-j" in args:
        i = args.index("-j"); j = int(args[i + 1]); del args[i:i + 2]
    mode = args[0]; names = args[1:]
    base_cache = os.path.join(VERIF, ".cache")
    bad = 0
    if mode == "refactors":
        d = os.path.join(VERIF, "refactors")
        names = names or sorted(n for n in os.listdir(d) if os.path.exists(os.path.join(d, n, "patch.diff")))
        with ThreadPoolExecutor(j) as ex:
            futs = {n: ex.submit(run_on, os.path.join(d, n, "patch.diff"), ALL, base_cache) for n in names}
            for n in names:
                r = futs[n].result()
                if "error" in r:
                    print("%-8s ERROR %s" % (n, r["error"])); bad += 1; continue
                probs = {p: v for p, v in r.items() if v["rc"] != 0}
                if not probs:
                    print("%-8s ok (20 checks silent)" % n)
                else:
                    bad += 1
                    print("%-8s ALARM" % n)
                    for p, v in sorted(probs.items()):
                        for k in v.get("unknown", [])[:6]:
                            print("     %s finding %s" % (p, k))
                        for b in v.get("broken", [])[:6]:
                            print("     %s broken  %s" % (p, b))
    elif mode == "seeds":
        d = os.path.join(VERIF, "seeded")
        names = names or sorted(n for n in os.listdir(d) if os.path.exists(os.path.join(d, n, "meta.json")))
        metas = {n: json.load(open(os.path.join(d, n, "meta.json"))) for n in names}
        for n in [n for n in names if not metas[n].get("expect_detected", True)]:
            print("%-55s (recorded as not detected / not claimed)" % n); names.remove(n)
        allp = sorted({p for m in metas.values() for p in (m.get("detected_by") or [m["property"]])})
        base = run_on(None, allp, base_cache)
        with ThreadPoolExecutor(j) as ex:
            futs = {n: ex.submit(run_on, os.path.join(d, n, "patch.diff"), metas[n].get("detected_by") or [metas[n]["property"]], base_cache) for n in names}
            for n in names:
                r = futs[n].result()
                if "error" in r:
                    print("%-55s ERROR %s" % (n, r["error"])); bad += 1; continue
                ok = True; msgs = []
                for p, v in sorted(r.items()):
                    new = sorted(set(v["keys"]) - set(base[p]["keys"]))
                    want = metas[n].get("expected_keys", {}).get(p)
                    if not new:
                        ok = False; msgs.append("%s: not detected%s" % (p, (" (broken: %s)" % v["broken"][:2]) if v["broken"] else ""))
                    elif want and not (set(want) & set(new)):
                        ok = False; msgs.append("%s: detected with other keys %s (expected %s)" % (p, new[:3], want))
                    else:
                        msgs.append("%s: %s" % (p, new[0].split("|", 1)[0] + "|.." + new[0].rsplit("|", 1)[-1]))
                print("%-55s %s %s" % (n, "ok  " if ok else "MISS", "; ".join(msgs)))
                bad += 0 if ok else 1
    else:
        print(__doc__); sys.exit(2)
    sys.exit(1 if bad else 0)


if __name__ == "__main__":
    main()
