#!/usr/bin/env python3
"""mutant.py <Cxx[,Cyy]> <file> <old> <new> [count]  -- development: scratch copy of /repo with one textual replacement
(first occurrence unless count given; count=0 all), run the checks, print new findings / broken, remove the copy."""
import sys, os, subprocess, tempfile, shutil, json, re
pids, f, old, new = sys.argv[1].split(","), sys.argv[2], sys.argv[3], sys.argv[4]
cnt = int(sys.argv[5]) if len(sys.argv) > 5 else 1
tmp = tempfile.mkdtemp(prefix="verif_mut_")
try:
    wt = tmp + "/repo"
    subprocess.run(["rsync", "-a", "--exclude", "target", "--exclude", ".git", "/repo/", wt + "/"], check=True)
    p = os.path.join(wt, f); s = open(p).read()
    if old not in s:
        print("OLD TEXT NOT FOUND"); sys.exit(2)
    s = s.replace(old, new, cnt) if cnt else s.replace(old, new)
    open(p, "w").write(s)
    os.makedirs(tmp + "/cache")
    subprocess.run(["cp", "-a", "/verif/.cache/target-dev", tmp + "/cache/target-dev"])
    env = dict(os.environ, VERIF_REPO=wt, VERIF_CACHE=tmp + "/cache")
    for pid in pids:
        r = subprocess.run(["/verif/check", pid], env=env, stdout=subprocess.PIPE, stderr=subprocess.STDOUT, text=True)
        out = [l for l in r.stdout.splitlines() if re.search(r"finding:|BROKEN|error(\[|:)", l) and not l.startswith("KNOWN")]
        print(pid, "rc=%d" % r.returncode, "\n   ".join(out[:8]) if out else "(silent)")
finally:
    shutil.rmtree(tmp, ignore_errors=True)
    # evidence of /verif was rewritten by the scratch run: restore from git
    subprocess.run(["git", "-C", "/verif", "checkout", "--", "evidence"], stdout=subprocess.DEVNULL, stderr=subprocess.DEVNULL)
