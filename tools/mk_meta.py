#!/usr/bin/env python3
"""mk_meta.py <id> <property> <worktree-name> <origin: hinted|plain> <key> <first: caught|missed|broken> --breaks .. --needs .. [--note ..]"""
import json, sys, argparse
ap = argparse.ArgumentParser()
ap.add_argument("id"); ap.add_argument("prop"); ap.add_argument("wt"); ap.add_argument("origin"); ap.add_argument("key"); ap.add_argument("first")
ap.add_argument("--breaks", required=True); ap.add_argument("--needs", required=True); ap.add_argument("--note", default="")
ap.add_argument("--undetected", action="store_true")
a = ap.parse_args()
origin = "independent sub-agent given only the property text and a scratch worktree" + (" (batch 1: the prompt also contained a generic list of idea directions)" if a.origin == "hinted" else " (no hints)")
m = {"id": a.id, "property": a.prop, "breaks": a.breaks, "needs_to_manifest": a.needs,
     "demo_cmd": "python3 demo/demo.py   (run in a worktree of /repo with the patch applied and `cargo build --offline`; the demo starts target/debug/ferrous itself)",
     "origin": origin,
     "verified": {"by": "tools/verify_seed.sh in the scratch worktree /tmp/mw/%s" % a.wt, "compiles": True, "suite_passes_with_change": "163/163",
                  "demo_with_change": "fails (exit 1), see demo_with_change.log", "demo_without_change": "passes (exit 0), see demo_without_change.log"},
     "detected_by": [] if a.undetected else [a.prop], "expected_keys": {} if a.undetected else {a.prop: [a.key]}, "expect_detected": not a.undetected,
     "first_run": a.first,
     "detection_note": "checked with tools/try_seed.sh (git -C /repo apply; ./check; git -C /repo checkout -- .)" + ((" -- " + a.note) if a.note else "")}
json.dump(m, open("/verif/seeded/%s/meta.json" % a.id, "w"), indent=1)
print("ok")
