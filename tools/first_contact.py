import sys,json
sys.path.insert(0,'/verif/tools')
import par_try
name=sys.argv[1]; pids=sys.argv[2:] or par_try.ALL
r=par_try.run_on('/tmp/mw/%s.patch'%name, pids, '/verif/.cache')
if 'error' in r: print(name, r); sys.exit()
for p,v in sorted(r.items()):
    if v.get('unknown') or v.get('broken'):
        print(name, p, 'NEW:', v.get('unknown'), 'BROKEN:', v.get('broken')[:2])
print(name,'done')
