#!/bin/sh
# dev_scratch.sh <name> <patch>  -- persistent scratch copy /tmp/dev/<name>/repo with <patch> applied (development only);
# use:  VERIF_REPO=/tmp/dev/<name>/repo VERIF_CACHE=/tmp/dev/<name>/cache ./check Cxx
n="$1"; p="$2"
rm -rf /tmp/dev/$n; mkdir -p /tmp/dev/$n/cache
rsync -a --exclude target --exclude .git /repo/ /tmp/dev/$n/repo/
[ -n "$p" ] && (cd /tmp/dev/$n && git apply --unsafe-paths --directory=/tmp/dev/$n/repo "$p") || true
cp -a /verif/.cache/target-dev /tmp/dev/$n/cache/target-dev
echo "VERIF_REPO=/tmp/dev/$n/repo VERIF_CACHE=/tmp/dev/$n/cache"
