#!/bin/sh
# creates a scratch worktree of /repo HEAD for an independent sub-agent (outside /repo and /verif)
set -e
name="$1"
dir=/tmp/mw/$name
mkdir -p /tmp/mw
git -C /repo worktree add -q --detach "$dir" HEAD
cp -a /repo/target "$dir/target"
echo "$dir"
