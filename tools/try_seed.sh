#!/bin/sh
# try_seed.sh <patch> <Cxx> [Cyy ...] -- applies a seeded change to /repo, runs the checks, undoes it
patch="$1"; shift
git -C /repo apply "$patch" || { echo "patch does not apply"; exit 2; }
for p in "$@"; do
  /verif/check $p 2>&1 | grep -E "finding:|^C[0-9]+ quick|BROKEN" | grep -v "^KNOWN" | head -12
done
git -C /repo checkout -- .
git -C /repo status --short | head -3
