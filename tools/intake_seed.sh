#!/bin/sh
# intake_seed.sh <name> <id>  -- copies patch + demo of a verified change into /verif/seeded/<id>/
name="$1"; id="$2"
d=/verif/seeded/$id
mkdir -p $d
cp /tmp/mw/$name.patch $d/patch.diff
rm -rf $d/demo; cp -r /tmp/mw/$name/demo $d/demo
rm -rf $d/demo/data $d/demo/__pycache__ $d/demo/*.patch
cp /tmp/mw/$name.with.log $d/demo_with_change.log 2>/dev/null
cp /tmp/mw/$name.without.log $d/demo_without_change.log 2>/dev/null
ls $d
