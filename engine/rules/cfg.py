"""A2: CFG utilities over a Body: dominators, post-dominators, reachability, loops."""


def rpo(b, unwind=False, entry=0):
    order = []; seen = {entry}
    stack = [(entry, iter(b.succs(entry, unwind)))]
    while stack:
        x, it = stack[-1]
        for y in it:
            if y not in seen:
                seen.add(y); stack.append((y, iter(b.succs(y, unwind)))); break
        else:
            order.append(x); stack.pop()
    return order[::-1]


def dominators(b, unwind=False):
    """immediate dominator map {bb: idom}; entry maps to itself. Cached per body."""
    attr = "_domu" if unwind else "_dom"
    d = getattr(b, attr)
    if d is not None:
        return d
    order = rpo(b, unwind); idx = {x: i for i, x in enumerate(order)}
    preds = b.preds(unwind)
    idom = {0: 0}

    def inter(a, c):
        while a != c:
            while idx[a] > idx[c]:
                a = idom[a]
            while idx[c] > idx[a]:
                c = idom[c]
        return a
    changed = True
    while changed:
        changed = False
        for x in order[1:]:
            ps = [p for p in preds[x] if p in idom]
            if not ps:
                continue
            new = ps[0]
            for p in ps[1:]:
                new = inter(new, p)
            if idom.get(x) != new:
                idom[x] = new; changed = True
    setattr(b, attr, idom)
    return idom


def dominates(b, a, x, unwind=False):
    """does block a dominate block x (reflexive)? Unreachable x: False."""
    idom = dominators(b, unwind)
    if x not in idom:
        return False
    while True:
        if x == a:
            return True
        if idom[x] == x:
            return False
        x = idom[x]


def dom_set(b, a, unwind=False):
    """all blocks dominated by a"""
    idom = dominators(b, unwind)
    out = set()
    for x in idom:
        y = x
        while True:
            if y == a:
                out.add(x); break
            if idom[y] == y:
                break
            y = idom[y]
    return out


def edge_dom_set(b, src, dst, unwind=False):
    """blocks that can only be reached through the CFG edge src->dst:
    the set of blocks reachable from dst that are NOT reachable from entry when the
    edge src->dst is removed."""
    seen = set(); st = [0]
    while st:
        x = st.pop()
        if x in seen:
            continue
        seen.add(x)
        for y in b.succs(x, unwind):
            if x == src and y == dst:
                continue
            st.append(y)
    r = fwd(b, [dst], unwind=unwind)
    return {x for x in r if x not in seen}


def fwd(b, starts, cut=(), unwind=False):
    """blocks reachable from starts (inclusive) without entering a block of `cut`"""
    seen = set(); st = list(starts)
    cut = set(cut)
    while st:
        x = st.pop()
        if x in seen or x in cut:
            continue
        seen.add(x)
        st.extend(b.succs(x, unwind))
    return seen


def fwd_strict(b, start, cut=(), unwind=False):
    """blocks reachable from the successors of start (start itself only if on a cycle)"""
    return fwd(b, b.succs(start, unwind), cut, unwind)


def bwd(b, targets, cut=(), unwind=False):
    preds = b.preds(unwind)
    seen = set(); st = list(targets); cut = set(cut)
    while st:
        x = st.pop()
        if x in seen or x in cut:
            continue
        seen.add(x)
        st.extend(preds[x])
    return seen


def reachable_blocks(b, unwind=False):
    return fwd(b, [0], unwind=unwind)


def back_edges(b, unwind=False):
    out = []
    for x in reachable_blocks(b, unwind):
        for y in b.succs(x, unwind):
            if dominates(b, y, x, unwind):
                out.append((x, y))
    return out


def natural_loop(b, tail, head, unwind=False):
    preds = b.preds(unwind)
    body = {head}; st = [tail]
    while st:
        x = st.pop()
        if x in body:
            continue
        body.add(x); st.extend(preds[x])
    return body


def loops(b, unwind=False):
    """{head: set(blocks)} natural loops merged per head"""
    out = {}
    for t, h in back_edges(b, unwind):
        out.setdefault(h, set()).update(natural_loop(b, t, h, unwind))
    return out


def path_avoiding(b, src_blocks, dst_blocks, avoid, unwind=False):
    """shortest path (list of blocks) from any of src_blocks to any of dst_blocks that never
    enters `avoid` (src blocks themselves are allowed even when in avoid is False), or None"""
    from collections import deque
    avoid = set(avoid); dst = set(dst_blocks)
    q = deque(); prev = {}
    for s_ in src_blocks:
        if s_ in avoid:
            continue
        prev[s_] = None; q.append(s_)
    while q:
        x = q.popleft()
        if x in dst:
            p = []
            while x is not None:
                p.append(x); x = prev[x]
            return p[::-1]
        for y in b.succs(x, unwind):
            if y in prev or y in avoid:
                continue
            prev[y] = x; q.append(y)
    return None
