"""Rules for command semantics: R-DISPATCH (exhaustiveness + effect class + primitive),
R-ATOMIC (no refusal after a mutation), R-EMPTY (emptied collection is removed)."""
import re
from facts import callee, op_local, op_place, const_str, op_is_const
import cfg, shared, prov
from shared import ENGINE, SERVER

PNC = SERVER + "process_normal_command"

# Effect class per command, from the Redis reference semantics the properties cite:
#  R = never changes the dataset, W = can change it.  Third column: a storage primitive the
#  command's arm must be able to reach (None = no specific primitive required).
VEC = r"std::collections::VecDeque::<std::vec::Vec<u8>>::"
SET = r"std::collections::HashSet::<std::vec::Vec<u8>>::"
HASH = r"std::collections::HashMap::<std::vec::Vec<u8>, std::vec::Vec<u8>>::"
HASH_ITER = r"(" + HASH + r"(iter|keys|values|into_iter)|<&std::collections::HashMap<std::vec::Vec<u8>, std::vec::Vec<u8>> as std::iter::IntoIterator>::into_iter)"
MAP = shared.SHARD_MAP
SKIP = r"storage::skiplist::SkipList::<std::vec::Vec<u8>, f64>::"
STREAM = r"storage::stream::Stream::"
SET_ITER = r"(" + SET + r"(iter|union|intersection|difference)|<&std::collections::HashSet<std::vec::Vec<u8>> as std::iter::IntoIterator>::into_iter)"

SPEC = {
    # C01
    "SET": ("W", MAP + "insert"), "GET": ("R", MAP + "get"), "MGET": ("R", MAP + "get"),
    "MSET": ("W", MAP + "insert"), "GETSET": ("W", MAP + "insert"), "SETNX": ("W", MAP + "insert"),
    "SETEX": ("W", MAP + "insert"), "PSETEX": ("W", MAP + "insert"),
    "APPEND": ("W", r"std::vec::Vec::<u8>::extend_from_slice"), "STRLEN": ("R", MAP + "get"),
    "GETRANGE": ("R", MAP + "get"), "SETRANGE": ("W", MAP + "(get_mut|insert)"),
    "INCR": ("W", MAP + "(get_mut|insert)"), "DECR": ("W", MAP + "(get_mut|insert)"),
    "INCRBY": ("W", MAP + "(get_mut|insert)"), "DECRBY": ("W", MAP + "(get_mut|insert)"),
    "DEL": ("W", MAP + "remove"), "EXISTS": ("R", MAP + "get"), "TYPE": ("R", MAP + "get"),
    "RENAME": ("W", MAP + "remove"), "RENAMENX": ("W", MAP + "remove"), "KEYS": ("R", MAP + "(keys|iter)"),
    "DBSIZE": ("R", MAP + "(len|iter|keys)"), "RANDOMKEY": ("R", MAP + "(keys|iter)"),
    "FLUSHDB": ("W", MAP + "clear"), "FLUSHALL": ("W", MAP + "clear"),
    # C02 commands
    "EXPIRE": ("W", r"storage::value::ValueMetadata::set_expiration"),
    "PEXPIRE": ("W", r"storage::value::ValueMetadata::set_expiration"),
    "PERSIST": ("W", r"storage::value::ValueMetadata::clear_expiration"),
    "TTL": ("R", MAP + "get"), "PTTL": ("R", MAP + "get"),
    # C03 lists
    "LPUSH": ("W", VEC + "push_front"), "RPUSH": ("W", r"(" + VEC + r"(push_back|extend|append)|<std::collections::VecDeque<std::vec::Vec<u8>> as std::iter::(Extend|FromIterator)<std::vec::Vec<u8>>>::(extend|from_iter))"),
    "LPOP": ("W", VEC + "pop_front"), "RPOP": ("W", VEC + "pop_back"),
    "LLEN": ("R", VEC + "len"), "LRANGE": ("R", VEC + "(iter|get|range)"), "LINDEX": ("R", VEC + "get"),
    "LSET": ("W", r"(<std::collections::VecDeque<std::vec::Vec<u8>> as std::ops::IndexMut<usize>>::index_mut|" + VEC + "get_mut)"),
    "LTRIM": ("W", None),
    "LREM": ("W", VEC + "(retain|remove|drain)"),
    # sets
    "SADD": ("W", SET + "insert"), "SREM": ("W", SET + "remove"), "SMEMBERS": ("R", SET_ITER),
    "SISMEMBER": ("R", SET + "contains"), "SCARD": ("R", SET + "len"),
    "SUNION": ("R", SET_ITER), "SINTER": ("R", SET_ITER + "|" + SET + "contains"),
    "SDIFF": ("R", SET_ITER + "|" + SET + "contains"),
    "SPOP": ("W", SET + "(remove|take|retain)"), "SRANDMEMBER": ("R", SET_ITER),
    # hashes
    "HSET": ("W", HASH + "insert"), "HMSET": ("W", HASH + "insert"), "HGET": ("R", HASH + "get"),
    "HMGET": ("R", HASH + "get"), "HGETALL": ("R", HASH_ITER), "HDEL": ("W", HASH + "remove"),
    "HLEN": ("R", HASH + "len"), "HEXISTS": ("R", HASH + "contains_key"), "HKEYS": ("R", HASH + "keys"),
    "HVALS": ("R", HASH + "values"), "HINCRBY": ("W", HASH + "insert"),
    # C04 sorted sets
    "ZADD": ("W", SKIP + "insert"), "ZREM": ("W", SKIP + "remove"), "ZSCORE": ("R", SKIP + "get_score"),
    "ZCARD": ("R", SKIP + "len"), "ZRANK": ("R", SKIP + "get_rank"), "ZREVRANK": ("R", SKIP + "get_rank"),
    "ZRANGE": ("R", SKIP + "range_by_rank"), "ZREVRANGE": ("R", SKIP + "range_by_rank"),
    "ZRANGEBYSCORE": ("R", SKIP + "range_by_score"), "ZREVRANGEBYSCORE": ("R", SKIP + "range_by_score"),
    "ZCOUNT": ("R", SKIP + "(range_by_score|count)"), "ZINCRBY": ("W", SKIP + "insert"),
    "ZPOPMIN": ("W", SKIP + "remove"), "ZPOPMAX": ("W", SKIP + "remove"),
    # C15 streams
    "XADD": ("W", STREAM + "(add_auto|add_with_id)"), "XRANGE": ("R", STREAM + "range"),
    "XREVRANGE": ("R", STREAM + "(range|rev_range)"), "XLEN": ("R", STREAM + "len"),
    "XREAD": ("R", STREAM + "range_after"), "XTRIM": ("W", STREAM + "trim_by_count"),
    "XDEL": ("W", STREAM + "delete"),
    # C16 groups (group state lives in the stream's ConsumerGroupManager; not DATA-MUT)
    "XGROUP": (None, None), "XREADGROUP": (None, None), "XACK": (None, None), "XCLAIM": (None, None),
    "XPENDING": (None, None),
    # C19
    "SCAN": ("R", MAP + "(keys|iter)"), "HSCAN": ("R", None), "SSCAN": ("R", None), "ZSCAN": ("R", None),
}

NAMES = {
    "C01": ["SET", "GET", "MGET", "MSET", "GETSET", "SETNX", "SETEX", "PSETEX", "APPEND", "STRLEN",
            "GETRANGE", "SETRANGE", "INCR", "DECR", "INCRBY", "DECRBY", "DEL", "EXISTS", "TYPE", "RENAME",
            "RENAMENX", "KEYS", "DBSIZE", "RANDOMKEY", "FLUSHDB", "FLUSHALL"],
    "C02": ["EXPIRE", "PEXPIRE", "PERSIST", "TTL", "PTTL"],
    "C03": ["LPUSH", "RPUSH", "LPOP", "RPOP", "LLEN", "LRANGE", "LINDEX", "LSET", "LTRIM", "LREM",
            "SADD", "SREM", "SMEMBERS", "SISMEMBER", "SCARD", "SUNION", "SINTER", "SDIFF", "SPOP", "SRANDMEMBER",
            "HSET", "HMSET", "HGET", "HMGET", "HGETALL", "HDEL", "HLEN", "HEXISTS", "HKEYS", "HVALS", "HINCRBY"],
    "C04": ["ZADD", "ZREM", "ZSCORE", "ZCARD", "ZRANK", "ZREVRANK", "ZRANGE", "ZREVRANGE", "ZRANGEBYSCORE",
            "ZREVRANGEBYSCORE", "ZCOUNT", "ZINCRBY", "ZPOPMIN", "ZPOPMAX"],
    "C15": ["XADD", "XRANGE", "XREVRANGE", "XLEN", "XREAD", "XTRIM", "XDEL"],
    "C16": ["XGROUP", "XREADGROUP", "XACK", "XCLAIM", "XPENDING"],
    "C19": ["SCAN", "HSCAN", "SSCAN", "ZSCAN"],
}
NAMES["C12"] = sorted(set(sum((NAMES[p] for p in ("C01", "C02", "C03", "C04", "C15", "C16")), [])))


def dispatch_arms(ctx):
    """NAME -> dict(region, calls=[callee...], reach=set(fn)) for process_normal_command"""
    def compute():
        b = ctx.prog.need(PNC)
        tests = shared.str_tests(b)
        names = sorted({t["name"] for t in tests})
        out = {}
        for n in names:
            reg = shared.arm_region(b, tests, n)
            if not reg:
                continue
            calls = []
            for i in sorted(reg):
                t = b.term(i)
                if t["k"] == "call":
                    calls.append((i, callee(t)))
                    for cl in t["clos"]:
                        calls.append((i, cl))
            roots = {c for _, c in calls}
            out[n] = {"region": reg, "calls": calls, "reach": ctx.cg.reach(roots)}
        return out
    return ctx.memo("dispatch_arms", compute)


def reach_primitives(ctx, fns):
    """full callee paths (with generic args) of all calls inside the given functions"""
    out = set()
    for fn in fns:
        b = ctx.prog.bodies.get(fn)
        if b is None:
            continue
        for _, t in b.calls():
            out.add(t["f"])
    return out


def make_dispatch_rule(pid):
    names = NAMES[pid]

    def rule(ctx, R):
        arms = dispatch_arms(ctx)
        b = ctx.prog.need(PNC)
        R.floor("arms_total", len(arms))
        muts = shared.mutators(ctx)
        api = shared.engine_api(ctx.prog)
        found = 0
        for n in names:
            a = arms.get(n)
            if a is None:
                R.inst(PNC, "arm:" + n)
                R.finding(PNC, "arm:" + n, "command %s named by the property has no arm in the dispatcher" % n, b.loc())
                continue
            found += 1
            eff, prim = SPEC.get(n, (None, None))
            reach_api = sorted(a["reach"] & set(api))
            reach_mut = sorted(a["reach"] & set(muts))
            R.inst(PNC, "arm:" + n, {"command": n, "handler_calls": sorted({c for _, c in a["calls"] if not c.startswith(("std::", "core::", "<"))})[:4],
                                     "engine_api": [x[len(ENGINE):] for x in reach_api][:6], "mutators": [x[len(ENGINE):] for x in reach_mut][:6]})
            line = b.bb_line(min(a["region"]))
            loc = "%s:%d" % (b.file, line)
            if not reach_api:
                R.finding(PNC, "arm:%s:no-engine" % n, "arm of %s reaches no storage engine method" % n, loc)
                continue
            if eff == "W" and not reach_mut:
                R.finding(PNC, "arm:%s:not-mutating" % n, "%s must be able to change the dataset but its arm reaches no mutating engine method" % n, loc)
            if eff == "R" and reach_mut:
                R.finding(PNC, "arm:%s:mutating" % n, "%s is read-only in the reference semantics but its arm reaches mutating engine methods %s" % (n, [x[len(ENGINE):] for x in reach_mut]), loc,
                          witness=ctx.cg.path(a["calls"][0][1], set(reach_mut)) or [])
            if prim:
                rx = re.compile(prim)
                prims = reach_primitives(ctx, a["reach"])
                R.inst(PNC, "prim:" + n)
                if not any(rx.search(p) for p in prims):
                    R.finding(PNC, "arm:%s:primitive" % n,
                              "arm of %s cannot reach the storage primitive its semantics need (%s)" % (n, prim), loc)
        R.floor("arms_named_by_property", found)
    return rule


# ---------------------------------------------------------------------------------------
# R-ATOMIC

def refusal_blocks(b):
    """blocks that build an error reply: call to RespFrame::error, or aggregate RespFrame::Error"""
    out = {}
    for i, t in b.calls():
        if t["def"].endswith("RespFrame::error"):
            out[i] = "RespFrame::error"
    for i, bb in enumerate(b.bbs):
        for st in bb["s"]:
            if st["k"] == "=" and st["r"]["k"] == "agg" and st["r"]["a"] == "protocol::resp::RespFrame::Error":
                out[i] = "RespFrame::Error"
    return out


def err_construct_blocks(b):
    """blocks constructing an Err of a validation kind (CommandError / StorageError variant)"""
    out = {}
    for i, bb in enumerate(b.bbs):
        for st in bb["s"]:
            if st["k"] == "=" and st["r"]["k"] == "agg":
                a = st["r"]["a"]
                if a.startswith("error::CommandError::") or a.startswith("error::StorageError::") or a.startswith("error::FerrousError::"):
                    out[i] = a
    return out


def handler_atomic(ctx, R, select=None, tag="handler"):
    """R-ATOMIC at handler level: no validation refusal reachable from the success
    continuation of a MUTATOR call."""
    muts = set(shared.mutators(ctx))
    api = set(shared.engine_api(ctx.prog))
    # calls into functions that transitively mutate also count (e.g. helper wrappers)
    cp = shared.command_path(ctx)
    nsites = 0; nh = 0
    for fn, b in sorted(shared.handler_like(ctx.prog).items()):
        if fn not in cp:
            continue
        if select and not select(fn):
            continue
        refs = refusal_blocks(b)
        errs = {i: a for i, a in err_construct_blocks(b).items() if a.startswith("error::CommandError::")}
        refs.update(errs)
        msites = []; fail_starts = []
        for i, t in b.calls():
            c = callee(t)
            if c in api:
                rs = shared.result_switch(b, i)
                if rs:
                    fail_starts += rs["fail"]
                    succ = rs["ok"]
                else:
                    succ = [t["t"]] if t["t"] >= 0 else []
                if c in muts:
                    msites.append((i, c, succ))
            elif c.startswith("storage::") and not c.startswith("storage::commands::") and \
                    re.match(r"^std::(result::Result|option::Option)<", b.locals[t["d"]["l"]] or ""):
                # result of a storage-layer object (Stream, SkipList, ConsumerGroup ...): its
                # failure edge is a storage refusal, not an argument validation
                rs = shared.result_switch(b, i)
                if rs:
                    fail_starts += rs["fail"]
        if not msites:
            R.trivial()
            continue
        nh += 1
        fail_dom = set()
        for fs in fail_starts:
            fail_dom |= cfg.dom_set(b, fs)
        val_refs = {r for r in refs if r not in fail_dom}
        for i, c, succ in msites:
            nsites += 1
            r = cfg.fwd(b, succ)
            hit = sorted(r & val_refs)
            R.inst(fn, "mut:%s" % c[len(ENGINE):], {"function": fn, "mutator_call": c[len(ENGINE):], "at": b.loc(i),
                                                   "validation_refusals_in_function": len(val_refs), "reachable_after_mutation": len(hit)})
            if hit:
                p = cfg.path_avoiding(b, succ, hit, ())
                R.finding(fn, "refusal-after:%s" % c[len(ENGINE):],
                          "a validation refusal (%s at line %d) is reachable after the dataset was already changed by %s (line %d): a refused command does not leave the dataset as it was"
                          % (refs[hit[0]], b.bb_line(hit[0]), c[len(ENGINE):], b.bb_line(i)), b.loc(i),
                          witness=["bb%d %s" % (x, b.loc(x)) for x in (p or [])][:10])
    return nh, nsites


def engine_atomic(ctx, R, select=None):
    """R-ATOMIC inside engine methods: no refusal (Err of StorageError/CommandError) is
    constructed on a path after a DATA-MUT site of the same function (purge excluded)."""
    n = 0
    dm = shared.direct_mutators(ctx)
    for fn, (sites, stores) in sorted(dm.items()):
        if select and not select(fn):
            continue
        b = ctx.prog.bodies[fn]
        errs = err_construct_blocks(b)
        # OutOfMemory / lock failures are resource conditions, not refusals of the request
        errs = {i: a for i, a in errs.items() if not a.endswith("::OutOfMemory") and not a.endswith("::LockError")
                and not a.endswith("::Internal")}
        first = True
        for i, kind, f in sites:
            n += 1
            t = b.term(i)
            succ = [t["t"]] if t["t"] >= 0 else []
            short = shared.short_callee(f)
            # remove/pop/take return None when nothing was changed: only the Some edge mutated
            if re.search(r"::(remove|pop_front|pop_back|take|pop|remove_entry)(::<.*>)?$", f) and \
               b.locals[t["d"]["l"]].startswith("std::option::Option<"):
                rs = shared.result_switch(b, i)
                if rs:
                    succ = rs["ok"]
            r = cfg.fwd(b, succ)
            hit = sorted(x for x in r if x in errs)
            R.inst(fn, "site:%s" % short, {"function": fn, "mutation": short, "at": b.loc(i), "refusals_after": len(hit)} if first else None)
            first = False
            if hit:
                R.finding(fn, "engine-refusal-after:%s:%s" % (short, errs[hit[0]].split("::")[-1]),
                          "engine method constructs refusal %s (line %d) on a path after it already mutated the dataset (%s, line %d)"
                          % (errs[hit[0]], b.bb_line(hit[0]), short, b.bb_line(i)), b.loc(i))
        for i, st in stores:
            n += 1
            r = cfg.fwd_strict(b, i)
            hit = sorted(x for x in r if x in errs)
            R.inst(fn, "store:bb%d" % 0, None)
            if hit:
                R.finding(fn, "engine-refusal-after:store:%s" % errs[hit[0]].split("::")[-1],
                          "engine method constructs refusal %s (line %d) on a path after it already overwrote a stored value (line %d)"
                          % (errs[hit[0]], b.bb_line(hit[0]), st.get("line", 0)), b.loc(i))
    return n


def arms_reach(ctx, names):
    """functions reachable from the dispatcher arms of the given command names (server
    dispatcher and, where the name is also dispatched there, the script executor)"""
    arms = dispatch_arms(ctx)
    out = set()
    for n in names:
        a = arms.get(n)
        if a:
            out |= a["reach"]
    ex = executor_arms(ctx)
    for n in names:
        a = ex.get(n)
        if a:
            out |= a["reach"]
    return out


EXECUTOR = "storage::commands::executor::UnifiedCommandExecutor::"


def executor_arms(ctx):
    """NAME -> reach set for the script-side executor: CommandParser::parse maps the name to a
    Command variant; for effect purposes we use the execute_* function reach per name found
    in the parser table (filled by rules_lua when available)."""
    def compute():
        try:
            import rules_lua
            return rules_lua.executor_table(ctx)
        except Exception:
            return {}
    return ctx.memo("executor_arms", compute)


def rule_atomic(pid):
    def rule(ctx, R):
        reach = arms_reach(ctx, NAMES[pid])
        nh, ns = handler_atomic(ctx, R, lambda fn: fn in reach)
        ne = engine_atomic(ctx, R, lambda fn: fn in reach)
        R.floor("handlers_with_mutator_calls", nh)
        R.floor("mutator_call_sites", ns)
        R.floor("engine_mutation_sites", ne)
    return rule


# ---------------------------------------------------------------------------------------
# R-EMPTY

def rule_empty(ctx, R):
    """every engine method that SHRINKs a stored collection (or replaces it wholesale) has,
    reachable from the shrink, an emptiness test of a stored collection from which a removal of the
    key from the shard map is reachable (may-pair: cannot be falsified by an infeasible path)."""
    n = 0
    for fn, b in sorted(shared.engine_bodies(ctx.prog).items()):
        sites = [(i, shared.short_callee(f)) for (i, k, f) in shared.data_mut_sites(b)
                 if k == "payload" and shared.SHRINK.search(f) and not shared.is_purge_block(b, i)]
        # wholesale replacement of a stored collection (`*list = new_list`)
        for (i, st) in shared.payload_stores(b):
            ty = b.locals[st["l"]["l"]]
            if re.search(r"&mut std::collections::(VecDeque|HashSet|HashMap)<", ty) and st["l"]["p"] == ["*"]:
                sites.append((i, "replace-collection"))
        if not sites:
            continue
        removes = [i for i, t in b.calls() if re.search(shared.SHARD_MAP + r"remove\b", t["f"])]
        empties = []
        for i, t in b.calls():
            f = t["f"] or ""
            if re.search(r"^(std::collections::(VecDeque|HashSet)::<std::vec::Vec<u8>>|std::collections::HashMap::<std::vec::Vec<u8>, std::vec::Vec<u8>>|storage::skiplist::SkipList::<std::vec::Vec<u8>, f64>)::(is_empty|len)$", f):
                if t["a"] and shared.from_dataset(b, t["a"][0]):
                    empties.append(i)
        seen = set()
        for i, short in sites:
            if short in seen:
                continue
            seen.add(short)
            n += 1
            after = cfg.fwd(b, [i])
            ok = any(e in after and any(r in cfg.fwd_strict(b, e) for r in removes) for e in empties)
            R.inst(fn, "shrink:" + short, {"function": fn[len(ENGINE):], "shrink": short, "at": b.loc(i), "emptiness_tests": len(empties), "key_removals": len(removes), "paired": ok})
            if not ok:
                R.finding(fn, "shrink-without-empty-removal:" + short,
                          "stored collection shrunk by %s (line %d) but no emptiness test followed by removal of the key is reachable: an emptied collection would keep existing as a key"
                          % (short, b.bb_line(i)), b.loc(i))
    R.floor("shrink_sites", n)


# ---- R-WRITE-MUST -------------------------------------------------------------------------------------
# commands whose success always writes: they create the key when it is missing, whatever the arguments
ALWAYS_WRITES = ("APPEND", "INCR", "DECR", "INCRBY", "DECRBY", "LPUSH", "RPUSH", "XADD")


def rule_write_must(ctx, R):
    """a create-or-update command that answers success has written: in the engine method behind it
    every path to an `Ok(..)` result passes a dataset mutation (a shortcut that answers from a
    read path -- `APPEND k ""` answered with STRLEN -- leaves a missing key missing)"""
    import rules_zset
    arms = dispatch_arms(ctx)
    dm = shared.direct_mutators(ctx)
    eng = shared.engine_api(ctx.prog)
    methods = {}
    for n_ in ALWAYS_WRITES:
        a = arms.get(n_)
        if a is None:
            continue
        for fn in a["reach"]:
            if fn in eng and fn in dm:
                methods.setdefault(fn, []).append(n_)
    n = 0
    for fn in sorted(methods):
        b = ctx.prog.bodies[fn]
        sites, stores = dm[fn]
        mut_blocks = {i for (i, k, f) in sites} | {i for (i, st) in stores}
        # a mutation made by a callee that is itself a mutator (incr -> incr_by)
        mut_blocks |= {i for i, t in b.calls() if callee(t) in dm and callee(t) != fn}
        # a loop that mutates once per element counts as a mutation (the handlers refuse an empty
        # element list by arity, so the loop runs at least once)
        for h, body in cfg.loops(b).items():
            if body & mut_blocks:
                mut_blocks.add(h)
        # the function's result is also what a callee hands back (`return self.strlen(db, &key)`)
        tails = [i for i, t in b.calls() if t["d"]["l"] == 0 and not t["d"]["p"] and not re.search(r"from_residual$", callee(t)) and callee(t) not in dm]
        for k, e in enumerate(rules_zset.ok_blocks(b) + tails):
            n += 1
            p = cfg.path_avoiding(b, [0], [e], mut_blocks) if e not in mut_blocks else None
            R.inst(fn, "ok-return#%d" % k, {"method": fn.split("::")[-1], "commands": methods[fn], "at": b.loc(e), "passes_a_mutation_on_every_path": p is None})
            if p is not None:
                R.finding(fn, "ok-return:without-writing",
                          "%s (behind %s) can answer success (line %d) on a path that changes nothing: the command creates the key when it is missing, so a success reply without a write leaves the dataset different from the one prescribed" % (
                              fn.split("::")[-1], "/".join(methods[fn]), b.bb_line(e)), b.loc(e), ["bb%d line %d" % (x, b.bb_line(x)) for x in p][-8:])
    R.floor("always_writing_methods_ok_returns", n)


# ---- R-BYTES-ENGINE -------------------------------------------------------------------------------
_PURE_BYTES = re.compile(r"^[&\s]*(mut )?((std::vec::Vec|std::option::Option|std::collections::(HashMap|HashSet|VecDeque|BTreeMap)|std::sync::Arc)<|\(|\)|\[|\]|>|,|\s|&|mut |u8|std::hash::RandomState|std::alloc::Global|'\w+ )+$")


def make_bytes_engine_rule(pid):
    def rule(ctx, R):
        """binary safety of the command layer: every argument of a storage-engine call whose type
        is made of bytes only (keys, values, members, fields, field maps) carries the client's
        bytes -- on its value flow inside the handler (helpers and closures included) there is no
        lossy or UTF-8-only decoding, case mapping, trimming, cutting, sorting or de-duplication.
        Numbers and options are parsed into other types and are not on these flows."""
        import flow, rules_pubsub
        reach = arms_reach(ctx, NAMES[pid])
        memo = ctx.memo("bytes_engine_memo", dict)
        n = 0
        for fn in sorted(reach):
            b = ctx.prog.bodies.get(fn)
            if b is None or not fn.startswith(("network::", "storage::commands::")) or "::tests::" in fn:
                continue
            k_site = {}
            for i, t in b.calls():
                c = callee(t)
                if not c.startswith(ENGINE) or b.bbs[i]["cleanup"]:
                    continue
                for k, a in enumerate(t["a"][1:], 1):
                    if op_is_const(a):
                        continue
                    ty = b.locals[op_place(a)["l"]] or ""
                    if "u8" not in ty or not _PURE_BYTES.match(ty):
                        continue
                    n += 1
                    calls = flow.flow_calls(ctx, fn, a, memo=memo, seen={(fn, p) for p in range(1, b.nargs + 1)})
                    bad = sorted((f_, w, bb_) for (f_, w, bb_) in calls if rules_pubsub.BYTE_ALTERING.search(f_ or ""))
                    m = c[len(ENGINE):]
                    j = k_site.get((m, k), 0); k_site[(m, k)] = j + 1
                    R.inst(fn, "engine-arg:%s#%d" % (m, k), {"function": fn, "engine_method": m, "argument": k, "at": b.loc(i), "calls_on_the_value_flow": len(calls), "byte_altering": [shared.short_callee(x[0]) for x in bad][:3]} if bad or n % 7 == 0 else None)
                    if bad:
                        f_, w, bb_ = bad[0]
                        R.finding(fn, "engine-arg:%s#%d:altered-by:%s" % (m, k, re.search(r"::(\w+)(::<.*>)?$", f_).group(1)),
                                  "the bytes %s hands to %s (argument %d, line %d) have passed through %s (%s): what is stored / looked up is not what the client sent -- bytes that are not valid UTF-8 are replaced (distinct names collide) or refused" % (
                                      fn.split("::")[-1], m, k, b.bb_line(i), shared.short_callee(f_), ctx.prog.bodies[w].loc(bb_)), b.loc(i))
        R.floor("byte_arguments_of_engine_calls", n)
    return rule


# ---- R-KEYS-GLOB ----------------------------------------------------------------------------------
def rule_keys_glob(ctx, R):
    """KEYS answers with the keys that match the glob -- every element of the answer went through
    the matcher.  The vector returned is one that is filled only under a pattern_matches test (or
    stays empty); an answer built from the pattern itself (a `no wildcard` lookup shortcut) treats
    escapes and classes differently from the matcher."""
    import boolpath
    b = ctx.prog.need(ENGINE + "keys")
    PMF = re.compile(r"^storage::engine::pattern_matches$|::pattern_matches$")

    class S(boolpath.Spec):
        def call(s, b_, bbi, t):
            return boolpath.A if PMF.search(callee(t)) else None
    ex = boolpath.explore(b, S())
    n = 0
    for i, bb in enumerate(b.bbs):
        if bb["cleanup"]:
            continue
        for st in bb["s"]:
            if not (st["k"] == "=" and st["l"]["l"] == 0 and not st["l"]["p"] and st["r"]["k"] == "agg" and st["r"]["a"].endswith("Result::Ok") and st["r"]["o"]):
                continue
            n += 1
            o = st["r"]["o"][0]
            ok = True; why = None
            if not op_is_const(o):
                P = prov.operand_origins(b, o)
                for r in P.roots:
                    if r[0] == "call" and re.search(r"Vec::<std::vec::Vec<u8>>::(new|with_capacity)$", r[1]):
                        L = b.term(r[2])["d"]["l"]
                        import rules_rdb
                        pushes = [j for j, tj in b.calls() if re.search(r"Vec::<std::vec::Vec<u8>>::(push|extend|extend_from_slice|append|insert)", tj["f"] or "") and tj["a"] and not op_is_const(tj["a"][0]) and L in rules_rdb.root_locals(b, tj["a"][0])]
                        if any(j in ex.reached for j in pushes):
                            ok = False; why = "filled outside a pattern_matches test (line %d)" % b.bb_line([j for j in pushes if j in ex.reached][0])
                    elif r[0] == "call":
                        ok = False; why = "built by %s, not by the matching loop" % shared.short_callee(r[1])
                    elif r[0] in ("param", "agg") :
                        ok = False; why = "not the vector filled by the matching loop"
            R.inst(b.fn, "answer#%d" % 0, {"at": b.loc(i), "from_the_matching_loop": ok})
            if not ok:
                R.finding(b.fn, "answer:not-from-the-matching-loop",
                          "keys answers (line %d) with a vector %s: its elements did not go through the glob matcher, so patterns the shortcut reads differently (escapes such as `dir\\\\file`, classes) get a different answer" % (b.bb_line(i), why), b.loc(i))
    R.floor("keys_answers", n)


# ---- R-COUNT-STOP ---------------------------------------------------------------------------------
def rule_count_stop(ctx, R):
    """`count - 1` as the inclusive stop of a range read needs count >= 1: with count 0 the stop is
    -1, which the range commands read as `to the last element`.  Every engine range call whose
    start / stop operand is `x - 1` is dominated by a comparison of x with 0 or 1 (or x is at
    least 1 by construction: `max(1)`)."""
    n = 0
    for fn, b in sorted(ctx.prog.bodies.items()):
        if not fn.startswith(("network::", "storage::commands::")) or "::tests::" in fn:
            continue
        for i, t in b.calls():
            c = callee(t)
            if not re.search(r"^storage::engine::StorageEngine::(zrange|lrange|ltrim|getrange|zremrangebyrank)$", c) or b.bbs[i]["cleanup"]:
                continue
            for k, a in enumerate(t["a"]):
                if op_is_const(a) or not re.match(r"^(isize|i64)$", b.locals[op_place(a)["l"]] or ""):
                    continue
                # defined as x - 1 ?
                subs = []
                seen = set(); st_ = [op_place(a)["l"]]
                while st_:
                    l = st_.pop()
                    if l in seen or len(seen) > 12:
                        continue
                    seen.add(l)
                    for kind, bbi, x in prov.build_defs(b).get(l, ()):
                        if kind == "stmt" and not x["l"]["p"]:
                            r = x["r"]
                            if r["k"] == "bin" and r.get("op") in ("Sub", "SubWithOverflow", "SubUnchecked") and op_is_const(r["b"]) and str(r["b"].get("v")) == "1" and not op_is_const(r["a"]):
                                subs.append(r["a"])
                            elif r["k"] in ("use", "cast") and not op_is_const(r["o"]):
                                st_.append(op_place(r["o"])["l"])
                def chain(o, lim=14):
                    """locals this value is a copy / cast / unwrapping / conversion of"""
                    out_ = set(); st2 = [op_place(o)["l"]] if not op_is_const(o) else []
                    while st2 and len(out_) < lim:
                        l2 = st2.pop()
                        if l2 in out_:
                            continue
                        out_.add(l2)
                        for kind2, bb2, x2 in prov.build_defs(b).get(l2, ()):
                            if kind2 == "stmt" and not x2["l"]["p"] and x2["r"]["k"] in ("use", "cast") and not op_is_const(x2["r"]["o"]):
                                st2.append(op_place(x2["r"]["o"])["l"])
                            elif kind2 == "call" and re.search(r"::(unwrap_or|unwrap_or_default|unwrap|expect|ok|try_from|try_into|from|into|branch)(::<.*>)?$", x2["f"] or "") and x2["a"] and not op_is_const(x2["a"][0]):
                                st2.append(op_place(x2["a"][0])["l"])
                    return out_
                for xo in subs:
                    n += 1
                    X = prov.operand_origins(b, xo, deep=True)
                    xr = chain(xo)
                    guarded = X.has_call(r"::max$|cmp::max::<|NonZero")
                    for d in [y for y in range(len(b.bbs)) if cfg.dominates(b, y, i)]:
                        for st in b.bbs[d]["s"]:
                            if st["k"] == "=" and st["r"]["k"] == "bin" and st["r"].get("op") in ("Eq", "Ne", "Lt", "Le", "Gt", "Ge"):
                                ops = (st["r"]["a"], st["r"]["b"])
                                cs = [o for o in ops if op_is_const(o) and str(o.get("v")) in ("0", "1")]
                                vs = [o for o in ops if not op_is_const(o)]
                                if cs and vs and (chain(vs[0]) & xr):
                                    guarded = True
                        tt = b.bbs[d]["t"]
                        if tt["k"] == "switch" and not op_is_const(tt["d"]) and tt.get("dty") not in ("bool",) and (chain(tt["d"]) & xr) and any(v in (0, 1) for v, _ in tt["ts"]) and not any(st2["k"] == "=" and st2["r"]["k"] == "discr" and st2["l"]["l"] == op_place(tt["d"])["l"] for st2 in b.bbs[d]["s"]):
                            guarded = True
                    R.inst(fn, "count-minus-one:%s#%d" % (c.split("::")[-1], k), {"function": fn, "at": b.loc(i), "count_compared_with_0_or_1_before": guarded})
                    if not guarded:
                        R.finding(fn, "count-minus-one:%s#%d:zero-not-excluded" % (c.split("::")[-1], k),
                                  "%s hands %s a bound computed as `count - 1` (line %d) with no test that the count is at least 1: a count of 0 becomes -1, which the range read takes for `to the last element` -- the whole collection instead of nothing" % (fn.split("::")[-1], c.split("::")[-1], b.bb_line(i)), b.loc(i))
    R.inst("commands", "count-minus-one-sites", {"sites": n})


# ---- R-ARG-ORDER ----------------------------------------------------------------------------------
REORDER = r"slice::<impl \[.*\]>::(sort|sort_by|sort_by_key|sort_unstable|sort_unstable_by|sort_unstable_by_key|sort_by_cached_key|reverse|rotate_left|rotate_right|swap)(::<.*>)?$|Vec::<.*>::(dedup|dedup_by|dedup_by_key|swap_remove)(::<.*>)?$"


def reorder_sites(ctx, fn, b, frames, lpush):
    """[(body, block, callee, filled from the command frames, element is a pair, offending)] for
    the re-ordering calls in b and its closures"""
    import rules_rdb
    out = []
    for body in shared.closure_tree(ctx, b):
        for i, t in body.calls():
            if not re.search(REORDER, t["f"] or "") or not t["a"] or op_is_const(t["a"][0]) or body.bbs[i]["cleanup"]:
                continue
            roots = rules_rdb.root_locals(body, t["a"][0])
            ety = " ".join(body.locals[l] for l in roots)
            from_args = False
            for j, tj in body.calls():
                if re.search(r"Vec::<.*>::(push|insert|extend|extend_from_slice)(::<.*>)?$", tj["f"] or "") and tj["a"] and not op_is_const(tj["a"][0]) and (rules_rdb.root_locals(body, tj["a"][0]) & roots):
                    for a in tj["a"][1:]:
                        if not op_is_const(a) and (set(up_params(ctx, body, a)) & set(frames)):
                            from_args = True
            for l in roots:
                for kind, db, d in prov.build_defs(body).get(l, ()):
                    if kind == "call" and re.search(r"Iterator>::collect|::to_vec$", d["f"] or "") and d["a"] and not op_is_const(d["a"][0]) and (set(up_params(ctx, body, d["a"][0])) & set(frames)):
                        from_args = True
            pairs = bool(re.search(r"Vec<\(", ety))
            out.append((body, i, shared.short_callee(t["f"]), from_args, pairs, from_args and (pairs or lpush)))
    return out


def make_arg_order_rule(pid):
    def rule_arg_order(ctx, R):
        """arguments are applied in the order the client gave them: in the command layer (the
        functions between the dispatcher and the storage engine) a collection filled from the
        command's frames is not re-ordered (sort*, reverse, dedup*, swap*, rotate*) before it is
        applied, where the order carries meaning -- (key, value) / (score, member) pairs (the
        last pair for a repeated name wins) and the elements of a list push."""
        cp = shared.command_path(ctx)
        n = 0; nre = 0
        muts = set(shared.mutators(ctx))
        for fn in sorted(cp):
            b = ctx.prog.bodies.get(fn)
            if b is None or "::tests::" in fn or b.kind == "Closure" or fn.startswith(ENGINE) or fn.startswith("storage::stream::") or fn.startswith("storage::skiplist::"):
                continue
            frames = [k for k in range(1, b.nargs + 1) if "protocol::resp::RespFrame" in b.locals[k]]
            if not frames:
                continue
            if not (ctx.cg.reach([fn]) & muts):
                continue
            n += 1
            lpush = bool(ctx.cg.reach([fn]) & {ENGINE + "lpush", ENGINE + "rpush"})
            for body, i, what, from_args, pairs, bad in reorder_sites(ctx, fn, b, frames, lpush):
                nre += 1
                R.inst(fn, "reorder#%d" % nre, {"function": fn, "at": body.loc(i), "call": what, "filled_from_the_command_frames": from_args, "pairs": pairs, "feeds_a_list_push": lpush})
                if bad:
                    R.finding(fn, "argument-order:%s" % what.split("::")[-1],
                              "%s re-orders (line %d, %s) what it collected from the command's arguments before applying it: for a repeated %s the pair applied last is no longer the one the client gave last" % (fn.split("::")[-1], body.bb_line(i), what, "member / field / key" if pairs else "element the list order changes and"), body.loc(i))
        R.floor("command_layer_functions_with_frames", n)
    return rule_arg_order


def up_params(ctx, body, op):
    """parameters of the outermost function on the deep provenance of an operand (through closure captures)"""
    import rules_pubsub
    return rules_pubsub.up_origins(ctx, body, op)[1]
