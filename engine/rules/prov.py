"""A4: backward provenance of a MIR local inside one body.

origins(b, local) -> set of roots:
   ("param", i)                 function parameter i (1-based MIR local index)
   ("call", callee_full, bb)    result of a call that is not a pass-through
   ("const", text)              constant
   ("agg", name, bb)            aggregate constructed here (struct/enum variant/tuple/closure)
   ("upvar", place-json)        closure capture (projection of _1 in a closure)
   ("other", descr)
and the list of pass-through calls traversed (callee_full, bb) in `via`.
"""
import re, json
from facts import op_local, op_place, op_is_const, callee

PASS_THROUGH = re.compile(
    r"(^<.* as std::ops::Deref>::deref$|^<.* as std::ops::DerefMut>::deref_mut$"
    r"|^std::option::Option::<.*>::(unwrap|expect|as_ref|as_mut|as_deref|as_deref_mut|unwrap_or_default|cloned|copied|take)(::<.*>)?$"
    r"|^std::result::Result::<.*>::(unwrap|expect|as_ref|as_mut|ok)(::<.*>)?$"
    r"|^<.* as std::convert::AsRef<.*>>::as_ref$|^<.* as std::convert::AsMut<.*>>::as_mut$"
    r"|^<.* as std::borrow::Borrow(Mut)?<.*>>::borrow(_mut)?$"
    r"|^<.* as std::ops::Try>::branch$"
    r"|^<.* as std::convert::Into<.*>>::into$|^<.* as std::convert::From<.*>>::from$"
    r"|^<.* as std::ops::Index(Mut)?<.*>>::index(_mut)?$"
    r"|^<.* as std::clone::Clone>::clone$"
    r"|^std::sync::Arc::<.*>::(clone|as_ref)$"
    r"|^std::vec::Vec::<.*>::(as_slice|as_mut_slice)$|^std::string::String::(as_str|as_bytes)$"
    r"|^std::slice::<impl \[.*\]>::to_vec$|^<.* as std::borrow::ToOwned>::to_owned$"
    r"|^std::mem::take::<.*>$"
    r"|^std::sync::(Mutex|RwLock)::<.*>::(lock|try_lock|read|write|try_read|try_write)$"
    r"|^std::collections::hash_map::Entry::<.*>::(or_insert_with|or_insert|or_default)(::<.*>)?$"
    r"|^std::collections::HashMap::<.*>::(entry|get_mut|get)(::<.*>)?$"
    r"|^<.* as std::iter::IntoIterator>::into_iter$|^<.* as std::iter::Iterator>::(next|enumerate|skip|take|rev|peekable|by_ref|cloned|copied)(::<.*>)?$"
    r"|^<.* as std::iter::DoubleEndedIterator>::(next_back|rev)$"
    r")")


def build_defs(b):
    if b._defs is not None:
        return b._defs
    defs = {}
    for i, bb in enumerate(b.bbs):
        for st in bb["s"]:
            if st["k"] == "=":
                defs.setdefault(st["l"]["l"], []).append(("stmt", i, st))
        t = bb["t"]
        if t["k"] == "call":
            defs.setdefault(t["d"]["l"], []).append(("call", i, t))
    b._defs = defs
    return defs


class Prov:
    def __init__(s):
        s.roots = set()
        s.via = []      # pass-through calls traversed: (callee_full, bb)
        s.fields = []   # field projections traversed (names)

    def has_call(s, rx):
        rx = re.compile(rx) if isinstance(rx, str) else rx
        return any(rx.search(c) for c, _ in s.via) or any(r[0] == "call" and rx.search(r[1]) for r in s.roots)

    def params(s):
        return {r[1] for r in s.roots if r[0] == "param"}


def origins(b, local, pass_through=PASS_THROUGH, maxdepth=60, stop_calls=None, deep=False):
    """stop_calls: regex; a call matching it is a root even if it is a pass-through"""
    defs = build_defs(b)
    P = Prov()
    seen = set()
    st = [(local, 0)]
    while st:
        l, d = st.pop()
        if l in seen or d > maxdepth:
            continue
        seen.add(l)
        if 1 <= l <= b.nargs and l not in defs:
            P.roots.add(("param", l)); continue
        ds = defs.get(l)
        if not ds:
            if 1 <= l <= b.nargs:
                P.roots.add(("param", l))
            else:
                P.roots.add(("other", "undefined _%d" % l))
            continue
        if 1 <= l <= b.nargs:
            P.roots.add(("param", l))
        for kind, bbi, x in ds:
            if kind == "call":
                f = x["f"]
                if stop_calls is not None and stop_calls.search(f):
                    P.roots.add(("call", f, bbi)); continue
                if pass_through.search(f) and x["a"]:
                    P.via.append((f, bbi))
                    a0 = x["a"][0]
                    if op_is_const(a0):
                        P.roots.add(("const", a0["c"]))
                    else:
                        pl = op_place(a0)
                        _note_fields(P, b, pl)
                        st.append((pl["l"], d + 1))
                else:
                    P.roots.add(("call", f, bbi))
                    if deep:
                        # value computed from the arguments: keep tracing all of them
                        for a in x["a"]:
                            if not op_is_const(a):
                                pl = op_place(a); _note_fields(P, b, pl); st.append((pl["l"], d + 1))
            else:
                if x["l"]["p"]:
                    # partial assignment into a field of l: the whole keeps other origins
                    r = x["r"]
                    _trace_rvalue(P, b, r, bbi, st, d)
                    continue
                _trace_rvalue(P, b, x["r"], bbi, st, d)
    return P


def _note_fields(P, b, pl):
    for e in pl["p"]:
        if isinstance(e, dict) and "f" in e:
            P.fields.append(e["f"])
    if b.kind == "Closure" and pl["l"] == 1 and pl["p"]:
        P.roots.add(("upvar", json.dumps(pl["p"])))


def _trace_rvalue(P, b, r, bbi, st, d):
    k = r["k"]
    if k in ("use", "cast", "un", "repeat"):
        o = r["o"]
        if op_is_const(o):
            P.roots.add(("const", o["c"]))
        else:
            pl = op_place(o); _note_fields(P, b, pl); st.append((pl["l"], d + 1))
    elif k in ("ref", "rawptr", "discr"):
        pl = r["p"]; _note_fields(P, b, pl); st.append((pl["l"], d + 1))
    elif k == "bin":
        for o in (r["a"], r["b"]):
            if op_is_const(o):
                P.roots.add(("const", o["c"]))
            else:
                pl = op_place(o); _note_fields(P, b, pl); st.append((pl["l"], d + 1))
    elif k == "agg":
        P.roots.add(("agg", r["a"], bbi))
        for o in r["o"]:
            if not op_is_const(o):
                pl = op_place(o); _note_fields(P, b, pl); st.append((pl["l"], d + 1))
    else:
        P.roots.add(("other", r.get("d", k)))


def operand_origins(b, op, **kw):
    if op_is_const(op):
        P = Prov(); P.roots.add(("const", op["c"])); return P
    pl = op_place(op)
    P = origins(b, pl["l"], **kw)
    _note_fields(P, b, pl)
    return P
