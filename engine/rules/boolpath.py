"""Path-sensitive "only under this test" analysis with boolean flag tracking.

Question decided: can a block be reached along a CFG path that passes no *evidence* edge, when
branches on boolean locals whose value is known on that path -- constants, results of evidence
tests, copies, negations and `&`/`|` of those, and the outcome of an earlier branch on the same
local -- are followed only in the direction consistent with that value?

This replaces edge-dominance formulations ("the push is dominated by the true edge of the match
test") wherever maintainers can legitimately write the same thing with a flag variable
(`let mut include = true; if .. { include = false }; if include { push }`), a helper or closure
returning the test's result, `Option::map_or(true, |p| test(p))`, or an early `continue`.

Abstract values of a bool local on a path:
    T, F        constant
    A           "accepting": true implies the evidence holds   (result of the test itself)
    N           negated:     false implies the evidence holds
    (absent)    unknown
A `Spec` says which calls yield A/N results and which non-boolean switch edges are evidence.
The exploration is exhaustive over (block, flag state) pairs; a cap on the number of states makes
the caller's rule break (exit 2) instead of passing silently.
"""
import re
from facts import op_place, op_is_const, callee

T, F, A, N = "T", "F", "A", "N"
FLIP = {T: F, F: T, A: N, N: A}
CAP = 400000


class TooManyStates(Exception):
    pass


class Spec:
    def call(self, b, bbi, t):
        """abstract value (A / N / T / F / None) of the bool result of call terminator t"""
        return None

    def edges(self, b, bbi, t):
        """successor blocks of switch terminator t (on a non-bool value) whose edge is evidence"""
        return ()

    def stmt(self, b, bbi, st):
        """abstract value of a bool assignment the engine does not understand itself, else None"""
        return None


def _const_bool(o):
    if not op_is_const(o):
        return None
    c = o["c"]
    if c.startswith("const "):
        c = c[6:]
    return T if c == "true" else F if c == "false" else None


def _is_bool_local(b, pl):
    return pl is not None and not pl["p"] and b.locals[pl["l"]] == "bool"


def _and(x, y):
    if x == F or y == F:
        return F
    if x == T:
        return y
    if y == T:
        return x
    if x == A or y == A:
        return A
    return None


def _or(x, y):
    if x == T or y == T:
        return T
    if x == F:
        return y
    if y == F:
        return x
    if x == N or y == N:
        return N
    if x == A and y == A:
        return A
    return None


def _mut_borrowed(b):
    """bool locals whose address is taken mutably: never tracked"""
    out = set()
    for bb in b.bbs:
        for st in bb["s"]:
            if st["k"] == "=" and (st["r"]["k"] == "rawptr" or (st["r"]["k"] == "ref" and st["r"].get("m"))) and not st["r"]["p"]["p"]:
                out.add(st["r"]["p"]["l"])
    return out


class Result:
    def __init__(s):
        s.reached = {}       # block -> predecessor state key (for witnesses) of first evidence-free arrival
        s.ret_vals = set()   # abstract values of _0 at evidence-free returns ('?' = unknown)
        s.evidence_switches = set()   # blocks whose switch had an evidence edge (the tests themselves)
        s.tuple_vals = {}    # field index -> abstract values of bool operands of `_0 = (a, b, ..)` on evidence-free paths
        s.states = 0
        s.parent = {}

    def witness(s, b, blk):
        """one evidence-free path to blk as a list of blocks"""
        key = s.reached.get(blk)
        path = []
        while key is not None:
            path.append(key[0]); key = s.parent.get(key)
        return path[::-1]


def explore(b, spec, starts=(0,), init=None, stop=(), cap=CAP):
    """explores all evidence-free paths from `starts`.  `stop`: blocks not to be entered."""
    res = Result()
    bad = _mut_borrowed(b)
    stop = set(stop)
    init = dict(init or {})
    work = []
    for s0 in starts:
        k = (s0, frozenset(init.items()))
        res.parent[k] = None
        work.append(k)
    seen = set(work)
    while work:
        key = work.pop()
        blk, fs = key
        if blk not in res.reached:
            res.reached[blk] = key
        res.states += 1
        if res.states > cap:
            raise TooManyStates("%s: more than %d (block, flag-state) pairs" % (b.fn, cap))
        st = dict(fs)

        def setv(l, v):
            # a new value of l invalidates aliases of l
            for k2 in [k2 for k2, v2 in st.items() if isinstance(v2, tuple) and v2[1] == l]:
                del st[k2]
            if v is None or l in bad:
                st.pop(l, None)
            else:
                st[l] = v

        def val(l):
            v = st.get(l)
            if isinstance(v, tuple):
                return st.get(v[1]) if not isinstance(st.get(v[1]), tuple) else None
            return v

        for s_ in b.bbs[blk]["s"]:
            if s_["k"] != "=":
                continue
            lp = s_["l"]
            if lp["l"] == 0 and not lp["p"] and s_["r"]["k"] == "agg" and s_["r"]["a"] == "tuple":
                for k_, o_ in enumerate(s_["r"]["o"]):
                    c_ = _const_bool(o_)
                    if c_ is None and not op_is_const(o_) and _is_bool_local(b, op_place(o_)):
                        c_ = val(op_place(o_)["l"]) or "?"
                    if c_ is not None:
                        res.tuple_vals.setdefault(k_, set()).add(c_)
                continue
            if lp["p"] or b.locals[lp["l"]] != "bool":
                continue
            r = s_["r"]; v = None
            if r["k"] == "use":
                v = _const_bool(r["o"])
                if v is None and not op_is_const(r["o"]):
                    sp = op_place(r["o"])
                    if _is_bool_local(b, sp):
                        v = val(sp["l"])
                        if v is None and sp["l"] not in bad:
                            v = ("=", sp["l"])
            elif r["k"] == "un" and r.get("op") == "Not" and not op_is_const(r["o"]):
                sp = op_place(r["o"])
                if _is_bool_local(b, sp):
                    v = FLIP.get(val(sp["l"]))
            elif r["k"] == "bin" and r.get("op") in ("BitAnd", "BitOr"):
                vs = []
                for o in (r["a"], r["b"]):
                    c = _const_bool(o)
                    if c is None and not op_is_const(o) and _is_bool_local(b, op_place(o)):
                        c = val(op_place(o)["l"])
                    vs.append(c)
                v = _and(*vs) if r["op"] == "BitAnd" else _or(*vs)
            if v is None:
                v = spec.stmt(b, blk, s_)
            setv(lp["l"], v)
        t = b.bbs[blk]["t"]
        k = t["k"]
        nxt = []      # (target, state-dict)
        if k == "return":
            v0 = val(0) if b.locals[0] == "bool" else None
            res.ret_vals.add(v0 or "?")
        elif k == "call":
            d = t["d"]
            if not d["p"] and b.locals[d["l"]] == "bool":
                setv(d["l"], spec.call(b, blk, t))
            if t["t"] >= 0:
                nxt.append((t["t"], st))
        elif k == "switch":
            dl = op_place(t["d"]) if not op_is_const(t["d"]) else None
            ts = list(t["ts"]); zero = dict(ts).get(0)
            targets = [x for _, x in ts] + [t["o"]]
            if _is_bool_local(b, dl):
                l = dl["l"]; v = val(l)
                root = st[l][1] if isinstance(st.get(l), tuple) else l
                for tgt in dict.fromkeys(targets):
                    is_zero = (tgt == zero)
                    if tgt == zero and any(x == zero for _, x in ts if _ != 0):
                        is_zero = None     # both outcomes lead here
                    if is_zero is True and v == T or is_zero is False and v == F:
                        continue           # infeasible on this path
                    if is_zero is True and v == N or is_zero is False and v == A:
                        res.evidence_switches.add(blk)
                        continue           # evidence edge: everything behind it is fine
                    s2 = dict(st)
                    if is_zero is not None and root not in bad:
                        nv = F if is_zero else T
                        s2[root] = nv
                        if l != root:
                            s2[l] = nv
                    nxt.append((tgt, s2))
            else:
                ev = set(spec.edges(b, blk, t))
                for tgt in dict.fromkeys(targets):
                    if tgt in ev:
                        res.evidence_switches.add(blk)
                        continue
                    nxt.append((tgt, st))
        else:
            for tgt in b.succs(blk):
                nxt.append((tgt, st))
        for tgt, s2 in nxt:
            if tgt in stop:
                continue
            k2 = (tgt, frozenset(s2.items()))
            if k2 not in seen:
                seen.add(k2); res.parent[k2] = key; work.append(k2)
    return res


def tuple_field_kind(b, spec, k):
    """A / N kind of the k-th field of the tuple b returns (a bool), else None"""
    r = explore(b, spec, cap=40000)
    vs = r.tuple_vals.get(k)
    if vs is None:
        return None
    if vs <= {F, A}:
        return A
    if vs <= {T, N}:
        return N
    return None


def ret_kind(b, spec):
    """A if `true` returned by b implies the evidence, N if `false` does, else None (b returns bool)"""
    if b.locals[0] != "bool":
        return None
    r = explore(b, spec, cap=40000)
    if not r.ret_vals or r.ret_vals <= {F, A}:
        return A
    if r.ret_vals <= {T, N}:
        return N
    return None


OPTION_TEST = re.compile(r"^std::option::Option::<.*>::(is_none|is_some|map_or|is_none_or|is_some_and)(::<.*>)?$")


def option_call(b, t, is_subject, closure_kind):
    """abstract value of bool-returning Option tests on a subject Option (`is_subject(b, operand)`):
       is_none -> A, is_some -> N, map_or(true, cl) / is_none_or(cl) -> A if cl is accepting,
       is_some_and(cl) -> A if cl is accepting (regardless of the subject)"""
    m = OPTION_TEST.match(t["f"] or "")
    if not m or not t["a"]:
        return None
    kind = m.group(1)
    cl = t.get("clos") or []
    if kind == "is_some_and":
        return A if cl and closure_kind(cl[-1]) == A else None
    if not is_subject(b, t["a"][0]):
        return None
    if kind == "is_none":
        return A
    if kind == "is_some":
        return N
    if kind == "is_none_or":
        return A if cl and closure_kind(cl[-1]) == A else None
    if kind == "map_or" and len(t["a"]) >= 2:
        dflt = _const_bool(t["a"][1])
        if dflt == T and cl and closure_kind(cl[-1]) == A:
            return A
        if dflt == F and cl and closure_kind(cl[-1]) == A:
            return A
    return None


def none_edge(b, bbi, t, is_subject):
    """successor of a switch on `discriminant(x)` that is taken exactly when x is None, if x is a
    subject Option (both `[0: none, 1: some]` and `[1: some] otherwise none` forms)"""
    if op_is_const(t["d"]):
        return ()
    d = op_place(t["d"])["l"]
    for st in reversed(b.bbs[bbi]["s"]):
        if st["k"] == "=" and st["l"]["l"] == d and not st["l"]["p"]:
            if st["r"]["k"] == "discr" and is_subject(b, {"cp": st["r"]["p"]}):
                ts = dict(t["ts"])
                z = ts.get(0)
                if z is None and 1 in ts:
                    z = t["o"]
                return (z,) if z is not None and z != ts.get(1) else ()
            break
    return ()
