"""C15 / C16 rules over storage/stream.rs and storage/consumer_groups.rs."""
import re
from facts import callee, op_local, op_place, op_is_const
import cfg, shared, prov

SD = "storage::stream::StreamData::"
ST = "storage::stream::Stream::"
CG = "storage::consumer_groups::ConsumerGroup::"
PEL = "storage::consumer_groups::PendingEntryList::"
ENTRIES = "storage::stream::StreamData.entries"
SEQ = r"(?:Vec|VecDeque)::<storage::stream::StreamEntry>::"
LAST_ID = "storage::stream::StreamData.last_id"
ATOMS = ("storage::stream::Stream.last_id_millis", "storage::stream::Stream.last_id_seq")


def recv_calls(b, field, rx):
    out = []
    for i, t in b.calls():
        if re.search(rx, t["f"] or "") and t["a"] and not op_is_const(t["a"][0]):
            P = prov.operand_origins(b, t["a"][0])
            if field in P.fields:
                out.append(i)
    return out


def rule_guard(ctx, R):
    """XADD with an explicit ID: the append is dominated by the refusal test against last_id and
    its refuse edge does not reach the append"""
    b = ctx.prog.need(SD + "add_with_id")
    pushes = recv_calls(b, ENTRIES, SEQ + r"(push|push_back|insert)$")
    R.floor("explicit_id_appends", len(pushes))
    cmps = []
    for i, t in b.calls():
        m = re.search(r"StreamId as std::cmp::PartialOrd>::(le|lt|gt|ge)$", t["f"] or "")
        if not m or t["t"] < 0:
            continue
        srcs = [prov.operand_origins(b, a) for a in t["a"]]
        has_last = any(LAST_ID in P.fields for P in srcs)
        has_id = any(2 in P.params() for P in srcs)
        if has_last and has_id:
            sw = shared._follow_to_switch(b, t["t"], t["d"]["l"])
            if sw:
                # which side is "id greater than last"? operand order: (id, last) or (last, id)
                id_first = 2 in srcs[0].params()
                op = m.group(1)
                greater_when_true = (op == "gt" and id_first) or (op == "lt" and not id_first)
                greater_when_false = (op == "le" and id_first) or (op == "ge" and not id_first)
                zero = dict(sw[1]["ts"]).get(0)
                if greater_when_true:
                    cmps.append((i, sw[0], sw[1]["o"], zero))
                elif greater_when_false:
                    cmps.append((i, sw[0], zero, sw[1]["o"]))
    for p_ in pushes:
        ok = any(cfg.dominates(b, c, p_) and p_ in cfg.fwd(b, [acc]) and p_ not in cfg.fwd(b, [rej]) for (c, s_, acc, rej) in cmps)
        R.inst(b.fn, "append", {"at": b.loc(p_), "strict_greater_than_last_id_tests": len(cmps), "guarded": ok})
        if not ok:
            R.finding(b.fn, "append:not-guarded-by-last-id",
                      "an entry with an explicit ID is appended (line %d) without a dominating `id > last_id` test whose refusal edge avoids the append: IDs would not be strictly increasing" % b.bb_line(p_), b.loc(p_))
    # nothing is written before the refusal: the refuse edges reach no store to the stream
    for (c, s_, acc, rej) in cmps:
        reg = cfg.fwd(b, [rej]) - cfg.fwd(b, [acc])
        bad = [x for x in reg if b.term(x)["k"] == "call" and re.search(r"fetch_add|::store$|(Vec|VecDeque)::<.*>::(push|push_back)", b.term(x)["f"] or "")]
        R.inst(b.fn, "refusal-edge", {"effects": len(bad)})
        if bad:
            R.finding(b.fn, "refusal-edge:has-effect", "the refusal of a too-small ID has an effect on the stream", b.loc(bad[0]))


def rule_lastid(ctx, R):
    """who may write the last-ID state: the two add functions (and constructors / clear / clone);
    trimming and deletion never lower it"""
    allowed = {SD + "add_auto", SD + "add_with_id", SD + "new", ST + "new", ST + "clear", "storage::stream::StreamId::generate_next_atomic",
               "<storage::stream::Stream as std::clone::Clone>::clone"}
    n = 0
    for fn, b in sorted(ctx.prog.bodies.items()):
        if not fn.startswith("storage::stream::") and "storage::stream::Stream" not in fn:
            continue
        if "::tests::" in fn:
            continue
        writes = []
        for i, bb in enumerate(b.bbs):
            for st in bb["s"]:
                if st["k"] == "=":
                    fs = [e["f"] for e in st["l"]["p"] if isinstance(e, dict) and "f" in e]
                    if fs and fs[-1] == LAST_ID:
                        writes.append((i, "last_id"))
                    if st["r"]["k"] == "agg" and st["r"]["a"] in ("storage::stream::StreamData::StreamData", "storage::stream::Stream::Stream"):
                        writes.append((i, "construct"))
        for i, t in b.calls():
            if re.search(r"atomic::Atomic.*::(store|fetch_add|fetch_sub|swap|compare_exchange(_weak)?|fetch_max|fetch_min)$", t["f"] or "") and t["a"]:
                P = prov.operand_origins(b, t["a"][0])
                if any(f in ATOMS for f in P.fields):
                    writes.append((i, "atomic"))
                elif fn == "storage::stream::StreamId::generate_next_atomic":
                    writes.append((i, "atomic(param)"))
        for i, what in writes:
            n += 1
            R.inst(fn, "writes-last-id:" + what, {"function": fn, "what": what, "at": b.loc(i)})
            if fn not in allowed:
                R.finding(fn, "writes-last-id:" + what, "%s writes the stream's last-ID state (%s, line %d): only additions may move it, so that `*` stays above every ID ever added even after XDEL/XTRIM" % (fn.split("::")[-1], what, b.bb_line(i)), b.loc(i))
    R.floor("last_id_writes", n)
    # both add paths move BOTH views (StreamData.last_id and the atomics used by `*`)
    for nm in ("add_with_id",):
        b = ctx.prog.need(SD + nm)
        l = any(st["k"] == "=" and [e for e in st["l"]["p"] if isinstance(e, dict) and e.get("f") == LAST_ID] for bb in b.bbs for st in bb["s"])
        a = sum(1 for i, t in b.calls() if re.search(r"atomic::Atomic.*::store$", t["f"] or "") and t["a"] and any(f in ATOMS for f in prov.operand_origins(b, t["a"][0]).fields))
        R.inst(b.fn, "both-views", {"last_id_field": bool(l), "atomic_stores": a})
        if not l or a < 2:
            R.finding(b.fn, "both-views:not-updated", "an explicit-ID append does not update both last_id and the millis/seq atomics: a later `*` can return a smaller ID", b.loc())
    b = ctx.prog.need(SD + "add_auto")
    l = any(st["k"] == "=" and [e for e in st["l"]["p"] if isinstance(e, dict) and e.get("f") == LAST_ID] for bb in b.bbs for st in bb["s"])
    g = any(callee(t) == "storage::stream::StreamId::generate_next_atomic" for _, t in b.calls())
    R.inst(b.fn, "auto-id", {"uses_generator": g, "updates_last_id": bool(l)})
    if not (l and g):
        R.finding(b.fn, "auto-id:state-not-updated", "an auto-ID append does not go through the ID generator and update last_id", b.loc())


def rule_st_pair(ctx, R):
    """every change of `entries` has the matching update of the `length` atomic in the same function"""
    n = 0
    for fn, b in sorted(ctx.prog.bodies.items()):
        if not (fn.startswith(SD) or fn.startswith(ST)) or b.kind == "Closure" or "::tests::" in fn:
            continue
        grow = recv_calls(b, ENTRIES, SEQ + r"(push|push_back|push_front|insert|extend|append)")
        shrink = recv_calls(b, ENTRIES, SEQ + r"(remove|drain|clear|retain|truncate|pop|pop_front|pop_back|swap_remove|swap_remove_back|swap_remove_front|split_off)")
        if not grow and not shrink:
            continue
        lens = []
        for i, t in b.calls():
            m = re.search(r"atomic::Atomic.*::(fetch_add|fetch_sub|store)$", t["f"] or "")
            if m and t["a"] and "storage::stream::Stream.length" in prov.operand_origins(b, t["a"][0]).fields:
                lens.append((i, m.group(1)))
        n += 1
        R.inst(fn, "entries-vs-length", {"function": fn, "grow": len(grow), "shrink": len(shrink), "length_updates": [m for _, m in lens]})
        if grow and not any(m in ("fetch_add", "store") for _, m in lens):
            R.finding(fn, "entries-grow:length-not-updated", "%s appends entries without updating the length counter: XLEN diverges from the entries present" % fn.split("::")[-1], b.loc(grow[0]))
        if shrink and not any(m in ("fetch_sub", "store") for _, m in lens):
            R.finding(fn, "entries-shrink:length-not-updated", "%s removes entries without updating the length counter: XLEN diverges from the entries present" % fn.split("::")[-1], b.loc(shrink[0]))
    R.floor("functions_changing_entries", n)


# ---------------------------------------------------------------------------------------
BY_ID = "storage::consumer_groups::PendingEntryList.entries_by_id"
BY_CONS = "storage::consumer_groups::PendingEntryList.entries_by_consumer"


def rule_cg_pair(ctx, R):
    spec = {"add_entry": ("add", "add"), "remove_entry": ("del", "del"), "transfer_ownership": (None, "move"), "remove_consumer_entries": ("del", "del")}
    for nm, (idm, cm) in spec.items():
        b = ctx.prog.need(PEL + nm)
        id_add = recv_calls(b, BY_ID, r"BTreeMap::<.*>::insert$"); id_del = recv_calls(b, BY_ID, r"BTreeMap::<.*>::remove(::<.*>)?$")
        c_add = [i for i, t in b.calls() if re.search(r"Vec::<storage::stream::StreamId>::push$", t["f"] or "")]
        c_del = [i for i, t in b.calls() if re.search(r"Vec::<storage::stream::StreamId>::retain|HashMap::<std::string::String, std::vec::Vec<storage::stream::StreamId>>::remove", t["f"] or "")]
        R.inst(b.fn, "pel-pair", {"by_id_add": len(id_add), "by_id_del": len(id_del), "by_consumer_add": len(c_add), "by_consumer_del": len(c_del)})
        bad = None
        if idm == "add" and not (id_add and c_add):
            bad = "adds an entry to one pending index only"
        if idm == "del" and not (id_del and c_del):
            bad = "removes an entry from one pending index only"
        if cm == "move" and not (c_add and c_del):
            bad = "moves ownership without updating both consumers' lists"
        if bad:
            R.finding(b.fn, "pel-pair:one-sided", "%s %s: XPENDING's total, bounds and per-consumer view disagree" % (nm, bad), b.loc())
    # group level: per-consumer counter and total move with the PEL
    g = ctx.prog.need(CG + "add_pending")
    adds = [i for _, i, t in shared.deep_calls(ctx, g) if callee(t) == PEL + "add_entry"]
    tot = _tree(ctx, g, total_updates); pc = _tree(ctx, g, pending_count_updates)
    R.inst(g.fn, "group-counters", {"pel_adds": len(adds), "total_pending_updates": len(tot), "consumer_pending_count_updates": len(pc)})
    if not (adds and tot and pc):
        R.finding(g.fn, "group-counters:not-in-step", "add_pending does not update the PEL, the consumer's pending_count and total_pending together", g.loc())
    a = ctx.prog.need(CG + "acknowledge")
    rem = [i for _, i, t in shared.deep_calls(ctx, a) if callee(t) == PEL + "remove_entry"]
    tot = _tree(ctx, a, total_updates); pc = _tree(ctx, a, pending_count_updates)
    R.inst(a.fn, "group-counters", {"pel_removes": len(rem), "total_pending_updates": len(tot), "consumer_pending_count_updates": len(pc)})
    if not (rem and tot and pc):
        R.finding(a.fn, "group-counters:not-in-step", "acknowledge does not update the PEL, the consumer's pending_count and total_pending together", a.loc())
    c = ctx.prog.need(CG + "claim_messages")
    tr = [i for _, i, t in shared.deep_calls(ctx, c) if callee(t) == PEL + "transfer_ownership"]
    pc = _tree(ctx, c, pending_count_updates)
    R.inst(c.fn, "group-counters", {"transfers": len(tr), "consumer_pending_count_updates": len(pc)})
    if not tr or len(pc) < 2:
        R.finding(c.fn, "group-counters:not-in-step", "claim_messages does not move the entry and both consumers' pending_count together", c.loc())
    d = ctx.prog.need(CG + "delete_consumer")
    rc = [i for _, i, t in shared.deep_calls(ctx, d) if callee(t) == PEL + "remove_consumer_entries"]
    tot = _tree(ctx, d, total_updates)
    R.inst(d.fn, "group-counters", {"pel_consumer_removal": len(rc), "total_pending_updates": len(tot)})
    if not (rc and tot):
        R.finding(d.fn, "group-counters:not-in-step", "delete_consumer does not drop the consumer's pending entries and total_pending together", d.loc())


def _tree(ctx, b, f):
    """f's sites in b and in the closures b drives (`.inspect(|e| ..)`, `.for_each(..)`)"""
    return [x for body in shared.closure_tree(ctx, b) for x in f(body)]


def total_updates(b):
    out = []
    for i, bb in enumerate(b.bbs):
        for st in bb["s"]:
            if st["k"] == "=" and "*" in st["l"]["p"] and "usize" in b.locals[st["l"]["l"]]:
                P = prov.origins(b, st["l"]["l"])
                if "storage::consumer_groups::ConsumerGroup.total_pending" in P.fields:
                    out.append(i)
    return out


def pending_count_updates(b):
    out = []
    for i, bb in enumerate(b.bbs):
        for st in bb["s"]:
            if st["k"] == "=" and [e for e in st["l"]["p"] if isinstance(e, dict) and e.get("f") == "storage::consumer_groups::Consumer.pending_count"]:
                out.append(i)
    return out


def rule_cg_ack1(ctx, R):
    """the acknowledged counter is incremented only on the Some edge of remove_entry"""
    b = ctx.prog.need(CG + "acknowledge")
    # single-entry removals: functions of the pending list that take an entry out of the by-id
    # index and say whether there was one (Option result)
    removers = {PEL + "remove_entry"}
    for fn2, b2 in ctx.prog.bodies.items():
        if fn2.startswith(PEL) and b2.kind != "Closure" and b2.locals[0].startswith("std::option::Option<") and \
           any(re.search(r"BTreeMap::<storage::stream::StreamId, storage::consumer_groups::PendingEntry>::remove(::<.*>)?$", t["f"] or "") for _, _, t in shared.deep_calls(ctx, b2)):
            removers.add(fn2)
    rem = [i for i, t in b.calls() if callee(t) in removers]
    # `ids.iter().filter_map(|id| pending.remove_entry(id))`: the removal sits in a closure whose
    # result is the Option itself, and the adaptor hands only the Some payloads to the loop body
    lazy = []
    for i, t in b.calls():
        if re.search(r"Iterator>::(filter_map|flat_map)::<", t["f"] or "") and t.get("clos"):
            cb = ctx.prog.bodies.get(t["clos"][-1])
            if cb is not None:
                for j, tj in cb.calls():
                    if callee(tj) in removers:
                        P = prov.origins(cb, 0)
                        if any(r[0] == "call" and r[2] == j for r in P.roots):
                            lazy.append(i)
    R.floor("remove_entry_calls", len(rem) + len(lazy))
    for i in lazy:
        R.inst(b.fn, "ack-count", {"removal": "inside filter_map closure returning the Option", "loop_body_sees_only_removed_entries": True})
    incs = []
    for i, bb in enumerate(b.bbs):
        for st in bb["s"]:
            if st["k"] == "=" and not st["l"]["p"] and b.names.get(st["l"]["l"]) and st["r"]["k"] == "use":
                # acked = move (_x.0) after AddWithOverflow(acked, 1)
                pass
            if st["k"] == "=" and st["r"]["k"] == "bin" and st["r"]["op"] in ("AddWithOverflow", "Add") and b.locals[0] == "usize":
                la = op_local(st["r"]["a"])
                if la is not None and la in b.names and b.locals[la] == "usize":
                    incs.append((i, la))
    if not rem and not lazy and incs:
        R.inst(b.fn, "ack-count", {"increments": len(incs), "single_entry_removals_with_a_result": 0})
        R.finding(b.fn, "ack:counted-outside-some-edge", "XACK counts without a removal that says whether the entry was pending (the count is not tied to an entry leaving the pending list: an ID named twice is counted twice)", b.loc(incs[0][0]))
    for r in rem:
        rs = shared.result_switch(b, r)
        if rs is None:
            R.finding(b.fn, "ack:remove-result-ignored", "XACK counts entries without looking at whether they were pending", b.loc(r)); continue
        some = set()
        for o in rs["ok"]:
            some |= cfg.dom_set(b, o)
        ret = [l for (i, l) in incs]
        ok = bool(incs) and all(i in some for (i, l) in incs)
        R.inst(b.fn, "ack-count", {"increments": len(incs), "all_on_some_edge": ok})
        if not ok:
            R.finding(b.fn, "ack:counted-outside-some-edge", "the XACK count is incremented outside the Some edge of remove_entry: an ID that is not pending (or acknowledged twice) is counted", b.loc(r))


def rule_cg_cursor(ctx, R):
    """a delivery through XREADGROUP advances the group's cursor whether or not NOACK is given"""
    b = ctx.prog.need(ST + "read_group")
    adv = [i for i, t in b.calls() if callee(t) in (CG + "add_pending", CG + "set_id", CG + "advance_last_id")]
    # the noack test: switch on parameter `noack` (bool param)
    noack = [p for p in range(1, b.nargs + 1) if b.locals[p] == "bool"]
    sws = []
    for i, bb in enumerate(b.bbs):
        t = bb["t"]
        if t["k"] == "switch":
            l = op_local(t["d"])
            src = l
            for st in bb["s"]:
                if st["k"] == "=" and st["l"]["l"] == l:
                    if st["r"]["k"] == "use":
                        src = op_local(st["r"]["o"])
                    elif st["r"]["k"] == "un" and st["r"]["op"] == "Not":
                        src = op_local(st["r"]["o"])
            if src in noack:
                sws.append(i)
    R.floor("noack_tests", len(sws))
    okret = [i for i, bb in enumerate(b.bbs) for st in bb["s"] if st["k"] == "=" and st["l"]["l"] == 0 and st["r"]["k"] == "agg" and st["r"]["a"] == "std::result::Result::Ok"]
    for s_ in sws:
        bad = []
        for y in set(b.succs(s_)):
            reach = cfg.fwd(b, [y])
            if any(r in reach for r in okret) and not any(a in reach for a in adv):
                bad.append(y)
        R.inst(b.fn, "noack-test", {"at": b.loc(s_), "cursor_updates": len(adv), "sides_delivering_without_reachable_cursor_update": len(bad)})
        if bad:
            R.finding(b.fn, "noack-delivery-does-not-advance-cursor",
                      "XREADGROUP ... NOACK returns entries without advancing the group's last-delivered ID: the same entries are delivered again to the next reader", b.loc(s_))


def rule_cg_start(ctx, R):
    """the start position given at group creation becomes the group's delivery cursor"""
    b = ctx.prog.need(CG + "new")
    for i, bb in enumerate(b.bbs):
        for st in bb["s"]:
            if st["k"] == "=" and st["r"]["k"] == "agg" and st["r"]["a"] == "storage::consumer_groups::ConsumerGroup::ConsumerGroup":
                k = st["r"]["fs"].index("last_delivered_id")
                P = prov.operand_origins(b, st["r"]["o"][k], deep=True)
                ok = 2 in P.params()
                R.inst(b.fn, "cursor-init", {"from_start_parameter": ok})
                if not ok:
                    R.finding(b.fn, "cursor-init:ignores-start",
                              "a new group's last-delivered ID is not initialised from the start position it was created with: `XGROUP CREATE s g $` followed by XREADGROUP > delivers the whole stream instead of only entries added after creation", b.loc(i))
                return
    R.broken.append("ConsumerGroup construction not found")


# ---------------------------------------------------------------------------------------------
STREAM_MUTATORS = ("add_auto", "add_with_id", "delete", "trim_by_count", "trim_by_min_id")


def rule_keepkey(ctx, R):
    """the last-ID state lives inside the Stream value: an engine method that adds to, deletes
    from or trims a stream never removes the key itself (an emptied stream stays, as in Redis),
    otherwise the next XADD starts again from 0-0 and old IDs are accepted/re-issued."""
    n = 0
    for fn, b in sorted(shared.engine_bodies(ctx.prog).items()):
        muts = [i for i, t in b.calls() if callee(t) in {ST + m for m in STREAM_MUTATORS}]
        if not muts:
            continue
        n += 1
        rem = [(i, f) for (i, k, f) in shared.data_mut_sites(b) if k == "map" and re.search(r"::(remove|remove_entry|clear|drain|retain)(::<.*>)?$", f) and not shared.is_purge_block(b, i)]
        R.inst(fn, "stream-method", {"function": fn, "stream_mutations": len(muts), "key_removals_outside_expiry_purge": len(rem)})
        for i, f in rem[:1]:
            R.finding(fn, "stream-key-removed", "%s removes the stream's key (line %d): the stream's last ID is forgotten, so a later XADD accepts or re-issues an ID that is not greater than one added before" % (fn.split("::")[-1], b.bb_line(i)), b.loc(i))
    R.floor("stream_mutating_engine_methods", n)


def rule_idparse(ctx, R):
    """the ID parser refuses numbers that do not fit in 64 bits: digits are accumulated with
    checked_mul/checked_add (or str::parse), never with wrapping/saturating arithmetic, which
    would map distinct texts onto one ID or onto a smaller one"""
    fns = [fn for fn in ctx.prog.bodies if fn.startswith("storage::stream::StreamId::") and fn.split("::")[-1] in ("from_string", "parse_u64_fast")]
    R.floor("id_parser_functions", len(fns))
    bad = []; good = 0
    for fn in sorted(fns):
        b = ctx.prog.bodies[fn]
        for i, t in b.calls():
            f = t["f"] or ""
            if re.search(r"::(wrapping|saturating|overflowing)_(mul|add)$", f):
                bad.append((fn, i, f))
            if re.search(r"::checked_(mul|add)$|<impl str>::parse::<u64>$", f):
                good += 1
        for x, bb in enumerate(b.bbs):
            for st in bb["s"]:
                if st["k"] == "=" and st["r"]["k"] == "bin" and st["r"]["op"] in ("Mul", "Add") and b.locals[st["l"]["l"]] == "u64":
                    bad.append((fn, x, "unchecked " + st["r"]["op"]))
    R.inst("storage::stream::StreamId", "id-parser", {"functions": sorted(fns), "checked_steps": good, "wrapping_steps": len(bad)})
    for fn, i, f in bad[:1]:
        b = ctx.prog.bodies[fn]
        R.finding(fn, "id-parser:wrapping-arithmetic", "the stream-ID parser accumulates digits with %s (line %d): 18446744073709551616-1 is read as 0-1 instead of being refused" % (f.split("::")[-1], b.bb_line(i)), b.loc(i))
    if not bad and not good:
        R.finding("storage::stream::StreamId::from_string", "id-parser:no-checked-accumulation", "the stream-ID parser has no checked accumulation step", None)


def rule_exhaust(ctx, R):
    """XADD * on an existing stream is refused when no greater ID exists: the auto-ID append is
    guarded by a comparison of the stream's last ID with the maximum ID"""
    b = ctx.prog.need(shared.ENGINE + "xadd")
    adds = [i for i, t in b.calls() if callee(t) == ST + "add_auto" and t["a"] and shared.from_dataset(b, t["a"][0])]
    R.floor("auto_id_appends_on_existing_stream", len(adds))
    eqs = []
    for i, t in b.calls():
        if re.search(r"storage::stream::StreamId as std::cmp::PartialEq>::(eq|ne)$|storage::stream::StreamId as std::cmp::PartialOrd>::(ge|lt|gt|le)$", t["f"] or ""):
            srcs = [prov.operand_origins(b, a) for a in t["a"][:2] if not op_is_const(a)]
            if any(P.has_call(r"storage::stream::Stream::last_id$") for P in srcs) and any(P.has_call(r"storage::stream::StreamId::max$") for P in srcs):
                sw = shared._follow_to_switch(b, t["t"], t["d"]["l"])
                if sw:
                    eqs.append((i, sw))
    for k, a in enumerate(adds):
        ok = False
        for i, (sb, st) in eqs:
            for tgt in [tb for _, tb in st["ts"]] + [st["o"]]:
                if a in cfg.edge_dom_set(b, sb, tgt):
                    others = [tb for tb in [x for _, x in st["ts"]] + [st["o"]] if tb != tgt]
                    if any(cfg.path_avoiding(b, [o], set(b.exits()), set(adds)) is not None for o in others):
                        ok = True
        R.inst(b.fn, "auto-append#%d" % k, {"at": b.loc(a), "guarded_by_last_id_vs_max_test": ok})
        if not ok:
            R.finding(b.fn, "auto-append:no-exhaustion-test", "XADD * appends to an existing stream (line %d) without testing whether the last ID is already the highest possible one: the generated ID is then not greater than the last" % b.bb_line(a), b.loc(a))


BOUND_FIELDS = ("storage::consumer_groups::PendingEntryList.min_pending_id", "storage::consumer_groups::PendingEntryList.max_pending_id")
BY_ID_F = "storage::consumer_groups::PendingEntryList.entries_by_id"


def rule_cg_bounds(ctx, R):
    """XPENDING's ID bounds are a cache of the pending index: every value stored into
    min_pending_id / max_pending_id is (a) computed from entries_by_id (keys().min()/max(),
    first/last key), or (b) the result of min/max with the old bound, or (c) stored under a
    comparison of the new ID with the old bound; and every function that inserts into or removes
    from entries_by_id recomputes / adjusts the bounds on every path to its exit."""
    nst = 0
    writers = set()
    for fn, b in sorted(ctx.prog.bodies.items()):
        if not fn.startswith(PEL) or "::tests::" in fn or b.kind == "Closure":
            continue
        cmp_regs = set()
        for i, t in b.calls():
            if re.search(r"storage::stream::StreamId as std::cmp::(PartialOrd|Ord)>::(lt|le|gt|ge|cmp|partial_cmp)$|std::option::Option<storage::stream::StreamId> as std::cmp::PartialOrd>::(lt|le|gt|ge)$|Option::<storage::stream::StreamId>::(is_none_or|is_some_and|map_or)", t["f"] or "") and t["t"] >= 0:
                sw = shared._follow_to_switch(b, t["t"], t["d"]["l"])
                if sw:
                    for tgt in [tb for _, tb in sw[1]["ts"]] + [sw[1]["o"]]:
                        cmp_regs |= cfg.edge_dom_set(b, sw[0], tgt)
        for x, bb in enumerate(b.bbs):
            if bb.get("cleanup"):
                continue
            for st in bb["s"]:
                if st["k"] != "=":
                    continue
                fs = [e["f"] for e in st["l"]["p"] if isinstance(e, dict) and "f" in e]
                if not fs or fs[-1] not in BOUND_FIELDS:
                    continue
                nst += 1
                writers.add(fn)
                r = st["r"]
                ok = False; why = "?"
                if r["k"] == "agg" and r["a"].endswith("::None") and fn.endswith("::new"):
                    ok = True; why = "constructor"
                else:
                    ops = [r["o"]] if r["k"] == "use" else (r["o"] if r["k"] == "agg" else [])
                    for o in ops:
                        if op_is_const(o):
                            continue
                        P = prov.operand_origins(b, o, deep=True)
                        if BY_ID_F in P.fields:
                            ok = True; why = "computed from the index"
                        elif P.has_call(r"std::cmp::(min|max)::<|as std::cmp::Ord>::(min|max)$"):
                            ok = True; why = "min/max with the old bound"
                    if not ok and x in cmp_regs:
                        ok = True; why = "under a comparison with the old bound"
                R.inst(fn, "bound-store:" + fs[-1].rsplit(".", 1)[-1], {"function": fn, "line": st.get("line"), "justified": ok, "why": why})
                if not ok:
                    R.finding(fn, "bound-store:%s:not-derived-from-index" % fs[-1].rsplit(".", 1)[-1],
                              "%s stores a value into %s (line %s) that is neither computed from the pending index nor compared with the old bound: after deliveries out of ID order (XGROUP SETID backwards, XCLAIM) XPENDING's bounds differ from the actual pending set" % (fn.split("::")[-1], fs[-1].rsplit(".", 1)[-1], st.get("line")), "%s:%s" % (b.file, st.get("line")))
    R.floor("bound_stores", nst)
    # every index mutation is followed by a bounds update on every path
    nm = 0
    for fn, b in sorted(ctx.prog.bodies.items()):
        if not fn.startswith(PEL) or "::tests::" in fn or b.kind == "Closure":
            continue
        muts = recv_calls(b, BY_ID_F, r"BTreeMap::<.*>::(insert|remove|clear|retain|pop_first|pop_last|split_off)(::<.*>)?$")
        if not muts:
            continue
        upd = set()
        for i, t in b.calls():
            if callee(t) in writers:
                upd.add(i)
        for x, bb in enumerate(b.bbs):
            for st in bb["s"]:
                if st["k"] == "=" and [e for e in st["l"]["p"] if isinstance(e, dict) and e.get("f") in BOUND_FIELDS]:
                    upd.add(x)
        for k, i in enumerate(muts):
            nm += 1
            # removal that found nothing needs no update: follow the Some edge of remove
            starts = [i]
            t = b.term(i)
            if re.search(r"::remove(::<.*>)?$", t["f"] or ""):
                rs = shared.result_switch(b, i)
                if rs and rs["ok"]:
                    starts = rs["ok"]
            p = cfg.path_avoiding(b, starts, set(b.exits()), upd)
            R.inst(fn, "index-mutation#%d" % k, {"function": fn, "at": b.loc(i), "path_without_bounds_update": p is not None})
            if p is not None:
                R.finding(fn, "index-mutation:bounds-not-updated", "%s changes the pending index (line %d) and can return without updating the cached ID bounds" % (fn.split("::")[-1], b.bb_line(i)), b.loc(i))
    R.floor("pending_index_mutations", nm)


def rule_st_amount(ctx, R):
    """XLEN is a separate counter: the amount subtracted from it is the number of entries that
    really left the vector -- (a) a counter incremented by one only after an actual removal call,
    (b) a difference of the vector's len() before and after, or (c) the very bound of the
    `drain(..n)` that removed them.  A count of *requested* IDs/positions is none of these."""
    import rules_coll
    n = 0
    for fn, b in sorted(ctx.prog.bodies.items()):
        if not (fn.startswith(SD) or fn.startswith(ST)) or b.kind == "Closure" or "::tests::" in fn:
            continue
        removals = recv_calls(b, ENTRIES, SEQ + r"(remove|pop|pop_front|pop_back|swap_remove|swap_remove_back|swap_remove_front)$")
        drains = recv_calls(b, ENTRIES, SEQ + r"drain(::<.*>)?$")
        for i, t in b.calls():
            if not re.search(r"atomic::Atomic::<usize>::fetch_sub$", t["f"] or "") or len(t["a"]) < 2:
                continue
            if "storage::stream::Stream.length" not in prov.operand_origins(b, t["a"][0]).fields:
                continue
            n += 1
            amt = t["a"][1]
            ok = False; why = None
            if op_is_const(amt):
                ok = bool(removals) and all(cfg.dominates(b, r_, i) for r_ in removals[:1]); why = "constant after a removal"
            else:
                roots = rules_coll.copy_sources(b, amt)
                # (a) counter incremented only after a removal
                for l in roots:
                    incs = rules_coll.self_increments(b, l)
                    if incs and all(any(cfg.dominates(b, r_, y) or r_ == y for r_ in removals) for y in incs):
                        ok = True; why = "counter incremented after each removal"
                # (c) bound of the drain
                for dcall in drains:
                    td = b.term(dcall)
                    if len(td["a"]) > 1 and not op_is_const(td["a"][1]):
                        PR = prov.operand_origins(b, td["a"][1])
                        dr = set()
                        for kind, db, d in prov.build_defs(b).get(op_place(td["a"][1])["l"], ()):
                            if kind == "stmt" and d["r"]["k"] == "agg":
                                for o in d["r"]["o"]:
                                    if not op_is_const(o):
                                        dr |= rules_coll.copy_sources(b, o)
                        if dr & roots:
                            ok = True; why = "bound of the drain that removed the entries"
                # (b) len difference
                for l in roots:
                    for kind, db, d in prov.build_defs(b).get(l, ()):
                        src = d["r"] if kind == "stmt" else None
                        if src and src["k"] == "use" and not op_is_const(src["o"]):
                            for k2, db2, d2 in prov.build_defs(b).get(op_place(src["o"])["l"], ()):
                                if k2 == "stmt" and d2["r"]["k"] == "bin":
                                    src = d2["r"]
                        if src and src["k"] == "bin" and src["op"].startswith("Sub"):
                            PA = prov.operand_origins(b, src["a"]) if not op_is_const(src["a"]) else None
                            PB = prov.operand_origins(b, src["b"]) if not op_is_const(src["b"]) else None
                            if PA and PB and PA.has_call(SEQ + r"len$") and PB.has_call(SEQ + r"len$"):
                                ok = True; why = "difference of the vector's length"
            R.inst(fn, "length-decrement", {"function": fn, "at": b.loc(i), "amount_is_number_really_removed": ok, "why": why})
            if not ok:
                R.finding(fn, "length-decrement:amount-not-tied-to-removals",
                          "%s subtracts from the XLEN counter (line %d) an amount that is not tied to the entries actually removed (not a per-removal counter, a len() difference or the drain bound): a request naming one ID twice, or an ID that is absent, makes XLEN differ from the entries present" % (fn.split("::")[-1], b.bb_line(i)), b.loc(i))
    R.floor("length_decrements", n)


def rule_cg_idle(ctx, R):
    """idle time = time since the LAST delivery (XCLAIM/XAUTOCLAIM thresholds, XPENDING's idle
    column): every `duration_since` in the consumer-group code that feeds an idle value takes
    PendingEntry.last_delivery -- the field transfer_ownership resets -- and nothing derives a
    duration from delivered_at (first delivery, never updated)"""
    n = 0
    for fn, b in sorted(ctx.prog.bodies.items()):
        if not fn.startswith("storage::consumer_groups::") or "::tests::" in fn:
            continue
        for i, t in b.calls():
            if not re.search(r"SystemTime::(duration_since|elapsed)$", t["f"] or ""):
                continue
            flds = set()
            for a in t["a"]:
                if not op_is_const(a):
                    flds |= {f for f in prov.operand_origins(b, a).fields if f.startswith("storage::consumer_groups::PendingEntry.")}
            if not flds:
                continue
            n += 1
            ok = flds == {"storage::consumer_groups::PendingEntry.last_delivery"}
            R.inst(fn, "idle-source", {"function": fn, "at": b.loc(i), "fields": sorted(f.rsplit(".", 1)[-1] for f in flds)})
            if not ok:
                R.finding(fn, "idle-source:%s" % "+".join(sorted(f.rsplit(".", 1)[-1] for f in flds)),
                          "%s computes an idle time from %s (line %d); idle time counts from the last delivery (last_delivery, reset by every claim), so an entry claimed a moment ago looks idle to the next XCLAIM with a threshold and is taken away from its new owner" % (
                              fn.split("::")[-1], ", ".join(sorted(f.rsplit(".", 1)[-1] for f in flds)), b.bb_line(i)), b.loc(i))
    R.floor("idle_computations", n)


def rule_cg_cursor_readers(ctx, R):
    """acknowledging, claiming and pending-list queries are decided by the pending list alone:
    the delivery cursor (last_delivered_id) is consulted only where entries are delivered or the
    cursor is administered.  (XGROUP SETID may move the cursor below entries that are still
    pending: anything that filters IDs by the cursor then loses them.)"""
    fq = "storage::consumer_groups::ConsumerGroup.last_delivered_id"
    ACCESSORS = (CG + "get_last_id",)
    DELIVERY = re.compile(r"::(add_pending|get_last_id|set_id|new|read_group|create_group|set_group_id|get_info|info|clone|fmt)$|xinfo|xgroup|xreadgroup", re.I)
    n = 0
    for fn, b in sorted(ctx.prog.bodies.items()):
        if "::tests::" in fn or not fn.startswith(("storage::", "<storage::")):
            continue
        touches = False
        for bb in b.bbs:
            for st in bb["s"]:
                if st["k"] != "=":
                    continue
                r = st["r"]; pls = [st["l"]]
                if r["k"] in ("use", "cast") and not op_is_const(r["o"]):
                    pls.append(op_place(r["o"]))
                elif r["k"] in ("ref", "discr"):
                    pls.append(r["p"])
                if any(isinstance(e, dict) and e.get("f") == fq for pl in pls for e in pl["p"]):
                    touches = True
        calls_acc = any(callee(t) in ACCESSORS for _, t in b.calls())
        if not touches and not calls_acc:
            continue
        n += 1
        role_ok = bool(DELIVERY.search(fn)) or b.trait in ("std::clone::Clone", "std::fmt::Debug")
        R.inst(fn, "cursor-reader", {"function": fn, "delivery_or_administration": role_ok})
        if not role_ok:
            R.finding(fn, "cursor-read:outside-delivery",
                      "%s consults the group's delivery cursor (last_delivered_id); acknowledging, claiming and pending queries are decided by the pending list alone -- after XGROUP SETID moved the cursor back, entries that are still pending lie beyond it and a filter by the cursor makes them impossible to acknowledge / claim / list" % fn.split("::")[-1], b.loc())
    R.floor("delivery_cursor_readers", n)


# ---- R-CG-ATOMIC ---------------------------------------------------------------------------------
_STATE_MUT = re.compile(
    r"^(std::collections::(HashMap|BTreeMap|HashSet|BTreeSet|VecDeque|BinaryHeap)::<.*>::(insert|remove|remove_entry|clear|retain|push_back|push_front|pop_front|pop_back|extend|drain|append|pop_first|pop_last|split_off|push|pop|truncate)"
    r"|std::vec::Vec::<.*>::(push|insert|remove|clear|retain|truncate|pop|swap_remove|drain|extend_from_slice|append|dedup)"
    r"|std::collections::(hash_map|btree_map)::(Entry|VacantEntry|OccupiedEntry)::<.*>::(or_insert|or_insert_with|or_default|insert|insert_entry|remove|remove_entry)"
    r"|std::sync::atomic::Atomic\w+::(store|fetch_add|fetch_sub|swap|fetch_max|fetch_min))(::<.*>)?$")
_STATE_REMOVE = re.compile(r"::(remove|remove_entry|pop_front|pop_back|pop|pop_first|pop_last)(::<.*>)?$")
_SELF_PT = None


def _self_pt():
    """pass-through calls that keep pointing INTO the receiver (no clone / to_vec / take: a copy
    mutated locally is not a mutation of the state)"""
    global _SELF_PT
    if _SELF_PT is None:
        _SELF_PT = re.compile(
            r"(^<.* as std::ops::Deref>::deref$|^<.* as std::ops::DerefMut>::deref_mut$"
            r"|^std::option::Option::<.*>::(unwrap|expect|as_ref|as_mut|as_deref|as_deref_mut)(::<.*>)?$"
            r"|^std::result::Result::<.*>::(unwrap|expect|as_ref|as_mut|ok)(::<.*>)?$"
            r"|^<.* as std::ops::Try>::branch$"
            r"|^<.* as std::ops::Index(Mut)?<.*>>::index(_mut)?$"
            r"|^std::sync::Arc::<.*>::as_ref$|^<.* as std::convert::AsRef<.*>>::as_ref$|^<.* as std::convert::AsMut<.*>>::as_mut$"
            r"|^std::sync::(Mutex|RwLock)::<.*>::(lock|try_lock|read|write|try_read|try_write)$"
            r"|^std::collections::(hash_map|btree_map)::Entry::<.*>::(or_insert_with|or_insert|or_default)(::<.*>)?$"
            r"|^std::collections::(HashMap|BTreeMap)::<.*>::(entry|get_mut|get|values_mut|iter_mut)(::<.*>)?$"
            r"|^std::vec::Vec::<.*>::(as_mut_slice|iter_mut|last_mut|first_mut)$|^std::slice::<impl \[.*\]>::(iter_mut|get_mut|last_mut|first_mut)(::<.*>)?$"
            r"|^<.* as std::iter::IntoIterator>::into_iter$|^<.* as std::iter::Iterator>::next$"
            r")")
    return _SELF_PT


def state_mut_sites(b):
    """call sites that mutate state reachable from the receiver (`self`, MIR local 1): a
    collection / atomic mutation whose receiver operand derives from parameter 1 through
    projections, guards and in-place accessors.  -> [(block, callee)]"""
    out = []
    if b.nargs < 1:
        return out
    for i, t in b.calls():
        f = t["f"] or ""
        if b.bbs[i]["cleanup"] or not _STATE_MUT.match(f) or not t["a"] or op_is_const(t["a"][0]):
            continue
        P = prov.operand_origins(b, t["a"][0], pass_through=_self_pt())
        if 1 in P.params():
            out.append((i, f))
    # stores through a reference into the receiver (`*self.cursor.write().unwrap() = id`,
    # `self.total = n`)
    for i, bb in enumerate(b.bbs):
        if bb["cleanup"]:
            continue
        for st in bb["s"]:
            if st["k"] == "=" and "*" in st["l"]["p"]:
                if st["l"]["l"] == 1 or 1 in prov.origins(b, st["l"]["l"], pass_through=_self_pt()).params():
                    out.append((i, "store")); break
    return out


def _mutated_continuation(b, i, f):
    """blocks after mutation site i on which the state HAS changed: for the remove family only the
    Some edge (None = nothing was there); for everything else (insert: the old value is gone on
    both edges) the plain successor"""
    t = b.term(i)
    succ = [t["t"]] if t["t"] >= 0 else []
    if _STATE_REMOVE.search(f) and (b.locals[t["d"]["l"]] or "").startswith("std::option::Option<"):
        rs = shared.result_switch(b, i)
        if rs:
            succ = rs["ok"]
    return succ


def rule_cg_atomic(ctx, R):
    """refused group administration has no effect, below the dataset level: (a) inside the group
    objects (storage::consumer_groups) no `Err(..)` result is built on a path after a mutation of
    the receiver's state; (b) in the XGROUP/XACK/XCLAIM/... handlers no error reply is built on
    the success continuation of a call to a state-mutating method of those objects"""
    import rules_cmd
    MOD = ("storage::consumer_groups::", "storage::stream::Stream::")
    muts = {}
    for fn, b in sorted(ctx.prog.bodies.items()):
        if not fn.startswith(MOD[0]) or "::tests::" in fn or b.kind == "Closure" or fn.endswith("::new"):
            continue
        s = state_mut_sites(b)
        if s:
            muts[fn] = s
    # transitive: methods of the module that call a mutator on their own receiver
    changed = True
    trans = set(muts)
    while changed:
        changed = False
        for fn, b in ctx.prog.bodies.items():
            if not fn.startswith(MOD) or "::tests::" in fn or fn in trans:
                continue
            if any(callee(t) in trans for _, t in b.calls()):
                trans.add(fn); changed = True
    n = 0
    for fn in sorted(trans):
        b = ctx.prog.bodies[fn]
        if not (b.locals[0] or "").startswith("std::result::Result<"):
            continue
        errs = [i for i, bb in enumerate(b.bbs) if not bb["cleanup"] for st in bb["s"]
                if st["k"] == "=" and st["r"]["k"] == "agg" and st["r"]["a"].endswith("Result::Err")]
        sites = list(muts.get(fn, []))
        sites += [(i, callee(t)) for i, t in b.calls() if callee(t) in trans and callee(t) != fn and not b.bbs[i]["cleanup"]]
        for i, f in sites:
            n += 1
            if f in trans:
                rs = shared.result_switch(b, i)
                succ = rs["ok"] if rs else ([b.term(i)["t"]] if b.term(i)["t"] >= 0 else [])
            elif f == "store":
                succ = [i]
            else:
                succ = _mutated_continuation(b, i, f)
            after = cfg.fwd(b, succ)
            hit = sorted(set(errs) & after)
            R.inst(fn, "site:%s" % shared.short_callee(f), {"function": fn, "mutation": shared.short_callee(f), "at": b.loc(i), "err_results_in_function": len(errs), "reachable_after_mutation": len(hit)})
            if hit:
                R.finding(fn, "group-refusal-after:%s" % shared.short_callee(f),
                          "%s builds its Err result (line %d) on a path after it already changed the group state (%s, line %d): the refused request has had an effect -- a duplicate XGROUP CREATE answered BUSYGROUP has replaced the live group with an empty one"
                          % (fn.split("::")[-1], b.bb_line(hit[0]), shared.short_callee(f), b.bb_line(i)), b.loc(i))
    R.floor("result_returning_state_mutators_sites", n)
    # (b) handlers
    nh = 0
    for fn, b in sorted(ctx.prog.bodies.items()):
        if not fn.startswith("storage::commands::consumer_groups::") or "::tests::" in fn:
            continue
        refs = rules_cmd.refusal_blocks(b)
        fail_starts = []; msites = []
        for i, t in b.calls():
            c = callee(t)
            if b.bbs[i]["cleanup"]:
                continue
            rs = shared.result_switch(b, i) if re.match(r"^std::(result::Result|option::Option)<", b.locals[t["d"]["l"]] or "") and c.startswith("storage::") else None
            if rs:
                fail_starts += rs["fail"]
            if c in trans:
                msites.append((i, c, rs["ok"] if rs else ([t["t"]] if t["t"] >= 0 else [])))
        if not msites:
            continue
        fail_dom = set()
        for fs in fail_starts:
            fail_dom |= cfg.dom_set(b, fs)
        val_refs = {r for r in refs if r not in fail_dom}
        for i, c, succ in msites:
            nh += 1
            hit = sorted(cfg.fwd(b, succ) & val_refs)
            R.inst(fn, "call:%s" % c.split("::")[-1], {"handler": fn, "state_mutator": c, "at": b.loc(i), "error_replies_in_function": len(val_refs), "reachable_after_mutation": len(hit)})
            if hit:
                R.finding(fn, "group-refusal-after:%s" % c.split("::")[-1],
                          "an error reply (line %d) is reachable after the group state was already changed by %s (line %d): the refused command has had an effect"
                          % (b.bb_line(hit[0]), c.split("::")[-1], b.bb_line(i)), b.loc(i))
    R.floor("handler_state_mutator_calls", nh)


# ---- R-ST-RANGE-END -------------------------------------------------------------------------------
def _sat_dec_closures(ctx, b):
    """call blocks in b: `unwrap_or_else(|idx| if idx > 0 { idx - 1 } else { 0 })` on a search
    result (closure returning `idx - 1` on one path and the constant 0 on another), or
    `saturating_sub(1)` of a value derived from a search: a saturating decrement of an insertion
    point"""
    out = []
    for i, t in b.calls():
        f = t["f"] or ""
        if b.bbs[i]["cleanup"]:
            continue
        if re.search(r"Result::<usize, usize>::(unwrap_or_else|map_or_else|unwrap_or)(::<.*>)?$", f):
            for cl in t.get("clos") or ():
                cb = ctx.prog.bodies.get(cl)
                if cb is None:
                    continue
                zero = any(st["k"] == "=" and st["l"]["l"] == 0 and not st["l"]["p"] and st["r"]["k"] == "use" and op_is_const(st["r"]["o"]) and const_int_(st["r"]["o"]) == 0 for bb in cb.bbs for st in bb["s"])
                dec = any(st["k"] == "=" and st["r"]["k"] == "bin" and st["r"].get("op") in ("Sub", "SubWithOverflow", "SubUnchecked") and op_is_const(st["r"]["b"]) and const_int_(st["r"]["b"]) == 1 for bb in cb.bbs for st in bb["s"])
                if zero and dec:
                    out.append(i)
        elif re.search(r"usize::saturating_sub$|<impl usize>::saturating_sub$", f) and len(t["a"]) == 2 and op_is_const(t["a"][1]) and const_int_(t["a"][1]) == 1:
            if prov.operand_origins(b, t["a"][0], deep=True).has_call(r"binary_search|partition_point"):
                out.append(i)
    return out


def const_int_(o):
    try:
        return int(o.get("v")) if o.get("v") is not None else None
    except (TypeError, ValueError):
        return None


def range_end_sites(ctx, b):
    """[(block of the inclusive-range construction, [blocks of saturating decrements on its end])]"""
    out = []
    searches = [i for i, t in b.calls() if re.search(r"::binary_search(_by|_by_key)?(::<.*>)?$|::partition_point", t["f"] or "")]
    if not searches:
        return out
    decs = set(_sat_dec_closures(ctx, b))
    for i, t in b.calls():
        if not re.search(r"RangeInclusive::<usize>::new$", t["f"] or "") or len(t["a"]) < 2 or b.bbs[i]["cleanup"]:
            continue
        P = prov.operand_origins(b, t["a"][1], deep=True)
        via = {r[2] for r in P.roots if r[0] == "call"} | {bb for _, bb in P.via}
        out.append((i, sorted(via & decs)))
    return out


def rule_st_range_end(ctx, R):
    """XRANGE / XREVRANGE return exactly the entries with start <= id <= end.  The inclusive end
    position of a range read is the last entry not greater than `end`; when the search says every
    entry is greater (insertion point 0) there is no such entry and the range is empty.  A
    saturating decrement of the insertion point (`if idx > 0 { idx - 1 } else { 0 }`,
    `saturating_sub(1)`) used as an inclusive end conflates `nothing` with `entry 0`."""
    n = 0
    for fn, b in sorted(ctx.prog.bodies.items()):
        if not fn.startswith("storage::stream::") or "::tests::" in fn or b.kind == "Closure":
            continue
        for i, hit in range_end_sites(ctx, b):
            n += 1
            R.inst(fn, "inclusive-range#%d" % 0, {"function": fn, "at": b.loc(i), "end_is_a_saturating_decrement_of_an_insertion_point": bool(hit)})
            if hit:
                R.finding(fn, "inclusive-end:insertion-point-0-becomes-entry-0",
                          "%s uses a saturating decrement of a binary-search insertion point (line %d) as the inclusive end of a range (line %d): when every entry is greater than the end bound the insertion point is 0, there is no entry to end at, and index 0 makes the first entry part of the answer (XRANGE s 1-0 5-0 on a stream starting at 10-0 answers 10-0)" % (fn.split("::")[-1], b.bb_line(hit[0]), b.bb_line(i)), b.loc(i))
    R.floor("inclusive_index_ranges_in_stream_reads", n)


# ---- R-CG-SETID -----------------------------------------------------------------------------------
def rule_cg_setid(ctx, R):
    """XGROUP SETID has exactly its effect: the position stored is the ID the client named (or
    the last entry's ID for `$`) -- no clamping against the stream (min / max / clamp) on the value
    flow from the parsed argument into ConsumerGroup::set_id.  A group may be positioned beyond
    the tail; entries added later at or below that position are then not delivered."""
    import flow
    n = 0
    reach = rules_cmd_arms(ctx, ("XGROUP",))
    for fn in sorted(reach):
        b = ctx.prog.bodies.get(fn)
        if b is None or not fn.startswith("storage::commands::") or "::tests::" in fn:
            continue
        for i, t in b.calls():
            if callee(t) != CG + "set_id" or len(t["a"]) < 2 or op_is_const(t["a"][1]) or b.bbs[i]["cleanup"]:
                continue
            n += 1
            calls = flow.flow_calls(ctx, fn, t["a"][1], seen={(fn, p) for p in range(1, b.nargs + 1)})
            parsed = any(re.search(r"StreamId::(from_string|parse|from_str)$", c or "") for c, _, _ in calls)
            clamps = sorted((c, w, bb) for (c, w, bb) in calls if re.search(r"::(min|max|clamp)(::<.*>)?$", c or "") and re.search(r"StreamId|Ord>::|cmp::", c or ""))
            R.inst(fn, "setid-position", {"function": fn, "at": b.loc(i), "from_the_parsed_argument": parsed, "clamped_by": [shared.short_callee(c) for c, _, _ in clamps][:2]})
            if clamps:
                c, w, bb = clamps[0]
                R.finding(fn, "setid-position:clamped:%s" % re.search(r"::(\w+)(::<.*>)?$", c).group(1),
                          "the position XGROUP SETID stores has passed through %s (%s): an explicit ID beyond the stream's last entry is moved back to it although the command answers OK, so entries added afterwards at or below the requested position are delivered and counted pending" % (shared.short_callee(c), ctx.prog.bodies[w].loc(bb)), b.loc(i))
    R.floor("setid_sites", n)


def rules_cmd_arms(ctx, names):
    import rules_cmd
    return rules_cmd.arms_reach(ctx, names)


# ---- R-XREAD-COUNT --------------------------------------------------------------------------------
def rule_xread_count(ctx, R):
    """XREAD honours COUNT per stream: in every function that reads several streams in one loop
    (`Stream::range_after` inside a loop), the limit handed to each stream is the caller's COUNT
    itself -- a parameter, or a copy of it that is written once and never borrowed mutably (no
    running budget) -- and the loop over the streams ends only when the list of streams is
    exhausted or with an error: an early `break` once `enough` entries were collected leaves out
    streams that hold newer entries."""
    n = 0
    RA = "storage::stream::Stream::range_after"
    for fn, b in sorted(ctx.prog.bodies.items()):
        if "::tests::" in fn or b.kind == "Closure":
            continue
        calls = [i for i, t in b.calls() if callee(t) == RA]
        if not calls:
            continue
        lps = cfg.loops(b)
        for i in calls:
            inl = [(h, body) for h, body in lps.items() if i in body]
            if not inl:
                continue
            n += 1
            h, body = min(inl, key=lambda x: len(x[1]))
            t = b.term(i)
            # (1) the limit is loop-invariant
            why = None
            if len(t["a"]) >= 3 and not op_is_const(t["a"][2]):
                cur = op_place(t["a"][2]); steps = 0
                mutb = set()
                for bb in b.bbs:
                    for st in bb["s"]:
                        if st["k"] == "=" and (st["r"]["k"] == "rawptr" or (st["r"]["k"] == "ref" and st["r"].get("m"))):
                            mutb.add(st["r"]["p"]["l"])
                while cur is not None and steps < 12:
                    steps += 1
                    l = cur["l"]
                    if l in mutb:
                        why = "is borrowed mutably (a running budget)"; break
                    if 1 <= l <= b.nargs:
                        break
                    defs = prov.build_defs(b).get(l, ())
                    if len(defs) != 1:
                        why = "is assigned %d times" % len(defs); break
                    kind, db, d = defs[0]
                    if kind == "stmt" and not d["l"]["p"] and d["r"]["k"] == "use":
                        if op_is_const(d["r"]["o"]):
                            break
                        if db in body and False:
                            pass
                        cur = op_place(d["r"]["o"])
                        if cur["p"]:
                            why = "is read out of another value"; break
                        continue
                    why = "is computed (%s)" % (d["r"]["k"] if kind == "stmt" else shared.short_callee(d["f"] or "")); break
            R.inst(fn, "per-stream-limit", {"function": fn, "at": b.loc(i), "limit_is_the_callers_count": why is None})
            if why:
                R.finding(fn, "per-stream-limit:not-the-callers-count",
                          "%s hands each stream a limit that %s instead of the caller's COUNT: COUNT becomes a budget for the whole reply and later streams are cut short or left out" % (fn.split("::")[-1], why), b.loc(i))
            # (2) the loop ends by exhaustion or with an error only
            oks = {x for x, bb in enumerate(b.bbs) for st in bb["s"] if st["k"] == "=" and st["l"]["l"] == 0 and not st["l"]["p"] and st["r"]["k"] == "agg" and st["r"]["a"] == "std::result::Result::Ok"}
            nexts = [x for x in body if b.term(x)["k"] == "call" and re.search(r"Iterator>::next$", b.term(x)["f"] or "")]
            allowed = set()
            for x in nexts:
                rs = shared.result_switch(b, x)
                if rs:
                    allowed.add(rs["sw"])
            early = []
            for x in sorted(body):
                if b.bbs[x].get("cleanup"):
                    continue
                for y in b.succs(x):
                    if y in body or x in allowed:
                        continue
                    if cfg.fwd(b, [y]) & oks:
                        early.append((x, y))
            R.inst(fn, "stream-loop-exits", {"function": fn, "exits_by_exhaustion_found": len(allowed), "early_success_exits": len(early)})
            if not allowed:
                R.broken.append("%s: the exhaustion exit of the loop over the streams is not recognised" % fn)
            elif early:
                R.finding(fn, "stream-loop:left-before-the-last-stream",
                          "%s can leave the loop over the requested streams (line %d) before the list is exhausted and still answer successfully: streams listed later are missing from the reply although they hold newer entries" % (fn.split("::")[-1], b.bb_line(early[0][0])), b.loc(early[0][0]))
    R.floor("multi_stream_read_loops", n)


# ---- R-ST-FIELDS ----------------------------------------------------------------------------------
def rule_st_fields(ctx, R):
    """entries keep their field-value pairs: the payload of a stream entry is held in a container
    that keeps every pair, in the order given -- a sequence of pairs.  A map keyed by the field
    name drops a pair when a name is repeated (`XADD s * f 1 f 2`) and forgets the order."""
    adt = ctx.prog.adts.get("storage::stream::StreamEntry")
    if not adt or not adt.get("variants"):
        R.broken.append("type storage::stream::StreamEntry not found in the facts"); return
    n = 0
    anchor = ctx.prog.bodies.get("storage::stream::StreamData::add_auto") or ctx.prog.need("storage::stream::Stream::add_auto")
    for name, ty in adt["variants"][0]["f"]:
        if "Vec<u8>" not in ty:
            continue
        n += 1
        keyed = bool(re.search(r"(HashMap|BTreeMap|HashSet|BTreeSet|IndexMap)<", ty))
        R.inst("storage::stream::StreamEntry", "entry-payload:" + name, {"field": name, "type": ty, "keeps_every_pair_in_order": not keyed})
        if keyed:
            R.finding("storage::stream::StreamEntry", "entry-payload:%s:keyed-by-field-name" % name,
                      "a stream entry holds its field-value pairs in `%s`: a repeated field name overwrites the earlier pair and the order of the pairs is lost (XADD s 1-0 f 1 f 2 g 3; XRANGE s - + answers two pairs in arbitrary order)" % ty, anchor.loc())
    R.floor("entry_payload_fields", n)


# ---- R-RDB-STREAM-STATE ---------------------------------------------------------------------------
def rule_rdb_stream_state(ctx, R):
    """a stream's identity is more than its present entries: its last ID (the high-water mark
    XADD compares with) survives deletions and trimming, and a stream emptied by XDEL still
    exists.  Every dump-writer function that reads a stream's entries for the file also reads its
    last ID (`Stream::last_id`, the `last_id` field or the last-id atomics); a writer that
    dumps the entries alone cannot restore either."""
    n = 0
    for fn, b in sorted(ctx.prog.bodies.items()):
        if not fn.startswith("storage::rdb::") or "::tests::" in fn or b.kind == "Closure":
            continue
        reads = [(body, i) for body, i, t in shared.deep_calls(ctx, b) if re.search(r"^storage::stream::Stream::(range|range_after|get_all|entries|iter)", callee(t) or "")]
        if not reads:
            continue
        n += 1
        has = False
        for body, i, t in shared.deep_calls(ctx, b):
            if re.search(r"^storage::stream::Stream::(last_id|get_last_id|last_generated_id)$", callee(t) or ""):
                has = True
        for body in shared.closure_tree(ctx, b):
            for bb in body.bbs:
                for st in bb["s"]:
                    if st["k"] == "=" and st["r"]["k"] in ("use", "ref"):
                        pl = st["r"].get("p") if st["r"]["k"] == "ref" else (op_place(st["r"]["o"]) if not op_is_const(st["r"]["o"]) else None)
                        if pl and any(isinstance(e, dict) and re.search(r"storage::stream::(Stream|StreamData)\.last_id", str(e.get("f", ""))) for e in pl["p"]):
                            has = True
        R.inst(fn, "stream-state", {"writer": fn, "reads_entries_at": reads[0][0].loc(reads[0][1]), "reads_last_id": has})
        if not has:
            R.finding(fn, "stream-state:last-id-not-written",
                      "%s writes a stream's present entries only: after SAVE + restart the stream has forgotten its last ID (XADD 5-0, 9-0; XDEL 9-0; restart; XADD 7-0 is accepted) and a stream emptied by XDEL no longer exists" % fn.split("::")[-1], reads[0][0].loc(reads[0][1]))
    R.floor("dump_writers_reading_streams", n)
