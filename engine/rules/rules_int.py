"""R-INT-CANON (C01, C03): integers stored as text are read back the way Redis reads them.
Redis accepts only the canonical decimal form (string2ll): "+5", "007", "-0" are not integers;
and the whole i64 range must be readable (what Value::integer / to_string can write).  The std
parser `str::parse::<i64>` covers the range but is lenient about '+' and leading zeros, so the
only accepted shape is: std parse, then a round trip `n.to_string() == text` guarding every use.
A reader of stored integers (table below) must obtain its number from such a parser."""
import re
from facts import callee, op_local, op_place, op_is_const
import cfg, shared, prov

PARSE = re.compile(r"^core::str::<impl str>::parse(::<[^>]*>)?$")
PARSE_ANY = re.compile(r"<impl str>::parse(::<[^>]*>)?$")
I64RES = re.compile(r"^std::result::Result<i64, std::num::ParseIntError>$")
TOSTR = re.compile(r"std::string::ToString>::to_string$")
EQ = re.compile(r"std::cmp::PartialEq(<[^>]*>)?>::(eq|ne)$")

# Option/Result plumbing between the parser and the addition (`as_integer().ok_or(NotInteger)?`)
PT_OPT = re.compile(prov.PASS_THROUGH.pattern[:-1] +
                    r"|^std::option::Option::<.*>::(ok_or|ok_or_else|unwrap_or|unwrap_or_else|unwrap_or_default|map|filter|copied|cloned)(::<.*>)?$"
                    r"|^std::result::Result::<.*>::(map_err|map|or_else|unwrap_or|unwrap_or_else)(::<.*>)?$"
                    r")")

# (function, how the stored integer is consumed there)
READERS = (
    ("storage::value::Value::as_integer", "return"),
    ("storage::engine::StorageEngine::hincrby", "checked_add"),
    ("storage::engine::StorageEngine::incr_by", "checked_add"),
)
SCOPE = ("storage::value::", "storage::engine::")


def parse_sites(ctx):
    out = []
    for fn, b in sorted(ctx.prog.bodies.items()):
        if not fn.startswith(SCOPE) or "::tests::" in fn:
            continue
        for i, t in b.calls():
            if PARSE.match(t["f"] or "") and I64RES.match(b.locals[t["d"]["l"]]):
                out.append((fn, b, i))
    return out


def canonical_site(b, i):
    """is the parse call at block i followed by a round-trip test that guards every use of the
    parsed number?  returns (ok, reason)"""
    t = b.term(i)
    stop = PARSE_ANY
    # aliases of the parsed number
    alias = set()
    for l, ty in enumerate(b.locals):
        if re.match(r"^&?[iu](8|16|32|64|128|size)$", ty):
            P = prov.origins(b, l, stop_calls=stop)
            if any(r[0] == "call" and PARSE_ANY.search(r[1]) and r[2] == i for r in P.roots):
                alias.add(l)
    ts_calls = []
    for j, tj in b.calls():
        if TOSTR.search(tj["f"] or "") and tj["a"] and not op_is_const(tj["a"][0]) and op_place(tj["a"][0])["l"] in alias:
            ts_calls.append(j)
    if not ts_calls:
        return False, "the parsed number is never rendered back to text (no round trip)", alias
    src = set()
    if t["a"] and not op_is_const(t["a"][0]):
        src = prov.operand_origins(b, t["a"][0]).roots
    region = None
    for j, tj in b.calls():
        if not EQ.search(tj["f"] or "") or len(tj["a"]) < 2:
            continue
        sides = []
        for a in tj["a"][:2]:
            if op_is_const(a):
                sides.append(set()); continue
            sides.append(prov.operand_origins(b, a, stop_calls=re.compile(r"to_string$")).roots)
        has_ts = [any(r[0] == "call" and r[1].endswith("to_string") and r[2] in ts_calls for r in s_) for s_ in sides]
        if not any(has_ts):
            continue
        other = sides[1] if has_ts[0] else sides[0]
        if not (other & src):
            continue
        sw = shared._follow_to_switch(b, tj["t"], tj["d"]["l"])
        if sw is None:
            continue
        zero = dict(sw[1]["ts"]).get(0)
        eq_t = sw[1]["o"] if tj["f"].endswith("eq") else zero
        region = cfg.edge_dom_set(b, sw[0], eq_t)
    if region is None:
        return False, "the rendered number is not compared with the text that was parsed", alias
    # every other use of the parsed number lies in the equal region
    for x, bb in enumerate(b.bbs):
        if bb.get("cleanup") or x in region:
            continue
        for st in bb["s"]:
            if st["k"] != "=":
                continue
            for l in shared_rvalue_locals(st["r"]):
                if l in alias and st["l"]["l"] not in alias:
                    return False, "the parsed number is used (line %s) outside the branch where the round trip matched" % st.get("line"), alias
        tt = bb["t"]
        if tt["k"] == "call" and x not in ts_calls:
            for a in tt["a"]:
                if not op_is_const(a) and op_place(a)["l"] in alias and tt["d"]["l"] not in alias:
                    return False, "the parsed number is passed on (line %s) outside the branch where the round trip matched" % tt.get("line"), alias
    return True, "std parse + round trip", alias


def shared_rvalue_locals(r):
    out = []
    def op(o):
        if o is not None and not op_is_const(o) and op_place(o) is not None:
            out.append(op_place(o)["l"])
    k = r["k"]
    if k in ("use", "cast", "un"):
        op(r.get("o"))
    elif k == "bin":
        op(r.get("a")); op(r.get("b"))
    elif k == "agg":
        for o in r.get("o", []):
            op(o)
    elif k == "ref":
        pass
    return out


HASH_FNS = ("storage::engine::StorageEngine::hincrby",)


def make_int_canon(pid):
    readers = tuple(r for r in READERS if (r[0] in HASH_FNS) == (pid == "C03"))
    def rule(ctx, R):
        return rule_int_canon(ctx, R, readers, (lambda fn: fn in HASH_FNS) if pid == "C03" else (lambda fn: fn not in HASH_FNS))
    return rule


def rule_int_canon(ctx, R, readers=READERS, report_site=lambda fn: True):
    sites = parse_sites(ctx)
    canon_fns = set()
    for fn, b, i in sites:
        ok, why, _ = canonical_site(b, i)
        if ok:
            canon_fns.add(fn)
        if not report_site(fn):
            continue
        R.inst(fn, "stored-integer-parse", {"function": fn, "at": b.loc(i), "canonical": ok, "why": why})
        if ok:
            canon_fns.add(fn)
        else:
            R.finding(fn, "stored-integer-parse:not-canonical",
                      "text from the dataset is parsed as i64 with str::parse and accepted although %s: \"+5\", \"007\", \"-0\" count as integers (INCR/HINCRBY on them succeed; Redis refuses them)" % why, b.loc(i))
    # functions that hand out a canonical parse result (one level of wrappers)
    changed = True
    while changed:
        changed = False
        for fn, b in ctx.prog.bodies.items():
            if fn in canon_fns or not fn.startswith(SCOPE):
                continue
            if not re.match(r"^std::option::Option<i64>$", b.locals[0]):
                continue
            good = True; some = 0
            for x, bb in enumerate(b.bbs):
                if bb.get("cleanup"):
                    continue
                tt = bb["t"]
                if tt["k"] == "call" and tt["d"]["l"] == 0 and not tt["d"]["p"]:
                    c = callee(tt)
                    if c in canon_fns:
                        some += 1
                    elif not re.search(r"from_residual$", c):
                        good = False
                for st in bb["s"]:
                    if st["k"] == "=" and st["l"]["l"] == 0 and not st["l"]["p"]:
                        r = st["r"]
                        if r["k"] == "agg" and r["a"].endswith("::None"):
                            continue
                        if r["k"] == "use" and not op_is_const(r["o"]):
                            P = prov.operand_origins(b, r["o"], stop_calls=re.compile("|".join(re.escape(c) for c in canon_fns) or "$^"))
                            if P.roots and all(q[0] == "call" and q[1] in canon_fns for q in P.roots):
                                some += 1; continue
                        good = False
            if good and some:
                canon_fns.add(fn); changed = True
    n = 0
    for fn, how in readers:
        b = ctx.prog.bodies.get(fn)
        if b is None:
            continue
        n += 1
        if fn in canon_fns:
            R.inst(fn, "stored-integer-reader", {"function": fn, "reads_through": "canonical parser (itself or wrapper)"})
            continue
        stop = re.compile("|".join("^" + re.escape(c) + "$" for c in canon_fns) or "$^")
        if how == "checked_add":
            recv = []
            for i, t in b.calls():
                if re.search(r"<impl i64>::checked_add$", t["f"] or "") and t["a"]:
                    recv.append((i, t["a"][0]))
            ok_any = False; bad = None
            for i, a in recv:
                if op_is_const(a):
                    continue
                P = prov.operand_origins(b, a, stop_calls=stop, pass_through=PT_OPT)
                calls = {q[1] for q in P.roots if q[0] == "call"}
                if calls & canon_fns:
                    ok_any = True
                elif any(PARSE_ANY.search(c) or "from_str" in c for c in calls) or any(PARSE_ANY.search(v[0]) for v in P.via):
                    bad = (i, "a lenient parse")
                elif calls:
                    bad = bad or (i, "calls %s" % sorted(c.split("::")[-1] for c in calls)[:3])
            R.inst(fn, "stored-integer-reader", {"function": fn, "checked_add_sites": len(recv), "reads_through_canonical_parser": ok_any})
            if not recv:
                R.finding(fn, "stored-integer-reader:no-checked-add", "%s no longer adds with checked_add" % fn.split("::")[-1], b.loc())
            elif not ok_any:
                i, why = bad or (recv[0][0], "an unknown source")
                R.finding(fn, "stored-integer-reader:not-canonical",
                          "%s takes the stored number it increments from %s, not from the canonical parser (std parse over the whole i64 range + round trip): the accepted texts differ from what Redis accepts or from what Value::integer can write" % (fn.split("::")[-1], why), b.loc(i))
        else:
            R.inst(fn, "stored-integer-reader", {"function": fn, "reads_through": None})
            R.finding(fn, "stored-integer-reader:not-canonical",
                      "%s does not return the result of the canonical parser (std parse over the whole i64 range + round trip): the accepted texts differ from what Redis accepts or from what Value::integer can write" % fn.split("::")[-1], b.loc())
    R.floor("stored_integer_readers", n)


def rule_rdb_text_numbers(ctx, R):
    """the dump stores every string byte for byte.  Where the snapshot code parses dataset text as
    a number (to store it in a shorter integer form), the number may replace the text only under a
    round trip `n.to_string() == text`: "+5", "007", "-0" parse as integers but are different
    strings -- keys and members that differ only in such spelling would collapse after a restart"""
    n = 0
    for fn, b in sorted(ctx.prog.bodies.items()):
        if not fn.startswith("storage::rdb::") or "::tests::" in fn or fn.startswith("storage::rdb::RdbReader"):
            continue
        for i, t in b.calls():
            if not PARSE.match(t["f"] or "") or not re.search(r"Result<[iu](8|16|32|64|128|size), std::num::ParseIntError>", b.locals[t["d"]["l"]]):
                continue
            n += 1
            ok, why, _ = canonical_site(b, i)
            R.inst(fn, "text-as-number", {"function": fn, "at": b.loc(i), "round_trip_guard": ok, "why": why})
            if not ok:
                R.finding(fn, "text-as-number:not-canonical",
                          "%s parses a string of the dataset as an integer (line %d) and uses the number although %s: non-canonical spellings (\"+5\", \"007\", \"-0\") are written as the number and come back as different strings" % (fn.split("::")[-1], b.bb_line(i), why), b.loc(i))
    R.note("integer parses of dataset text in the snapshot writer: %d" % n)
    R.trivial()
