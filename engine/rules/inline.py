"""Extract-function tolerance.  Most rules look at one function at a time (dominance, must-pass,
regions of a match arm).  A maintainer who moves part of such a function into a new helper --
`StreamData::push_entry`, `Server::pop_for_wakeup`, `TransactionState::reset` -- keeps the behaviour
but takes the statements the rule looks for out of the function it looks in.  So, before the rules
run, every local function that is NEW with respect to the recorded tree (anchors.json; not matched
as a rename) is inlined into its callers at MIR level (blocks spliced, locals renumbered, parameters
assigned, `return` turned into an assignment of the call's destination plus a goto), innermost
helpers first; a helper all of whose uses were direct calls disappears from the program.  The rules
then see the code the way it was before the extraction.  Functions that already existed in the
recorded tree are never inlined (the rules reason about those by name).  Recursive new functions
and new functions used as values (`.map(Self::helper)`) are left alone.  Everything done is
reported in the evidence (`inlined_new_functions`)."""
import re
import copy, json, os, re

MAX_BLOCKS_AFTER = 6000


LAYER_SCOPES = {"storage::engine::StorageEngine"}


def _scope(fn):
    base = re.sub(r"(::\{closure#\d+\})+$", "", fn)
    base = _strip_generics(base)
    return base.rsplit("::", 1)[0] if "::" in base else ""


def _is_place(d):
    return isinstance(d, dict) and isinstance(d.get("l"), int) and isinstance(d.get("p"), list)


def _renumber(node, L, P):
    """in place: locals += L in places/index projections; promoted[i] -> promoted[i+P]"""
    if isinstance(node, list):
        for x in node:
            _renumber(x, L, P)
        return
    if not isinstance(node, dict):
        return
    if _is_place(node):
        node["l"] += L
        for e in node["p"]:
            if isinstance(e, dict) and isinstance(e.get("ix"), int):
                e["ix"] += L
        return
    if "c" in node and isinstance(node["c"], str) and P and "promoted[" in node["c"]:
        node["c"] = re.sub(r"promoted\[(\d+)\]", lambda m: "promoted[%d]" % (int(m.group(1)) + P), node["c"])
    for k, v in node.items():
        if isinstance(v, (dict, list)):
            _renumber(v, L, P)


def _retarget(t, B):
    k = t["k"]
    def f(x):
        return x + B if isinstance(x, int) and x >= 0 else x
    if k == "goto":
        t["t"] = f(t["t"])
    elif k == "switch":
        t["ts"] = [[v, f(b)] for v, b in t["ts"]]
        t["o"] = f(t["o"])
    elif k in ("call", "drop", "assert"):
        t["t"] = f(t.get("t", -1))
        if "u" in t:
            t["u"] = f(t["u"])


def _callee_def(t):
    return t.get("res") or t.get("def") or t.get("f")


def _strip_generics(name):
    return re.sub(r"::<[^<>]*(<[^<>]*>[^<>]*)*>", "", name or "")


def inline_call(P, x, C):
    t = P.bbs[x]["t"]
    L = len(P.locals); B = len(P.bbs); PR = len(P.promoted)
    P.locals = list(P.locals) + list(C.locals)
    for k, v in C.names.items():
        P.names[L + k] = v
    P.promoted = list(P.promoted) + copy.deepcopy(list(C.promoted))
    line = t.get("line")
    for i in range(1, C.nargs + 1):
        if i - 1 < len(t["a"]):
            P.bbs[x]["s"].append({"k": "=", "l": {"l": L + i, "p": []}, "r": {"k": "use", "o": copy.deepcopy(t["a"][i - 1])}, "line": line})
    dest = t["d"]; target = t.get("t", -1)
    # closures handed to the helper: a call inside the helper that passes such a parameter on
    # (e.g. `self.connections.with_connection(id, f)`) is a call with that closure
    clos_of_param = {}
    outer = list(t.get("clos") or [])
    k = 0
    for i, a in enumerate(t["a"]):
        pl = a.get("cp") or a.get("mv") if isinstance(a, dict) else None
        if pl and not pl["p"] and isinstance(P.locals[pl["l"]], str) and "{closure@" in P.locals[pl["l"]]:
            if k < len(outer):
                clos_of_param[i + 1] = outer[k]
            k += 1
    for cb in C.bbs:
        nb = copy.deepcopy(cb)
        if clos_of_param and nb["t"]["k"] == "call":
            extra = []
            for a in nb["t"].get("a", []):
                pl = (a.get("cp") or a.get("mv")) if isinstance(a, dict) else None
                if pl and not pl["p"]:
                    src = _param_source(C, pl["l"])
                    if src in clos_of_param:
                        extra.append(clos_of_param[src])
            if extra:
                nb["t"]["clos"] = list(nb["t"].get("clos") or []) + [c for c in extra if c not in (nb["t"].get("clos") or [])]
        _renumber(nb["s"], L, PR)
        tt = nb["t"]
        # operands / places inside the terminator
        for key in ("a", "d", "c", "mo", "p"):
            if key in tt:
                _renumber(tt[key], L, PR)
        if tt["k"] == "switch" and isinstance(tt.get("d"), dict):
            pass
        _retarget(tt, B)
        if tt["k"] == "return":
            nb["s"].append({"k": "=", "l": copy.deepcopy(dest), "r": {"k": "use", "o": {"mv": {"l": L, "p": []}}}, "line": line})
            nb["t"] = {"k": "goto", "t": target} if target >= 0 else {"k": "unreachable"}
        P.bbs.append(nb)
    P.bbs[x]["t"] = {"k": "goto", "t": B}
    for a in ("_preds", "_predsu", "_dom", "_domu", "_pdom", "_defs"):
        setattr(P, a, None)


def _param_source(C, l, depth=4):
    """parameter index a local of the helper is a plain copy/move of, else None"""
    if 1 <= l <= C.nargs:
        return l
    if depth == 0:
        return None
    src = None
    for bb in C.bbs:
        for st in bb["s"]:
            if st["k"] == "=" and st["l"]["l"] == l and not st["l"]["p"] and st["r"]["k"] == "use":
                o = st["r"]["o"]
                pl = (o.get("cp") or o.get("mv")) if isinstance(o, dict) else None
                if pl and not pl["p"]:
                    src = _param_source(C, pl["l"], depth - 1)
    return src


def _value_uses(prog, names):
    """new functions referenced as values (fn items passed around) rather than called"""
    used = set()
    def walk(node):
        if isinstance(node, list):
            for x in node:
                walk(x)
        elif isinstance(node, dict):
            f = node.get("fn")
            if isinstance(f, str):
                g = _strip_generics(f)
                if g in names:
                    used.add(g)
            c = node.get("c")
            if isinstance(c, str):
                for n in names:
                    if n in c:
                        used.add(n)
            for v in node.values():
                if isinstance(v, (dict, list)):
                    walk(v)
    for b in prog.bodies.values():
        for bb in b.bbs:
            walk(bb["s"])
            t = bb["t"]
            if t["k"] == "call":
                walk(t.get("a", []))
    return used


_SCALAR = r"(usize|isize|u8|u16|u32|u64|u128|i8|i16|i32|i64|i128|f64|f32|bool|char|\(\))"
_SCALAR_TY = re.compile(r"^(%s|std::option::Option<|std::result::Result<|std::ops::RangeInclusive<|std::ops::Range<|\(|\)|>|,|\s)+$" % _SCALAR)


def _scalar_helper(b):
    if b.nargs == 0 or len(b.bbs) > 60:
        return False
    if not all(re.match(r"^%s$" % _SCALAR, b.locals[l] or "") for l in range(1, b.nargs + 1)):
        return False
    return bool(_SCALAR_TY.match(b.locals[0] or ""))


def normalise(prog, recorded):
    """inline new local functions into their callers; returns a report list"""
    aliased = {b_ for _, b_, _ in getattr(prog, "aliases", [])} | {a for a, _, _ in getattr(prog, "aliases", [])}
    new = set()
    for fn, b in prog.bodies.items():
        if b.kind == "Closure" or "{closure" in fn or "::tests::" in fn or "{impl" in fn:
            continue
        if b.trait:          # trait impl methods (Drop, Display, From ...) are called through the trait
            continue
        if fn in recorded or fn in aliased:
            # value helpers -- every parameter and the result made of scalars only (index and
            # bound arithmetic such as `resolve_index_range(len, start, stop)`) -- are part of
            # the arithmetic of their callers: the rules read them in place whether or not the
            # recorded tree already had them
            if _scalar_helper(b):
                new.add(fn)
            continue
        new.add(fn)
    if not new:
        return []
    stripped = {_strip_generics(n): n for n in new}
    as_values = {stripped[g] for g in _value_uses(prog, set(stripped))}
    # call edges among new functions
    edges = {n: set() for n in new}
    for n in new:
        for i, t in prog.bodies[n].calls():
            c = stripped.get(_strip_generics(_callee_def(t)))
            if c:
                edges[n].add(c)
    # drop recursive ones
    def reaches(a, b, seen):
        for c in edges.get(a, ()):
            if c == b or (c not in seen and reaches(c, b, seen | {c})):
                return True
        return False
    rec = {n for n in new if reaches(n, n, {n})}
    cand = new - rec - as_values
    report = []
    # leaves first
    order = []
    left = set(cand)
    while left:
        ready = [n for n in sorted(left) if not (edges[n] & left)]
        if not ready:
            break
        order += ready
        left -= set(ready)
    for n in order:
        C = prog.bodies[n]
        sites = 0; callers = set()
        for fn, P in list(prog.bodies.items()):
            if fn == n:
                continue
            # a new method of a layer the rules reason about by name (the storage engine's API)
            # stays a method of that layer for callers outside it: `handler -> new engine method`
            # is a new engine operation, not an extracted helper
            if _scope(n) in LAYER_SCOPES and _scope(fn) != _scope(n):
                continue
            changed = True
            guard = 0
            while changed and guard < 50:
                changed = False; guard += 1
                for x, t in list(P.calls()):
                    if _strip_generics(_callee_def(t)) == _strip_generics(n) and len(P.bbs) + len(C.bbs) < MAX_BLOCKS_AFTER:
                        inline_call(P, x, C)
                        sites += 1; callers.add(fn); changed = True
                        break
        still = any(_strip_generics(_callee_def(t)) == _strip_generics(n) for fn, P in prog.bodies.items() if fn != n for _, t in P.calls())
        if sites and not still:
            del prog.bodies[n]
            if not hasattr(prog, "inlined_into") or prog.inlined_into is None:
                prog.inlined_into = {}
            prog.inlined_into[n] = sorted(callers)
        report.append({"function": n, "call_sites_inlined": sites, "callers": sorted(callers)[:6], "removed_from_program": bool(sites and not still)})
    for n in sorted(rec | (as_values & new)):
        report.append({"function": n, "call_sites_inlined": 0, "left_alone": "recursive" if n in rec else "used as a value"})
    return report
