"""C19 rules: R-SCAN-FILTER, R-SCAN-CURSOR, R-SCAN-TERM over StorageEngine::{scan,hscan,sscan,zscan}."""
import re
from facts import callee, op_local, op_place, op_is_const, const_int
import cfg, shared, prov, rules_rdb
from shared import ENGINE

FNS = ["scan", "hscan", "sscan", "zscan"]
PUSH = re.compile(r"^std::vec::Vec::<(std::vec::Vec<u8>|\(std::vec::Vec<u8>, f64\))>::push$")
PM = "storage::engine::pattern_matches"


def result_roots(b):
    """root locals of the collection returned inside the Ok((cursor, items)) tuple, and of the cursor"""
    items = set(); cursors = set()
    for i, bb in enumerate(b.bbs):
        for st in bb["s"]:
            if st["k"] == "=" and st["r"]["k"] == "agg" and st["r"]["a"] == "tuple" and len(st["r"]["o"]) == 2:
                ty = b.locals[st["l"]["l"]]
                if ty.startswith("(u64, std::vec::Vec<"):
                    c, it = st["r"]["o"]
                    if not op_is_const(it):
                        items |= rules_rdb.root_locals(b, it)
                    if not op_is_const(c):
                        cursors |= rules_rdb.root_locals(b, c)
                    else:
                        cursors.add(("const", c["c"]))
    return items, cursors


def flag_false_stores(b):
    """{flag_local: [blocks storing const false]}"""
    out = {}
    for i, bb in enumerate(b.bbs):
        for st in bb["s"]:
            if st["k"] == "=" and not st["l"]["p"] and b.locals[st["l"]["l"]] == "bool" and st["r"]["k"] == "use" and op_is_const(st["r"]["o"]) and st["r"]["o"]["c"] == "false":
                if st["l"]["l"] in b.names:
                    out.setdefault(st["l"]["l"], []).append(i)
    return out


def rule_filter(ctx, R):
    n = 0
    for nm in FNS:
        b = ctx.prog.need(ENGINE + nm)
        items, _ = result_roots(b)
        pushes = [(i, t) for i, t in b.calls() if PUSH.match(t["f"] or "")]
        ret_pushes = [(i, t) for i, t in pushes if rules_rdb.root_locals(b, t["a"][0]) & items]
        # matching edges of pattern_matches calls
        match_reg = set(); nomatch_reg = set()
        for i, t in b.calls():
            if callee(t) == PM and t["t"] >= 0:
                sw = shared._follow_to_switch(b, t["t"], t["d"]["l"])
                if sw:
                    zero = dict(sw[1]["ts"]).get(0)
                    match_reg |= cfg.edge_dom_set(b, sw[0], sw[1]["o"])
                    if zero is not None:
                        nomatch_reg |= cfg.edge_dom_set(b, sw[0], zero)
        # `pattern.is_none()` true edges
        none_reg = set()
        for i, t in b.calls():
            if re.search(r"Option::<&\[u8\]>::is_none$", t["f"] or "") and t["t"] >= 0:
                sw = shared._follow_to_switch(b, t["t"], t["d"]["l"])
                if sw:
                    none_reg |= cfg.edge_dom_set(b, sw[0], sw[1]["o"])
        # also: `if let Some(pat) = pattern_str` None edge inside the loop (no pattern => include)
        flags = flag_false_stores(b)
        good_flags = {f for f, blocks in flags.items() if any(x in nomatch_reg for x in blocks)}
        flag_true_reg = set()
        for i, bb in enumerate(b.bbs):
            t = bb["t"]
            if t["k"] == "switch":
                l = op_local(t["d"]); src = l
                for st in bb["s"]:
                    if st["k"] == "=" and st["l"]["l"] == l and st["r"]["k"] == "use" and not op_is_const(st["r"]["o"]):
                        src = op_local(st["r"]["o"])
                if src in good_flags:
                    flag_true_reg |= cfg.edge_dom_set(b, i, t["o"])
        if not ret_pushes:
            R.finding(b.fn, "filter:no-result-push", "%s returns nothing it collected" % nm, b.loc())
        # return sites per collection: a collection returned only under `no pattern` needs no
        # per-element filter
        ret_sites = {}
        for x, bb in enumerate(b.bbs):
            for st in bb["s"]:
                if st["k"] == "=" and st["r"]["k"] == "agg" and st["r"]["a"] == "tuple" and len(st["r"]["o"]) == 2 and b.locals[st["l"]["l"]].startswith("(u64, std::vec::Vec<") and not op_is_const(st["r"]["o"][1]):
                    for l in rules_rdb.root_locals(b, st["r"]["o"][1]):
                        ret_sites.setdefault(l, []).append(x)
        k = 0
        for i, t in ret_pushes:
            n += 1
            roots = rules_rdb.root_locals(b, t["a"][0])
            sites = [x for l in roots for x in ret_sites.get(l, [])]
            only_unfiltered_returns = bool(sites) and all(x in none_reg for x in sites if x in cfg.fwd(b, [i]))
            ok = i in match_reg or i in none_reg or i in flag_true_reg or only_unfiltered_returns
            R.inst(b.fn, "push#%d" % k, {"function": nm, "at": b.loc(i), "under_match_or_no_pattern": ok})
            if not ok:
                R.finding(b.fn, "push#%d:unfiltered" % k,
                          "%s adds an element to its result (line %d) on a path that is neither under a successful MATCH test nor under `no pattern given`: elements not satisfying the filter are returned" % (nm, b.bb_line(i)), b.loc(i))
            k += 1
    R.floor("result_pushes", n)
    # key-space scan: expired keys and keys of another TYPE never enter the candidate list
    b = ctx.prog.need(ENGINE + "scan")
    cand = [(i, t) for i, t in b.calls() if PUSH.match(t["f"] or "") and not (rules_rdb.root_locals(b, t["a"][0]) & result_roots(b)[0])]
    exp_t = set()
    for i, t in b.calls():
        if callee(t).endswith("::is_expired") and t["t"] >= 0:
            sw = shared._follow_to_switch(b, t["t"], t["d"]["l"])
            if sw:
                exp_t.add((sw[0], sw[1]["o"]))
    ne_t = set()
    for i, t in b.calls():
        if re.search(r"^<&str as std::cmp::PartialEq>::(ne|eq)$|str as std::cmp::PartialEq.*>::(ne|eq)$", t["f"] or "") and t["t"] >= 0:
            srcs = [prov.operand_origins(b, a) for a in t["a"]]
            if any(5 in P.params() for P in srcs):      # type_filter parameter
                sw = shared._follow_to_switch(b, t["t"], t["d"]["l"])
                if sw:
                    zero = dict(sw[1]["ts"]).get(0)
                    ne_t.add((sw[0], sw[1]["o"] if (t["f"] or "").endswith("::ne") else zero))
    heads = set(cfg.loops(b).keys())
    R.floor("candidate_pushes", len(cand))
    for i, t in cand:
        bad_exp = any(i in cfg.fwd(b, [tgt], cut=heads) for (s_, tgt) in exp_t) or not exp_t
        bad_ty = any(i in cfg.fwd(b, [tgt], cut=heads) for (s_, tgt) in ne_t if tgt is not None) or not ne_t
        R.inst(b.fn, "candidate-push", {"at": b.loc(i), "reachable_from_expired_edge": bad_exp, "reachable_from_type_mismatch_edge": bad_ty})
        if bad_exp:
            R.finding(b.fn, "candidate:expired-included", "SCAN collects a key although its is_expired() test was true (or there is no such test)", b.loc(i))
        if bad_ty:
            R.finding(b.fn, "candidate:type-mismatch-included", "SCAN collects a key whose type differs from the TYPE filter (or the filter is not tested)", b.loc(i))


def rule_cursor(ctx, R):
    """necessary condition of completeness under deletions: the continuation cursor is not a
    position in a list rebuilt from the live collection on every call"""
    for nm in FNS:
        b = ctx.prog.need(ENGINE + nm)
        items, cursors = result_roots(b)
        cur_locals = {c for c in cursors if not isinstance(c, tuple)}
        hit = None
        for i, t in b.calls():
            if re.search(r"<std::vec::Vec<(std::vec::Vec<u8>|\(std::vec::Vec<u8>, f64\))> as std::ops::Index<usize>>::index$", t["f"] or "") and len(t["a"]) == 2:
                idx_roots = rules_rdb.root_locals(b, t["a"][1]) if not op_is_const(t["a"][1]) else set()
                if not (idx_roots & cur_locals):
                    continue
                P = prov.operand_origins(b, t["a"][0])
                built_here = any(r[0] == "call" and re.search(r"Vec::<.*>::(new|with_capacity)$|Iterator>::collect::<std::vec::Vec<", r[1]) for r in P.roots) and not (P.params() - {1})
                if built_here:
                    hit = i
        R.inst(b.fn, "cursor-kind", {"function": nm, "positional_cursor_into_rebuilt_list": hit is not None})
        if hit is not None:
            R.finding(b.fn, "cursor:position-in-rebuilt-list",
                      "%s's cursor is an index into a list that is rebuilt (and sorted) from the live collection on every call: deleting an element that sorts before the cursor shifts all later elements down by one, and an element present throughout the iteration is skipped (keys a,b,c COUNT 1: call 1 -> a, cursor 1; DEL a; call 2 indexes [b,c][1] = c; b is never returned)" % nm.upper(), b.loc(hit))


def rule_term(ctx, R):
    for nm in FNS:
        b = ctx.prog.need(ENGINE + nm)
        # `pos >= len` comparison whose true edge stores/returns cursor 0
        ok = False
        for i, bb in enumerate(b.bbs):
            for st in bb["s"]:
                if st["k"] == "=" and st["r"]["k"] == "bin" and st["r"]["op"] in ("Ge", "Gt", "Lt", "Le"):
                    t = bb["t"]
                    if t["k"] != "switch" or op_local(t["d"]) != st["l"]["l"]:
                        continue
                    for tgt in set(b.succs(i)):
                        reg = cfg.edge_dom_set(b, i, tgt)
                        for x in reg:
                            for s2 in b.stmts(x):
                                if s2["k"] == "=" and b.locals[s2["l"]["l"]] == "u64" and s2["r"]["k"] == "use" and const_int(s2["r"]["o"]) == 0 and not s2["l"]["p"]:
                                    ok = True
        # position only increases: every assignment to the cursor's position variable is +const
        items, cursors = result_roots(b)
        mono = True
        for l in [c for c in cursors if not isinstance(c, tuple)]:
            if b.names.get(l) is None or b.locals[l] != "usize":
                continue
            for kind, bbi, x in prov.build_defs(b).get(l, ()):
                if kind == "stmt" and not x["l"]["p"]:
                    r = x["r"]
                    if r["k"] == "use" and not op_is_const(r["o"]):
                        src = op_place(r["o"])
                        # `(_t.0)` of AddWithOverflow(pos, 1) or a start value
                        continue
                    if r["k"] == "bin" and r["op"] in ("Sub", "SubWithOverflow"):
                        mono = False
        R.inst(b.fn, "termination", {"function": nm, "zero_cursor_at_end": ok, "position_monotone": mono})
        if not ok:
            R.finding(b.fn, "term:no-zero-cursor", "%s never returns cursor 0 on reaching the end of the collection: a full iteration does not terminate" % nm, b.loc())
        if not mono:
            R.finding(b.fn, "term:position-decreases", "%s can move its position backwards" % nm, b.loc())



SORT = re.compile(r"^(?:core|std|alloc)::slice::<impl \[.*\]>::(sort|sort_unstable|sort_by|sort_by_key|sort_unstable_by|sort_unstable_by_key|sort_by_cached_key)(::<.*>)?$")


def rule_order(ctx, R):
    """a positional cursor only means something against one fixed order: every indexing of the
    rebuilt list by a cursor-derived position is dominated by a sort of that very list (hash-map
    iteration order differs from call to call), or happens only when the cursor is 0"""
    n = 0
    for nm in FNS:
        b = ctx.prog.need(ENGINE + nm)
        items, cursors = result_roots(b)
        cur_locals = {c for c in cursors if not isinstance(c, tuple)}
        sorts = []
        for i, t in b.calls():
            if SORT.match(t["f"] or "") and t["a"] and not op_is_const(t["a"][0]):
                sorts.append((i, rules_rdb.root_locals(b, t["a"][0]) | _deref_roots(b, t["a"][0])))
        # cursor == 0 regions
        zero_reg = set()
        for x, bb in enumerate(b.bbs):
            for st in bb["s"]:
                if st["k"] == "=" and st["r"]["k"] == "bin" and st["r"]["op"] in ("Eq", "Ne"):
                    a, c = st["r"]["a"], st["r"]["b"]
                    for u, v in ((a, c), (c, a)):
                        if not op_is_const(u) and op_is_const(v) and const_int(v) == 0 and b.locals[op_place(u)["l"]] == "u64" and (prov.operand_origins(b, u).params()):
                            t = bb["t"]
                            if t["k"] == "switch" and op_local(t["d"]) == st["l"]["l"]:
                                ts = dict(t["ts"])
                                tgt = t["o"] if st["r"]["op"] == "Eq" else ts.get(0)
                                if tgt is not None:
                                    zero_reg |= cfg.edge_dom_set(b, x, tgt)
        for i, t in b.calls():
            if re.search(r"<std::vec::Vec<(std::vec::Vec<u8>|\(std::vec::Vec<u8>, f64\))> as std::ops::Index<usize>>::index$", t["f"] or "") and len(t["a"]) == 2:
                idx_roots = rules_rdb.root_locals(b, t["a"][1]) if not op_is_const(t["a"][1]) else set()
                if not (idx_roots & cur_locals):
                    continue
                n += 1
                lroots = rules_rdb.root_locals(b, t["a"][0]) | _deref_roots(b, t["a"][0])
                sorted_dom = any(cfg.dominates(b, si, i) and (sr & lroots) for si, sr in sorts)
                in_zero = i in zero_reg
                R.inst(b.fn, "cursor-index", {"function": nm, "at": b.loc(i), "list_sorted_on_every_path": sorted_dom, "only_when_cursor_is_zero": in_zero})
                if not sorted_dom and not in_zero:
                    R.finding(b.fn, "cursor-index:list-not-sorted-on-every-path",
                              "%s indexes the list it rebuilt from the live collection with a position derived from the client's cursor (line %d) on a path where that list has not been sorted: the cursor was a position in a differently ordered list, so elements are returned twice or never" % (nm.upper(), b.bb_line(i)), b.loc(i))
    R.floor("cursor_index_sites", n)


def _deref_roots(b, o):
    """named locals behind &list / &*list / deref(&list)"""
    P = prov.operand_origins(b, o)
    out = set()
    for r in P.roots:
        if r[0] == "call":
            out.add(("call", r[2]))
    return out
