"""C19 rules: R-SCAN-FILTER, R-SCAN-CURSOR, R-SCAN-TERM over StorageEngine::{scan,hscan,sscan,zscan}."""
import re
from facts import callee, op_local, op_place, op_is_const, const_int
import json
import cfg, shared, prov, rules_rdb, boolpath
from facts import AnchorMissing
from shared import ENGINE

FNS = ["scan", "hscan", "sscan", "zscan"]
PUSH = re.compile(r"^std::vec::Vec::<(std::vec::Vec<u8>|\(std::vec::Vec<u8>, f64\))>::push$")
PM = "storage::engine::pattern_matches"


def result_roots(b):
    """root locals of the collection returned inside the Ok((cursor, items)) tuple, and of the cursor"""
    items = set(); cursors = set()
    for i, bb in enumerate(b.bbs):
        for st in bb["s"]:
            if st["k"] == "=" and st["r"]["k"] == "agg" and st["r"]["a"] == "tuple" and len(st["r"]["o"]) == 2:
                ty = b.locals[st["l"]["l"]]
                if ty.startswith("(u64, std::vec::Vec<"):
                    c, it = st["r"]["o"]
                    if not op_is_const(it):
                        items |= rules_rdb.root_locals(b, it)
                    if not op_is_const(c):
                        cursors |= rules_rdb.root_locals(b, c)
                    else:
                        cursors.add(("const", c["c"]))
    return items, cursors


OPT_SHAPE = re.compile(prov.PASS_THROUGH.pattern[:-1] + r"|^std::option::Option::<.*>::(map|inspect)(::<.*>)?$)")
ITER_SRC = re.compile(r"(Iterator>::collect::<|as std::iter::Extend<.*>>::extend::<|::to_vec$|as std::iter::FromIterator<.*>>::from_iter)")
FILTERING = re.compile(r"Iterator>::(filter|take_while|skip_while)::<")


class _Spec(boolpath.Spec):
    """evidence for "this element may be returned": a successful MATCH test of the engine's glob
    matcher, or the knowledge that no pattern was given.  `subj` = parameters (locals) and captured
    variable names that hold the optional pattern (or an Option derived from it by map/as_ref/...)."""

    def __init__(s, prog, b, subj_params, subj_upvars=(), memo=None):
        s.prog = prog; s.b = b
        s.params = set(subj_params); s.upvars = set(subj_upvars)
        s.memo = memo if memo is not None else {}

    # -- which operands hold the subject Option
    def is_subject(s, b, o):
        if op_is_const(o):
            return False
        pl = op_place(o)
        if "Option<" not in b.locals[pl["l"]]:
            return False
        P = prov.origins(b, pl["l"], pass_through=OPT_SHAPE)
        prov._note_fields(P, b, pl)
        if P.params() & s.params:
            return True
        if b.kind == "Closure" and s.upvars:
            for r in P.roots:
                if r[0] == "upvar":
                    for name, place in b.upvars:
                        if name in s.upvars and place["p"][:1] == json.loads(r[1])[:1] or (name in s.upvars and json.dumps(place["p"]).startswith(r[1][:-1])):
                            return True
            # any projection of the closure environment naming a subject capture
            for name, place in b.upvars:
                if name in s.upvars and any(rr[0] == "upvar" and _same_field(rr[1], place) for rr in P.roots):
                    return True
        return False

    def evidence_call(s, f):
        return None

    def sub(s, cb, subj_params, subj_upvars):
        return type(s)(s.prog, cb, subj_params, subj_upvars, s.memo)

    def body_kind(s, fn, subj_params=(), subj_upvars=()):
        cb = s.prog.bodies.get(fn)
        if cb is None or cb.locals[0] != "bool":
            return None
        k = (type(s).__name__, fn, frozenset(subj_params), frozenset(subj_upvars))
        if k in s.memo:
            return s.memo[k]
        s.memo[k] = None          # recursion guard
        try:
            s.memo[k] = boolpath.ret_kind(cb, s.sub(cb, subj_params, subj_upvars))
        except boolpath.TooManyStates:
            s.memo[k] = None      # not summarised: its result is no evidence
        return s.memo[k]

    def closure_kind(s, cl):
        """kind of a closure created in s.b (captures of subject variables stay subjects)"""
        names = {s.b.names.get(l) for l in s.params} | set(s.upvars)
        # locals of s.b derived from the subject are subjects under their own names too
        for l, nm in s.b.names.items():
            if "Option<" in s.b.locals[l] and s.is_subject(s.b, {"cp": {"l": l, "p": []}}):
                names.add(nm)
        names.discard(None)
        return s.body_kind(cl, (), names)

    def call(s, b, bbi, t):
        f = callee(t)
        v = s.evidence_call(t)
        if v is not None:
            return v
        v = boolpath.option_call(b, t, s.is_subject, s.closure_kind)
        if v is not None:
            return v
        # a filter closure held in a local and called directly (`let is_match = ..; is_match(x)`)
        if re.search(r" as std::ops::Fn(Mut|Once)?<.*>>::call(_mut|_once)?$", t["f"] or "") and t.get("clos") and b is s.b:
            for cl in t["clos"]:
                k = s.closure_kind(cl)
                if k is not None:
                    return k
        cb = s.prog.bodies.get(f)
        if cb is not None and cb.locals[0] == "bool" and cb.kind != "Closure":
            sp = {i + 1 for i, a in enumerate(t["a"]) if s.is_subject(b, a)}
            return s.body_kind(f, sp, ())
        return None

    def edges(s, b, bbi, t):
        """`match subject { None => .. }`: the None edge of a discriminant switch on the subject"""
        return boolpath.none_edge(b, bbi, t, s.is_subject)


def _same_field(root_json, place):
    try:
        return [e for e in json.loads(root_json) if e != "*"][:1] == [e for e in place["p"] if e != "*"][:1]
    except Exception:
        return False


class MatchSpec(_Spec):
    def evidence_call(s, t):
        return boolpath.A if callee(t) == PM else None


class LiveSpec(_Spec):
    """evidence: the entry is not expired"""
    def evidence_call(s, t):
        return boolpath.N if callee(t).endswith("::is_expired") else None


class TypeSpec(_Spec):
    """evidence: the entry's type name equals the TYPE filter, or no TYPE filter was given"""
    def evidence_call(s, t):
        f = t["f"] or ""
        if re.search(r"(^<&?str as std::cmp::PartialEq.*>::|str as std::cmp::PartialEq.*>::)(eq|ne)$", f):
            return boolpath.A if f.endswith("::eq") else boolpath.N
        return None


def _chain_filters(b, o, depth=0):
    """closures handed to filter-type adaptors in the iterator chain that produces operand o"""
    out = []
    if op_is_const(o) or depth > 12:
        return out
    for kind, bbi, x in prov.build_defs(b).get(op_place(o)["l"], ()):
        if kind == "call" and x["a"]:
            if FILTERING.search(x["f"] or "") and x.get("clos"):
                out.append(x["clos"][-1])
            if re.search(r"Iterator>::|IntoIterator>::into_iter|::iter$|::keys$|::values$", x["f"] or ""):
                out += _chain_filters(b, x["a"][0], depth + 1)
        elif kind == "stmt" and x["r"]["k"] == "use" and not x["l"]["p"]:
            out += _chain_filters(b, x["r"]["o"], depth + 1)
    return out


def _bulk_sources(b, roots):
    """calls that fill one of the `roots` collections from an iterator (collect / extend / to_vec):
       [(block, terminator, filter closures of the chain)]"""
    out = []
    for i, t in b.calls():
        f = t["f"] or ""
        if not ITER_SRC.search(f) or not t["a"]:
            continue
        if "::extend::<" in f:
            tgt = rules_rdb.root_locals(b, t["a"][0]); src = t["a"][1] if len(t["a"]) > 1 else None
        else:
            tgt = {t["d"]["l"]} | _flows_to(b, t["d"]["l"]); src = t["a"][0]
        if tgt & roots and src is not None:
            out.append((i, t, _chain_filters(b, src)))
    return out


def _flows_to(b, l, depth=0):
    """locals that receive the value of l by plain moves/copies"""
    out = set()
    if depth > 6:
        return out
    for bb in b.bbs:
        for st in bb["s"]:
            if st["k"] == "=" and st["r"]["k"] == "use" and not op_is_const(st["r"]["o"]) and not st["l"]["p"]:
                pl = op_place(st["r"]["o"])
                if pl["l"] == l and not pl["p"] and st["l"]["l"] not in out:
                    out.add(st["l"]["l"]); out |= _flows_to(b, st["l"]["l"], depth + 1)
    return out


def _param_of_type(b, rx):
    return {i for i in range(1, b.nargs + 1) if re.search(rx, b.locals[i])}


def rule_filter(ctx, R):
    n = 0
    memo = {}
    for nm in FNS:
        b = ctx.prog.need(ENGINE + nm)
        items, _ = result_roots(b)
        pat = _param_of_type(b, r"^std::option::Option<&\[u8\]>$")
        if not pat:
            raise AnchorMissing("%s has no `Option<&[u8]>` pattern parameter" % nm)
        spec = MatchSpec(ctx.prog, b, pat, (), memo)
        try:
            ex = boolpath.explore(b, spec)
        except boolpath.TooManyStates as e:
            raise AnchorMissing(str(e))
        pushes = [(i, t) for i, t in b.calls() if PUSH.match(t["f"] or "")]
        ret_pushes = [(i, t) for i, t in pushes if rules_rdb.root_locals(b, t["a"][0]) & items]
        bulk = _bulk_sources(b, items)
        if not ret_pushes and not bulk:
            R.finding(b.fn, "filter:no-result-push", "%s returns nothing it collected" % nm, b.loc())
        # where each returned collection is returned: a collection that is handed out only under
        # `no pattern` needs no per-element filter
        ret_sites = {}
        for x, bb in enumerate(b.bbs):
            for st in bb["s"]:
                if st["k"] == "=" and st["r"]["k"] == "agg" and st["r"]["a"] == "tuple" and len(st["r"]["o"]) == 2 and b.locals[st["l"]["l"]].startswith("(u64, std::vec::Vec<") and not op_is_const(st["r"]["o"][1]):
                    for l in rules_rdb.root_locals(b, st["r"]["o"][1]):
                        ret_sites.setdefault(l, []).append(x)

        def returned_only_under_evidence(roots, frm):
            sites = [x for l in roots for x in ret_sites.get(l, []) if x in cfg.fwd(b, [frm])]
            return bool(sites) and all(x not in ex.reached for x in sites)
        k = 0
        for i, t in ret_pushes:
            n += 1
            ok = i not in ex.reached or returned_only_under_evidence(rules_rdb.root_locals(b, t["a"][0]) & items, i)
            R.inst(b.fn, "push#%d" % k, {"function": nm, "at": b.loc(i), "only_under_match_or_no_pattern": ok})
            if not ok:
                R.finding(b.fn, "push#%d:unfiltered" % k,
                          "%s adds an element to its result (line %d) on a path that is neither under a successful MATCH test nor under `no pattern given`: elements not satisfying the filter are returned" % (nm, b.bb_line(i)), b.loc(i),
                          ["bb%d line %d" % (x, b.bb_line(x)) for x in ex.witness(b, i)][-12:])
            k += 1
        k = 0
        for i, t, filters in bulk:
            n += 1
            tgt = (rules_rdb.root_locals(b, t["a"][0]) if "::extend::<" in (t["f"] or "") else ({t["d"]["l"]} | _flows_to(b, t["d"]["l"]))) & items
            ok = i not in ex.reached or any(spec.closure_kind(c) == boolpath.A for c in filters) or returned_only_under_evidence(tgt, i)
            R.inst(b.fn, "bulk#%d" % k, {"function": nm, "at": b.loc(i), "only_under_match_or_no_pattern": ok})
            if not ok:
                R.finding(b.fn, "bulk#%d:unfiltered" % k,
                          "%s fills its result from an iterator (line %d) on a path that is neither under `no pattern given` nor filtered by the MATCH test: elements not satisfying the filter are returned" % (nm, b.bb_line(i)), b.loc(i))
            k += 1
    R.floor("result_pushes", n)
    # key-space scan: expired keys and keys of another TYPE never enter the candidate list
    b = ctx.prog.need(ENGINE + "scan")
    items = result_roots(b)[0]
    tyf = _param_of_type(b, r"^std::option::Option<&str>$")
    if not tyf:
        raise AnchorMissing("scan has no `Option<&str>` TYPE parameter")
    live = LiveSpec(ctx.prog, b, (), (), memo); ty = TypeSpec(ctx.prog, b, tyf, (), memo)
    try:
        exl = boolpath.explore(b, live); ext = boolpath.explore(b, ty)
    except boolpath.TooManyStates as e:
        raise AnchorMissing(str(e))
    cand_ty = lambda l: b.locals[l] in ("std::vec::Vec<std::vec::Vec<u8>>", "&mut std::vec::Vec<std::vec::Vec<u8>>")
    cand = [(i, t, None) for i, t in b.calls() if PUSH.match(t["f"] or "") and not (rules_rdb.root_locals(b, t["a"][0]) & items)]
    allvecs = {l for l in range(len(b.locals)) if cand_ty(l)} - items
    cand += [(i, t, fl) for i, t, fl in _bulk_sources(b, allvecs) if _from_shard_map(b, t)]
    R.floor("candidate_pushes", len(cand))
    for i, t, filters in cand:
        if filters is None:
            bad_exp = i in exl.reached; bad_ty = i in ext.reached
        else:
            bad_exp = i in exl.reached and not any(live.closure_kind(c) == boolpath.A for c in filters)
            bad_ty = i in ext.reached and not any(ty.closure_kind(c) == boolpath.A for c in filters)
        R.inst(b.fn, "candidate-push", {"at": b.loc(i), "reachable_without_liveness_test": bad_exp, "reachable_without_type_test": bad_ty})
        if bad_exp:
            R.finding(b.fn, "candidate:expired-included", "SCAN collects a key although its is_expired() test was true (or there is no such test)", b.loc(i))
        if bad_ty:
            R.finding(b.fn, "candidate:type-mismatch-included", "SCAN collects a key whose type differs from the TYPE filter (or the filter is not tested)", b.loc(i))


def _from_shard_map(b, t):
    """does the iterator feeding this collect/extend walk the shard map?"""
    src = t["a"][1] if "::extend::<" in (t["f"] or "") and len(t["a"]) > 1 else t["a"][0]
    return "StoredValue" in (t["f"] or "") or "StoredValue" in b.locals[op_place(src)["l"]] if not op_is_const(src) else False


def rule_cursor(ctx, R):
    """necessary condition of completeness under deletions: the continuation cursor is not a
    position in a list rebuilt from the live collection on every call"""
    for nm in FNS:
        b = ctx.prog.need(ENGINE + nm)
        items, cursors = result_roots(b)
        cur_locals = {c for c in cursors if not isinstance(c, tuple)}
        hit = None
        for i, t in b.calls():
            f_ = t["f"] or ""
            # positional access by a cursor-derived position: element index, a sub-slice starting
            # there (`list[pos..end]`), or an iterator advanced to it (`.skip(pos)`)
            site = None
            if re.search(r"<std::vec::Vec<.*> as std::ops::Index<(usize|std::ops::Range<usize>|std::ops::RangeFrom<usize>|std::ops::RangeInclusive<usize>)>>::index$", f_) and len(t["a"]) == 2:
                site = (t["a"][0], t["a"][1])
            elif re.search(r"Iterator>::(skip|nth)$", f_) and len(t["a"]) == 2:
                site = (t["a"][0], t["a"][1])
            if site is not None:
                idx_roots = rules_rdb.root_locals(b, site[1]) if not op_is_const(site[1]) else set()
                if not (idx_roots & cur_locals) and not op_is_const(site[1]):
                    # a range / position built from the cursor position (`start..end`)
                    Pq = prov.operand_origins(b, site[1], deep=True)
                    idx_roots = {l for l in cur_locals if not isinstance(l, tuple) and any(r[0] == "agg" for r in Pq.roots) and l in _agg_operand_roots(b, Pq)}
                if not (idx_roots & cur_locals):
                    continue
                P = prov.operand_origins(b, t["a"][0])
                built_here = any(r[0] == "call" and re.search(r"Vec::<.*>::(new|with_capacity)$|Iterator>::collect::<std::vec::Vec<", r[1]) for r in P.roots) and not (P.params() - {1})
                if built_here:
                    hit = i
        R.inst(b.fn, "cursor-kind", {"function": nm, "positional_cursor_into_rebuilt_list": hit is not None})
        if hit is not None:
            R.finding(b.fn, "cursor:position-in-rebuilt-list",
                      "%s's cursor is an index into a list that is rebuilt (and sorted) from the live collection on every call: deleting an element that sorts before the cursor shifts all later elements down by one, and an element present throughout the iteration is skipped (keys a,b,c COUNT 1: call 1 -> a, cursor 1; DEL a; call 2 indexes [b,c][1] = c; b is never returned)" % nm.upper(), b.loc(hit))


def zero_cursor_without_exhaustion(b):
    """[(block, witness)] stores of the constant 0 into a u64 local (the next cursor) from which a
    return is reachable without another store to that local and without an exhaustion test --
    a comparison between a position (usize) and the `len()` of a collection, in the sense
    `position >= len` (or `is_empty()`); path-sensitive (flags, `||`, early returns)."""
    import boolpath
    out = []

    def is_len(o):
        return not op_is_const(o) and prov.operand_origins(b, o).has_call(r"::len$")

    def copies_back(l, depth=0):
        """locals l is a plain copy / cast of (transitively)"""
        out_ = {l}
        for kind, bbi, x in prov.build_defs(b).get(l, ()):
            if kind == "stmt" and not x["l"]["p"] and x["r"]["k"] in ("use", "cast") and not op_is_const(x["r"]["o"]) and depth < 6:
                pl = op_place(x["r"]["o"])
                if not [e for e in pl["p"] if e != "*" and not (isinstance(e, dict) and str(e.get("f")) == "0")]:
                    out_ |= copies_back(pl["l"], depth + 1)
        return out_
    # the position: what the non-zero value of the cursor is a cast of
    pos = set()
    for i, bb in enumerate(b.bbs):
        for st in bb["s"]:
            if st["k"] == "=" and not st["l"]["p"] and b.locals[st["l"]["l"]] == "u64" and st["r"]["k"] in ("use", "cast") and not op_is_const(st["r"]["o"]):
                for l in copies_back(op_place(st["r"]["o"])["l"]):
                    if b.locals[l] == "usize" and b.names.get(l):
                        pos.add(l)

    def is_pos(o):
        return not op_is_const(o) and bool(copies_back(op_place(o)["l"]) & pos)

    class X(boolpath.Spec):
        def stmt(self, b_, bbi, st):
            r = st["r"]
            if r["k"] != "bin" or r.get("op") not in ("Ge", "Gt", "Lt", "Le", "Eq", "Ne"):
                return None
            a, c = r["a"], r["b"]
            op = r["op"]
            if is_len(a) and not is_len(c):
                a, c = c, a
                op = {"Ge": "Le", "Gt": "Lt", "Lt": "Gt", "Le": "Ge"}.get(op, op)
            elif not (is_len(c) and not is_len(a)):
                return None
            if op_is_const(a):
                # `len == 0` / `len > 0`
                return {"Eq": boolpath.A, "Ne": boolpath.N, "Ge": boolpath.A, "Lt": boolpath.N}.get(op) if const_int(a) == 0 else None
            # position OP len
            if not is_pos(a):
                return None
            return {"Ge": boolpath.A, "Gt": boolpath.A, "Eq": boolpath.A, "Lt": boolpath.N, "Le": None, "Ne": boolpath.N}.get(op)

        def call(self, b_, bbi, t):
            return boolpath.A if re.search(r"::is_empty$", t["f"] or "") else None
    stores = {}
    for i, bb in enumerate(b.bbs):
        if bb["cleanup"]:
            continue
        for st in bb["s"]:
            if st["k"] == "=" and not st["l"]["p"] and b.locals[st["l"]["l"]] == "u64" and st["r"]["k"] in ("use", "cast"):
                stores.setdefault(st["l"]["l"], []).append((i, const_int(st["r"]["o"]) == 0 if op_is_const(st["r"]["o"]) else False))
    rets = {x for x, bb in enumerate(b.bbs) if bb["t"]["k"] == "return"}
    try:
        ex0 = boolpath.explore(b, X())
    except boolpath.TooManyStates:
        return out
    for l, ss in stores.items():
        zeros = [i for i, z in ss if z]
        others = {i for i, z in ss if not z}
        if not zeros or not others:
            continue       # not a cursor chosen between 0 and a position
        for z in zeros:
            if z not in ex0.reached:
                continue
            # evidence-free arrival at the store: can a return be reached from it without passing
            # another store to the same local?  (state at arrival: the flags known there)
            key = ex0.reached[z]
            ex = boolpath.explore(b, X(), starts=(z,), init=dict(key[1]), stop=others - {z})
            hit = sorted(rets & set(ex.reached))
            if hit:
                out.append((z, ex0.witness(b, z)))
    return out


def rule_term(ctx, R):
    for nm in FNS:
        b = ctx.prog.need(ENGINE + nm)
        # `pos >= len` comparison whose true edge stores/returns cursor 0
        ok = False
        for i, bb in enumerate(b.bbs):
            for st in bb["s"]:
                if st["k"] == "=" and st["r"]["k"] == "bin" and st["r"]["op"] in ("Ge", "Gt", "Lt", "Le"):
                    t = bb["t"]
                    if t["k"] != "switch" or op_local(t["d"]) != st["l"]["l"]:
                        continue
                    for tgt in set(b.succs(i)):
                        reg = cfg.edge_dom_set(b, i, tgt)
                        for x in reg:
                            for s2 in b.stmts(x):
                                if s2["k"] == "=" and b.locals[s2["l"]["l"]] == "u64" and s2["r"]["k"] == "use" and const_int(s2["r"]["o"]) == 0 and not s2["l"]["p"]:
                                    ok = True
        # position only increases: every assignment to the cursor's position variable is +const
        items, cursors = result_roots(b)
        mono = True
        for l in [c for c in cursors if not isinstance(c, tuple)]:
            if b.names.get(l) is None or b.locals[l] != "usize":
                continue
            for kind, bbi, x in prov.build_defs(b).get(l, ()):
                if kind == "stmt" and not x["l"]["p"]:
                    r = x["r"]
                    if r["k"] == "use" and not op_is_const(r["o"]):
                        src = op_place(r["o"])
                        # `(_t.0)` of AddWithOverflow(pos, 1) or a start value
                        continue
                    if r["k"] == "bin" and r["op"] in ("Sub", "SubWithOverflow"):
                        mono = False
        early = zero_cursor_without_exhaustion(b)
        if early:
            ok = True      # a zero cursor is produced; whether only at the end is the clause below
        R.inst(b.fn, "termination", {"function": nm, "zero_cursor_at_end": ok, "position_monotone": mono, "zero_cursor_only_when_exhausted": not early})
        if not ok:
            R.finding(b.fn, "term:no-zero-cursor", "%s never returns cursor 0 on reaching the end of the collection: a full iteration does not terminate" % nm, b.loc())
        for (x, path) in early[:1]:
            R.finding(b.fn, "term:zero-cursor-before-the-end",
                      "%s can answer cursor 0 (stored at line %d) on a path with no test that its position has reached the length of the collection: the client takes the iteration for complete while elements behind the position were never returned" % (nm, b.bb_line(x)),
                      b.loc(x), ["bb%d line %d" % (y, b.bb_line(y)) for y in path][-8:])
        if not mono:
            R.finding(b.fn, "term:position-decreases", "%s can move its position backwards" % nm, b.loc())



SORT = re.compile(r"^(?:core|std|alloc)::slice::<impl \[.*\]>::(sort|sort_unstable|sort_by|sort_by_key|sort_unstable_by|sort_unstable_by_key|sort_by_cached_key)(::<.*>)?$")


def rule_order(ctx, R):
    """a positional cursor only means something against one fixed order: every indexing of the
    rebuilt list by a cursor-derived position is dominated by a sort of that very list (hash-map
    iteration order differs from call to call), or happens only when the cursor is 0"""
    n = 0
    for nm in FNS:
        b = ctx.prog.need(ENGINE + nm)
        items, cursors = result_roots(b)
        cur_locals = {c for c in cursors if not isinstance(c, tuple)}
        sorts = []
        for i, t in b.calls():
            if SORT.match(t["f"] or "") and t["a"] and not op_is_const(t["a"][0]):
                sorts.append((i, rules_rdb.root_locals(b, t["a"][0]) | _deref_roots(b, t["a"][0])))
        # cursor == 0 regions
        zero_reg = set()
        for x, bb in enumerate(b.bbs):
            for st in bb["s"]:
                if st["k"] == "=" and st["r"]["k"] == "bin" and st["r"]["op"] in ("Eq", "Ne"):
                    a, c = st["r"]["a"], st["r"]["b"]
                    for u, v in ((a, c), (c, a)):
                        if not op_is_const(u) and op_is_const(v) and const_int(v) == 0 and b.locals[op_place(u)["l"]] == "u64" and (prov.operand_origins(b, u).params()):
                            t = bb["t"]
                            if t["k"] == "switch" and op_local(t["d"]) == st["l"]["l"]:
                                ts = dict(t["ts"])
                                tgt = t["o"] if st["r"]["op"] == "Eq" else ts.get(0)
                                if tgt is not None:
                                    zero_reg |= cfg.edge_dom_set(b, x, tgt)
        for i, t in b.calls():
            f_ = t["f"] or ""
            site = None
            if re.search(r"<std::vec::Vec<.*> as std::ops::Index<(usize|std::ops::Range<usize>|std::ops::RangeFrom<usize>|std::ops::RangeInclusive<usize>)>>::index$", f_) and len(t["a"]) == 2:
                site = (t["a"][0], t["a"][1])
            elif re.search(r"Iterator>::(skip|nth)$", f_) and len(t["a"]) == 2:
                site = (t["a"][0], t["a"][1])
            if site is not None:
                idx_roots = rules_rdb.root_locals(b, site[1]) if not op_is_const(site[1]) else set()
                if not (idx_roots & cur_locals) and not op_is_const(site[1]):
                    Pq = prov.operand_origins(b, site[1], deep=True)
                    idx_roots = {l for l in cur_locals if not isinstance(l, tuple) and any(r[0] == "agg" for r in Pq.roots) and l in _agg_operand_roots(b, Pq)}
                if not (idx_roots & cur_locals):
                    continue
                n += 1
                lroots = rules_rdb.root_locals(b, site[0]) | _deref_roots(b, site[0])
                if re.search(r"Iterator>::(skip|nth)$", f_):
                    # the list behind the iterator chain
                    Pl = prov.operand_origins(b, site[0], deep=True)
                    for r_ in Pl.roots:
                        if r_[0] == "call":
                            tt_ = b.term(r_[2])
                            for a_ in tt_["a"][:1]:
                                if not op_is_const(a_):
                                    lroots |= rules_rdb.root_locals(b, a_) | _deref_roots(b, a_)
                sorted_dom = any(cfg.dominates(b, si, i) and (sr & lroots) for si, sr in sorts)
                in_zero = i in zero_reg
                R.inst(b.fn, "cursor-index", {"function": nm, "at": b.loc(i), "list_sorted_on_every_path": sorted_dom, "only_when_cursor_is_zero": in_zero})
                if not sorted_dom and not in_zero:
                    R.finding(b.fn, "cursor-index:list-not-sorted-on-every-path",
                              "%s indexes the list it rebuilt from the live collection with a position derived from the client's cursor (line %d) on a path where that list has not been sorted: the cursor was a position in a differently ordered list, so elements are returned twice or never" % (nm.upper(), b.bb_line(i)), b.loc(i))
    R.floor("cursor_index_sites", n)


def _agg_operand_roots(b, P):
    """root locals of the operands of the aggregates (Range { start, end }) on a provenance"""
    out = set()
    for r in P.roots:
        if r[0] == "agg":
            for st in b.stmts(r[2]):
                if st["k"] == "=" and st["r"]["k"] == "agg" and st["r"]["a"] == r[1]:
                    for o in st["r"]["o"]:
                        if not op_is_const(o):
                            out |= rules_rdb.root_locals(b, o)
    return out


def _deref_roots(b, o):
    """named locals behind &list / &*list / deref(&list)"""
    P = prov.operand_origins(b, o)
    out = set()
    for r in P.roots:
        if r[0] == "call":
            out.add(("call", r[2]))
    return out
