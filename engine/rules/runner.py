"""Check runner: evaluates the rules registered for one property over freshly extracted facts,
applies the known-findings file (exact keys), writes evidence, prints VIOLATION lines."""
import json, os, sys, time, traceback

sys.path.insert(0, os.path.dirname(os.path.abspath(__file__)))
import extract
from extract import Broken, VERIF
from facts import load_program, AnchorMissing
from callgraph import CallGraph

EVID = os.path.join(VERIF, "evidence")
KNOWN = os.path.join(VERIF, "known_findings.jsonl")
FLOORS = os.path.join(VERIF, "floors.json")


class Finding:
    def __init__(s, rule, fn, desc, msg, loc="", witness=None):
        s.rule = rule; s.fn = fn; s.desc = desc; s.msg = msg; s.loc = loc; s.witness = witness or []

    @property
    def key(s):
        return "%s|%s|%s" % (s.rule, s.fn, s.desc)

    def to_json(s):
        return {"key": s.key, "rule": s.rule, "function": s.fn, "construct": s.desc,
                "message": s.msg, "location": s.loc, "witness": s.witness}


class Report:
    """what one rule analysed and found"""

    def __init__(s, rule_id, text, floors, record):
        s.rule = rule_id; s.text = text
        s.evaluations = 0
        s.instances = set()       # distinct non-trivial (function, construct) pairs decided
        s.samples = []
        s.findings = []
        s.notes = []
        s._floors = floors; s._record = record
        s.ctx = None
        s.floor_counts = {}
        s.broken = []

    def inst(s, fn, construct, sample=None, n=1):
        """one decided rule instance on (function, construct)"""
        s.evaluations += n
        k = (fn, construct)
        if k not in s.instances:
            s.instances.add(k)
            if sample is not None and len(s.samples) < 6:
                s.samples.append(sample)

    def trivial(s, n=1):
        """instances looked at on which the rule had nothing to decide"""
        s.evaluations += n

    def finding(s, fn, desc, msg, loc="", witness=None):
        s.findings.append(Finding(s.rule, s.stable_fn(fn), desc, msg, loc, witness))

    def stable_fn(s, fn):
        """closures are named after their enclosing function only: ordinals ({closure#3}) change
        when an unrelated closure is added before them, and a description by content changes when
        a helper is extracted from or inlined into the closure"""
        if "{closure#" not in fn:
            return fn
        b = s.ctx.prog.bodies.get(fn) if s.ctx is not None else None
        encl = b.encl if b is not None and b.encl else fn.split("::{closure#")[0]
        encl = encl.split("::{closure#")[0]
        return "%s::{closure}" % encl

    def note(s, text):
        s.notes.append(text)

    def floor(s, name, count):
        """fail closed when a rule loses its anchors.  The recorded number is what was counted on
        the tree the rule was confirmed on; the purpose is to notice a rule that went (nearly)
        vacuous -- a renamed anchor, a changed MIR shape -- not to freeze the code: a rewrite of
        one function legitimately moves a count by a few.  So the check breaks when the count
        falls below a third of the recorded one (and always when it reaches zero)."""
        s.floor_counts[name] = count
        key = s.rule + "." + name
        if s._record is not None:
            s._record[key] = count
            return
        want = s._floors.get(key)
        if want is None:
            s.broken.append("no floor recorded for %s (count now %d)" % (key, count))
        elif count < max(1 if want > 0 else 0, (want + 2) // 3):
            s.broken.append("instance count below floor: %s = %d < a third of %d" % (key, count, want))


class Ctx:
    def __init__(s, tier, variant="dev", target="bin"):
        s.tier = tier
        s.variant = variant
        s.dir = extract.ensure_facts(variant)
        name = {"bin": "ferrous.bin.jsonl", "lib": "ferrous.lib.jsonl", "lua_cli": "lua_cli.bin.jsonl"}[target]
        s.prog = load_program(os.path.join(s.dir, name))
        s.cg = CallGraph(s.prog)
        s.cache = {}
        s.target = target

    def memo(s, key, fn):
        if key not in s.cache:
            s.cache[key] = fn()
        return s.cache[key]

    def ncalls(s):
        return sum(1 for b in s.prog.bodies.values() for _ in b.calls())


def load_known():
    known = {}; fixed = {}
    if os.path.exists(KNOWN):
        for l in open(KNOWN):
            l = l.strip()
            if not l or l.startswith("#"):
                continue
            d = json.loads(l)
            if d.get("status") == "known":
                known[(d["property"], d["key"])] = d
            elif d.get("status") == "fixed":
                fixed[(d["property"], d["key"])] = d
    return known, fixed


def load_floors():
    if os.path.exists(FLOORS):
        return json.load(open(FLOORS))
    return {}


def run_property(pid, tier, rules, seed=0, record_floors=False, replay_key=None, quiet=False,
                 variant="dev", target="bin", write_evidence=True, ctx=None):
    """rules: list of (rule_id, text, function(ctx, report)). Returns exit code."""
    t0 = time.time()
    floors_all = load_floors()
    floors = floors_all.get(pid, {})
    record = {} if record_floors else None
    known, fixed = load_known()
    out = []
    def say(x):
        out.append(x)
        if not quiet:
            print(x)
    try:
        if ctx is None:
            ctx = Ctx(tier, variant, target)
        reports = []
        for rid, text, fn in rules:
            r = Report(rid, text, floors, record)
            r.ctx = ctx
            try:
                fn(ctx, r)
            except AnchorMissing as e:
                r.broken.append(str(e))
            except Broken:
                raise
            except Exception as e:
                import traceback
                tb = traceback.extract_tb(e.__traceback__)
                where = "%s:%d" % (os.path.basename(tb[-1].filename), tb[-1].lineno) if tb else "?"
                r.broken.append("rule could not be evaluated on this tree (%s: %s at %s)" % (type(e).__name__, str(e)[:120], where))
            reports.append(r)
    except Broken as e:
        say("CHECK-BROKEN property=%s %s" % (pid, str(e)))
        return 2, None
    broken = [(r.rule, m) for r in reports for m in r.broken]
    if record_floors:
        floors_all[pid] = dict(sorted(record.items()))
        with open(FLOORS, "w") as f:
            json.dump(floors_all, f, indent=1, sort_keys=True)
            f.write("\n")
        say("floors recorded for %s: %s" % (pid, json.dumps(floors_all[pid])))
    viol = []; known_hit = []
    seen_keys = set()
    for r in reports:
        for f in r.findings:
            if f.key in seen_keys:
                continue
            seen_keys.add(f.key)
            if replay_key is not None and f.key != replay_key:
                continue
            if (pid, f.key) in known:
                known_hit.append((f, known[(pid, f.key)]))
            else:
                viol.append(f)
    # stale known entries are listed (not an error: a fix may have landed)
    stale = [k for (p, k) in known if p == pid and k not in seen_keys]
    for f, k in known_hit:
        say("KNOWN-FINDING: property=%s %s [%s] %s" % (pid, k.get("what", f.msg), f.key, f.loc))
    os.makedirs(os.path.join(EVID, "replay"), exist_ok=True)
    # remove old replay files of this property
    for fn_ in os.listdir(os.path.join(EVID, "replay")):
        if fn_.startswith(pid + "-") and replay_key is None:
            try:
                os.remove(os.path.join(EVID, "replay", fn_))
            except OSError:
                pass
    for n, f in enumerate(viol):
        path = os.path.join(EVID, "replay", "%s-%d.json" % (pid, n))
        if replay_key is None:
            with open(path, "w") as fh:
                json.dump(dict(f.to_json(), property=pid), fh, indent=1)
        say("  finding: %s\n    %s\n    at %s" % (f.key, f.msg, f.loc))
        for w in f.witness[:12]:
            say("      | %s" % w)
        say("VIOLATION property=%s replay=%s" % (pid, path))
    for rid, m in broken:
        say("CHECK-BROKEN property=%s rule=%s %s" % (pid, rid, m))
    wall = time.time() - t0
    if write_evidence and replay_key is None:
        evals = sum(r.evaluations for r in reports)
        inst = set()
        for r in reports:
            for k in r.instances:
                inst.add((r.rule,) + k)
        samples = []
        for r in reports:
            for sm in r.samples[:3]:
                samples.append({"rule": r.rule, "instance": sm})
        ev = {
            "property_id": pid, "tier": tier, "seed": seed, "level": "other",
            "coverage": {
                "explanation": "static rule checking over rustc MIR of /repo's working tree (resolved callees, CFG "
                               "dominance, dataflow); each rule quantifies over all matching call sites / CFG paths. "
                               "Decides the structural clauses listed under rules, not the full behavioural property.",
                "evaluations": evals,
                "distinct_nontrivial": len(inst),
                "rule": "evaluations = rule instances examined (call sites, table entries, exits, paths); "
                        "distinct_nontrivial = distinct (rule, function, construct) triples on which the rule had "
                        "something to decide (vacuous matches excluded)",
                "samples": samples or [{"note": "no instance"}],
                "exhaustive": True,
                "facts": {"variant": ctx.variant, "target": ctx.target, "bodies": len(ctx.prog.bodies),
                          "call_sites": ctx.ncalls(), "facts_dir": os.path.basename(ctx.dir),
                          "inlined_new_functions": getattr(ctx.prog, "inlined", [])[:40],
                          "renamed_functions_matched_to_recorded_names": [{"recorded": a, "found_as": b_, "callee_similarity": c} for a, b_, c in getattr(ctx.prog, "aliases", [])]},
                "rules": [{"id": r.rule, "text": r.text, "evaluations": r.evaluations,
                           "distinct_nontrivial": len(r.instances), "findings": len(r.findings),
                           "floor_counts": r.floor_counts, "notes": r.notes[:20]} for r in reports],
                "known_findings_hit": [f.key for f, _ in known_hit],
                "known_findings_not_seen": stale,
                "violations": [f.to_json() for f in viol][:50],
                "broken": ["%s: %s" % b for b in broken],
            },
            "assumptions": [
                "rustc MIR construction and Instance::try_resolve are trusted; unresolved callees (<1%) are treated conservatively",
                "rules are necessary conditions of the property: a silent rule establishes the named structural clause on all paths, not the behaviour",
                "std API tables (panicking APIs, sanitisers, mutating receiver types) in engine/rules are trusted",
            ],
            "wall_s": round(wall, 2),
            "violations": len(viol),
        }
        os.makedirs(EVID, exist_ok=True)
        tmp = os.path.join(EVID, "%s.json.tmp%d" % (pid, os.getpid()))
        with open(tmp, "w") as fh:
            json.dump(ev, fh, indent=1)
            fh.write("\n")
        os.replace(tmp, os.path.join(EVID, "%s.json" % pid))
    if not quiet:
        print("%s %s: %d rules, %d evaluations, %d findings (%d known), %d violations, %.1fs" % (
            pid, tier, len(reports), sum(r.evaluations for r in reports),
            sum(len(r.findings) for r in reports), len(known_hit), len(viol), wall))
    # a violation found is reported as such even if another rule could not run (floor/anchor);
    # exit 2 only when nothing but broken rules remains
    if viol:
        return 1, reports
    if broken:
        return 2, reports
    return 0, reports
