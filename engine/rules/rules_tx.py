"""C07 / C08 rules: R-TX-QUEUE, R-TX-ORDER, R-TX-RESET, R-TX-ATOMIC, R-TX-CONN; R-WATCH-W1..W3."""
import re
from facts import callee, op_local, op_place, op_is_const, const_int
import cfg, shared, prov, rules_auth
from shared import SERVER, ENGINE, SHARD_MAP

PF = SERVER + "process_frame"
HE = SERVER + "handle_exec"
TXS = "storage::commands::transactions::TransactionState."
QUEUE_TY = "std::collections::VecDeque<std::vec::Vec<protocol::resp::RespFrame>>"


CONTROL = ("MULTI", "EXEC", "DISCARD", "WATCH")     # the commands Redis never queues (UNWATCH inside MULTI is queued)
QUEUED_FIELD_SUFFIX = "TransactionState.queued_commands"


def queue_functions(ctx):
    """functions that append to a connection's queued_commands"""
    def compute():
        out = set()
        for fn, b in ctx.prog.bodies.items():
            if "::tests::" in fn:
                continue
            for i, t in b.calls():
                if re.search(r"VecDeque::<.*>::push_back$", t["f"] or "") and t["a"] and not op_is_const(t["a"][0]):
                    if any(f_.endswith(QUEUED_FIELD_SUFFIX) for f_ in prov.operand_origins(b, t["a"][0]).fields):
                        out.add(fn)
        return out
    return ctx.memo("queue_functions", compute)


def not_in_tx_region(ctx, b, reads):
    """blocks that run only when the connection is NOT in a transaction: behind the false edge of a
    bool switch on the in_transaction flag read from the connection (`"UNWATCH" if !in_transaction`)"""
    out = set()
    for x, bb in enumerate(b.bbs):
        t = bb["t"]
        if t["k"] != "switch" or op_is_const(t["d"]):
            continue
        pl = op_place(t["d"])
        if pl["p"] or b.locals[pl["l"]] != "bool":
            continue
        neg = False; l = pl["l"]
        # through `!flag`
        for st in bb["s"]:
            if st["k"] == "=" and st["l"]["l"] == l and not st["l"]["p"] and st["r"]["k"] == "un" and st["r"].get("op") == "Not" and not op_is_const(st["r"]["o"]):
                l = op_place(st["r"]["o"])["l"]; neg = True
        P = prov.origins(b, l, deep=True)
        from_state = any(r[0] == "call" and r[2] in reads for r in P.roots) or b.names.get(l) == "in_transaction"
        if not from_state or P.has_call(r"should_queue|is_control"):
            continue
        zero = dict(t["ts"]).get(0)
        tgt = (t["o"] if neg else zero)
        if neg and zero is not None and t["o"] == zero:
            continue
        if tgt is not None:
            out |= cfg.edge_dom_set(b, x, tgt)
    return out


def _only_via_names(b, tests, names, site):
    """is `site` reachable from the entry only through the true edge of a comparison of the
    command name with one of `names`?"""
    cut = {(t["sw"], t["true"]) for t in tests if t["name"] in names}
    if not cut:
        return False
    seen = set(); st = [0]
    while st:
        x = st.pop()
        if x in seen:
            continue
        seen.add(x)
        if x == site:
            return False
        for y in b.succs(x):
            if (x, y) in cut:
                continue
            st.append(y)
    return True


def _uses_in_tx_flag(ctx, b, reads, site):
    """a bool derived from the connection's in_transaction flag decides a branch on the way to site"""
    for x, bb in enumerate(b.bbs):
        t = bb["t"]
        if t["k"] != "switch" or op_is_const(t["d"]) or not cfg.dominates(b, x, site):
            continue
        pl = op_place(t["d"])
        if pl["p"] or b.locals[pl["l"]] != "bool":
            continue
        P = prov.origins(b, pl["l"], deep=True)
        if any(r[0] == "call" and r[2] in reads for r in P.roots) or b.names.get(pl["l"]) == "in_transaction":
            return True
    return False


def queue_decision(ctx, b):
    """where process_frame decides `queue it`: (queue site block, [decision switch blocks, outermost
    first], successor of the innermost decision that leads to the queue site).  The decision is
    found by data, not by name: a bool switch that dominates the queue site, has a successor
    that cannot reach it, and whose condition derives from the connection's in_transaction flag
    or from a bool-returning call on the command name (should_queue_command / is_control_command,
    either sense)."""
    qf = queue_functions(ctx)
    qs = [i for i, t in b.calls() if (ctx.cg.reach([callee(t)] + list(t.get("clos") or [])) & qf) or callee(t) in qf]
    if not qs:
        return None
    q = qs[0]
    can = cfg.bwd(b, [q])
    # the state read: a with_connection whose closure reads in_transaction
    def reads_flag(cb):
        for bb in cb.bbs:
            for st in bb["s"]:
                if st["k"] == "=" and st["r"]["k"] in ("use", "ref"):
                    pl = op_place(st["r"]["o"]) if st["r"]["k"] == "use" else st["r"]["p"]
                    if pl and any(isinstance(e, dict) and str(e.get("f", "")).endswith("TransactionState.in_transaction") for e in pl["p"]):
                        return True
            t = bb["t"]
            if t["k"] == "switch" and not op_is_const(t["d"]) and any(isinstance(e, dict) and str(e.get("f", "")).endswith("TransactionState.in_transaction") for e in op_place(t["d"])["p"]):
                return True
        return False
    reads = [i for i, t in b.calls() if any(ctx.prog.bodies.get(c) is not None and reads_flag(ctx.prog.bodies[c]) for c in (t.get("clos") or [])) and cfg.dominates(b, i, q)]
    tests = {t["sw"] for t in shared.str_tests(b)}
    ds = []
    for x, bb in enumerate(b.bbs):
        t = bb["t"]
        if t["k"] != "switch" or x in tests or op_is_const(t["d"]) or not cfg.dominates(b, x, q) or x == q:
            continue
        pl = op_place(t["d"])
        if pl["p"] or b.locals[pl["l"]] != "bool":
            continue
        succ = set(b.succs(x))
        if not (succ - can) or not (succ & can):
            continue
        P = prov.origins(b, pl["l"], deep=True)
        from_state = any(r[0] == "call" and r[2] in reads for r in P.roots) or b.names.get(pl["l"]) == "in_transaction" or \
            any(b.names.get(op_local(st["r"]["o"])) == "in_transaction" for st in bb["s"] if st["k"] == "=" and st["l"]["l"] == pl["l"] and st["r"]["k"] == "use" and not op_is_const(st["r"]["o"]))
        from_class = any(r[0] == "call" and r[1].startswith("storage::commands::transactions::") and ctx.prog.bodies.get(callee(b.term(r[2]))) is not None and ctx.prog.bodies[callee(b.term(r[2]))].locals[0] == "bool" for r in P.roots)
        if from_state or from_class:
            ds.append(x)
    if not ds:
        return None
    order = sorted(ds, key=lambda x: sum(1 for y in ds if cfg.dominates(b, y, x)))
    inner = order[-1]
    lead = [y for y in b.succs(inner) if y in can]
    return q, order, (lead[0] if lead else None), reads


def rule_queue(ctx, R):
    b = ctx.prog.need(PF)
    qd = queue_decision(ctx, b)
    if qd is None:
        R.inst(PF, "queue-test"); R.finding(PF, "queue-test:missing", "no in_transaction / command-class decision guarding a queue step found in process_frame", b.loc()); return
    qi, decisions, queued_t, _reads = qd
    notx = not_in_tx_region(ctx, b, set(_reads or ()))
    sw = (decisions[-1], b.term(decisions[-1]))
    if queued_t is None:
        R.broken.append("queued edge of the queue decision not found"); return
    queued = cfg.fwd(b, [queued_t])
    tests = shared.str_tests(b)
    ctrl = set(CONTROL)
    R.floor("control_commands", len(ctrl))
    ctrl_region = set()
    for n in ctrl:
        ctrl_region |= shared.arm_region(b, tests, n)
    # auth refuse region is not part of the transaction question
    try:
        refuse = rules_auth.gate_regions(ctx, b)[2]
    except Exception:
        refuse = set()
    cache = {}
    n = 0
    names_by_block = {}
    for nm_ in sorted({t["name"] for t in tests}):
        for x in shared.arm_region(b, tests, nm_):
            names_by_block.setdefault(x, set()).add(nm_)
    for i, t in b.calls():
        if i == qi or not rules_auth.is_priv_site(ctx, t, cache):
            continue
        if i in ctrl_region or i in refuse or i in notx:
            continue
        cal = callee(t)
        short = shared.site_name(ctx, t)
        if cal == ENGINE + "nothing":
            continue
        n += 1
        # after the decision: dominated by (the outermost switch of) the queue decision
        dom = any(cfg.dominates(b, d_, i) for d_ in decisions)
        cmds = sorted(names_by_block.get(i, ()))
        R.inst(PF, "effect:" + short, {"call": short, "at": b.loc(i), "dominated_by_queue_test": dom, "commands": cmds[:4]})
        if i in queued and cal != "network::server::ShardedConnections::with_connection":
            R.finding(PF, "effect:%s:on-queued-edge" % short, "%s is executed on the edge where the command was queued" % short, b.loc(i))
        elif not dom and not cmds and _only_via_names(b, tests, ctrl | {"UNWATCH"}, i) and _uses_in_tx_flag(ctx, b, set(_reads or ()), i):
            # an arm shared by the never-queued commands and UNWATCH, guarded by a flag computed from
            # in_transaction and a second comparison of the command name: the rule cannot tell which
            # command passes the guard in which state -- undecided, not a finding
            R.broken.append("%s (line %d) sits in an arm shared by the transaction-control commands behind a guard that mixes in_transaction with another comparison of the command name: the rule cannot decide whether UNWATCH is queued inside MULTI there" % (short, b.bb_line(i)))
        elif not dom:
            # keyed by the commands of the arm (stable when the arm's body is moved into a helper)
            R.finding(PF, ("immediate-in-multi:%s" % "+".join(cmds[:4])) if cmds else ("effect:%s:before-queue-test" % short),
                      "%s (line %d, commands %s) runs before the in_transaction/should_queue_command test: inside MULTI it takes effect immediately instead of being queued" % (short, b.bb_line(i), cmds[:3]), b.loc(i))
    R.floor("effect_sites_in_process_frame", n)
    # the queued edge must only queue: it reaches queue_command and no other privileged call
    qc = [x for x in queued if b.term(x)["k"] == "call" and (ctx.cg.reach([callee(b.term(x))] + list(b.term(x)["clos"])) & queue_functions(ctx))]
    R.inst(PF, "queued-edge", {"reaches_queue_command": bool(qc)})
    if not qc:
        R.finding(PF, "queued-edge:no-queue_command", "the queued edge does not reach queue_command", b.loc(queued_t))


def in_transaction_switch(b, qi):
    """block that switches on the in_transaction flag and dominates the should_queue call"""
    best = None
    for i, bb in enumerate(b.bbs):
        t = bb["t"]
        if t["k"] != "switch":
            continue
        l = op_local(t["d"])
        if l is not None and b.names.get(l) == "in_transaction" or (l is not None and _copy_of_named(b, i, l, "in_transaction")):
            if cfg.dominates(b, i, qi):
                best = i
    return best


def _copy_of_named(b, bbi, l, name):
    for st in b.stmts(bbi):
        if st["k"] == "=" and st["l"]["l"] == l and st["r"]["k"] == "use":
            s = op_local(st["r"]["o"])
            if s is not None and b.names.get(s) == name:
                return True
    return False


def rule_order(ctx, R):
    """the command queue is appended at the back and consumed front to back; EXEC pushes exactly
    one result per queued command, for Ok and for Err, and never leaves the loop early"""
    bad = re.compile(r"::(push_front|pop_back|insert|swap|swap_remove_back|swap_remove_front|rotate_left|rotate_right|make_contiguous|sort|reverse|rev|retain|remove|truncate|split_off|drain)\b")
    n = 0
    for fn, b in ctx.prog.bodies.items():
        if "::tests::" in fn:
            continue
        for i, t in b.calls():
            f = t["f"] or ""
            if "VecDeque::<std::vec::Vec<protocol::resp::RespFrame>>" in f or "VecDeque<std::vec::Vec<protocol::resp::RespFrame>>" in f or \
               "vec_deque::Iter<'_, std::vec::Vec<protocol::resp::RespFrame>>" in f or "vec_deque::IntoIter<std::vec::Vec<protocol::resp::RespFrame>>" in f:
                n += 1
                m = bad.search(re.sub(r"^.*(VecDeque|vec_deque)", "", f))
                R.inst(fn, "queue-op:" + shared.short_callee(f), {"function": fn, "op": shared.short_callee(f), "at": b.loc(i)})
                if m:
                    R.finding(fn, "queue-op:%s" % m.group(1), "the transaction queue is used with %s (line %d): queued commands would not run in the order queued" % (m.group(1), b.bb_line(i)), b.loc(i))
    R.floor("queue_operations", n)
    b = ctx.prog.need(HE)
    # execution loop: loop containing the call to process_command_parts / process_normal_command
    execs = [i for i, t in b.calls() if callee(t) in (SERVER + "process_command_parts", SERVER + "process_normal_command")]
    if not execs:
        # iterator form: the execution call sits in a closure handed to an adaptor
        found = False
        for cfn, cb in ctx.prog.bodies.items():
            if cb.kind != "Closure" or cb.encl != HE:
                continue
            cex = [i for i, t in cb.calls() if callee(t) in (SERVER + "process_command_parts", SERVER + "process_normal_command")]
            if not cex:
                continue
            found = True
            passes_err = cb.ret_ty().startswith("std::result::Result<protocol::resp::RespFrame")
            short_circuit = any(re.search(r"Iterator>::(collect::<std::result::Result<|try_for_each|try_fold|sum::<std::result::Result|product::<std::result::Result)", t["f"] or "") or
                                re.search(r"Iterator>::collect::<std::result::Result<std::vec::Vec<protocol::resp::RespFrame>", t["f"] or "") for _, t in b.calls())
            R.inst(HE, "exec-iterator", {"closure_returns_result": passes_err, "short_circuiting_collect": short_circuit})
            if passes_err and short_circuit:
                R.finding(HE, "exec-loop:early-exit", "EXEC runs the queued commands through a short-circuiting iterator (collect into Result / try_*): the first command that returns Err stops the others and replaces the reply array", b.loc())
            elif passes_err:
                # Err values must be turned into frames somewhere before the reply is built
                conv = any(t["def"].endswith("RespFrame::error") for _, t in b.calls()) or any(t["def"].endswith("RespFrame::error") for _, t in cb.calls())
                if not conv:
                    R.finding(HE, "exec-loop:results-per-command", "an Err from a queued command is never turned into an error reply in its slot", b.loc())
        if not found:
            R.inst(HE, "exec-loop"); R.finding(HE, "exec-loop:missing", "EXEC does not execute the queued commands through the command dispatcher", b.loc())
        return
    lps = cfg.loops(b)
    lp = None
    for h, body in lps.items():
        if all(e in body for e in execs) and (lp is None or len(body) < len(lp[1])):
            lp = (h, body)
    if lp is None:
        R.inst(HE, "exec-loop"); R.finding(HE, "exec-loop:missing", "queued commands are not executed in a loop", b.loc()); return
    head, body = lp
    pushes = {i for i, t in b.calls() if re.match(r"^std::vec::Vec::<protocol::resp::RespFrame>::push$", t["f"] or "") and i in body}
    lo, hi = push_bounds(b, head, body, pushes)
    R.inst(HE, "exec-loop", {"loop_head": b.loc(head), "min_results_per_command": lo, "max_results_per_command": hi})
    if lo != 1 or hi != 1:
        R.finding(HE, "exec-loop:results-per-command", "an iteration of EXEC's loop pushes %s..%s results (must be exactly one, for Ok and for Err)" % (lo, hi), b.loc(head))
    import rules_conn
    for x in sorted(body):
        for y in b.succs(x):
            if y not in body and x != head and b.term(y)["k"] != "unreachable" and not rules_conn.is_iter_exhausted_exit(b, x):
                R.finding(HE, "exec-loop:early-exit", "EXEC's loop can be left before all queued commands ran (line %d): an error in one command stops the others" % b.bb_line(x), b.loc(x))


def push_bounds(b, head, body, pushes):
    inner_back = {(x, y) for (x, y) in cfg.back_edges(b) if x in body and y in body}
    order = [x for x in cfg.rpo(b) if x in body]
    lo = {}; hi = {}
    for x in reversed(order):
        w = 1 if x in pushes else 0
        vl = []; vh = []
        for y in b.succs(x):
            if (x, y) in inner_back:
                if y == head:
                    vl.append(0); vh.append(0)
                continue
            if y in body and lo.get(y) is not None:
                vl.append(lo[y]); vh.append(hi[y])
        if not vl:
            lo[x] = None; hi[x] = None
        else:
            lo[x] = w + min(vl); hi[x] = w + max(vh)
    res_lo = None; res_hi = None
    for s_ in b.succs(head):
        if s_ in body and lo.get(s_) is not None:
            res_lo = lo[s_] if res_lo is None else min(res_lo, lo[s_])
            res_hi = hi[s_] if res_hi is None else max(res_hi, hi[s_])
    return res_lo, res_hi


def reset_events(b):
    """blocks performing the three parts of a transaction reset in body b"""
    store = set(); qclear = set(); wclear = set(); abort = set()
    for i, bb in enumerate(b.bbs):
        for st in bb["s"]:
            if st["k"] == "=":
                fields = [e["f"] for e in st["l"]["p"] if isinstance(e, dict) and "f" in e]
                if fields and fields[-1] == TXS + "in_transaction" and st["r"]["k"] == "use" and op_is_const(st["r"]["o"]) and st["r"]["o"]["c"] == "false":
                    store.add(i)
                if fields and fields[-1] == TXS + "aborted" and st["r"]["k"] == "use" and op_is_const(st["r"]["o"]) and st["r"]["o"]["c"] == "false":
                    abort.add(i)
        t = bb["t"]
        # the whole state at once: `*tx = TransactionState::default()`, `mem::take(&mut
        # conn.transaction_state)` / `mem::replace(.., Default::default())` reset every part
        TSTY = TXS[:-1]
        whole = False
        if t["k"] == "call":
            f_ = t["f"] or ""
            if re.search(r"^std::mem::(take|replace)::<%s>$" % re.escape(TSTY), f_):
                whole = True
            if re.search(r"^<%s as std::default::Default>::default$" % re.escape(TSTY), f_) or callee(t) == TSTY + "::default" or callee(t) == TSTY + "::new":
                d_ = t["d"]
                if d_["p"] and (d_["p"][-1] == "*" or (isinstance(d_["p"][-1], dict) and str(d_["p"][-1].get("f", "")).endswith("Connection.transaction_state"))):
                    whole = True
                else:
                    # stored through a temporary: `_t = default(); *tx = move _t`
                    for x2, bb2 in enumerate(b.bbs):
                        for st2 in bb2["s"]:
                            if st2["k"] == "=" and st2["r"]["k"] == "use" and not op_is_const(st2["r"]["o"]) and op_place(st2["r"]["o"])["l"] == d_["l"] and not op_place(st2["r"]["o"])["p"] and st2["l"]["p"] and \
                               (st2["l"]["p"][-1] == "*" or (isinstance(st2["l"]["p"][-1], dict) and str(st2["l"]["p"][-1].get("f", "")).endswith("Connection.transaction_state"))):
                                store.add(x2); qclear.add(x2); wclear.add(x2); abort.add(x2)
        if whole:
            store.add(i); qclear.add(i); wclear.add(i); abort.add(i)
        if t["k"] == "call" and t["a"]:
            P = prov.operand_origins(b, t["a"][0]) if not op_is_const(t["a"][0]) else None
            if P is None:
                continue
            f = t["f"] or ""
            # emptying a container: clear(), mem::take/replace, drain() (the Drain guard removes
            # everything even if it is not consumed), truncate(0), split_off(0)
            EMPTY = r"::(clear|drain)(::<.*>)?$"
            if TXS + "queued_commands" in P.fields and (re.search(r"(VecDeque|Vec)::<.*>" + EMPTY, f) or re.search(r"^std::mem::(take|replace)::<", f)):
                qclear.add(i)
            if TXS + "watched_keys" in P.fields and (re.search(r"(HashMap|HashSet|BTreeMap)::<.*>" + EMPTY, f) or re.search(r"^std::mem::(take|replace)::<", f)):
                wclear.add(i)
    return store, qclear, wclear, abort


def is_reset_body(b):
    """every exit of b passes all three reset parts"""
    store, qclear, wclear, _ = reset_events(b)
    if not (store and qclear and wclear):
        return False
    for part in (store, qclear, wclear):
        if cfg.path_avoiding(b, [0], b.exits(), part) is not None:
            return False
    return True


def _not_in_tx_blocks(b):
    """blocks behind the `not in a transaction` edge of a test of the in_transaction field"""
    out = set()
    for x, bb in enumerate(b.bbs):
        t = bb["t"]
        if t["k"] != "switch" or op_is_const(t["d"]):
            continue
        pl = op_place(t["d"]); l = pl["l"]; neg = False
        direct = any(isinstance(e, dict) and e.get("f") == TXS + "in_transaction" for e in pl["p"])
        for st in bb["s"]:
            if st["k"] == "=" and st["l"]["l"] == l and not st["l"]["p"]:
                r = st["r"]
                if r["k"] == "un" and r.get("op") == "Not" and not op_is_const(r["o"]):
                    src = op_place(r["o"]); neg = True
                elif r["k"] == "use" and not op_is_const(r["o"]):
                    src = op_place(r["o"])
                else:
                    continue
                if any(isinstance(e, dict) and e.get("f") == TXS + "in_transaction" for e in src["p"]):
                    direct = True
                else:
                    for st2 in bb["s"]:
                        if st2["k"] == "=" and st2["l"]["l"] == src["l"] and st2["r"]["k"] == "use" and not op_is_const(st2["r"]["o"]) and any(isinstance(e, dict) and e.get("f") == TXS + "in_transaction" for e in op_place(st2["r"]["o"])["p"]):
                            direct = True
        if not direct:
            continue
        zero = dict(t["ts"]).get(0)
        tgt = t["o"] if neg else zero
        if tgt is not None and not (neg and zero == t["o"]):
            out |= cfg.edge_dom_set(b, x, tgt) | {tgt}
    return out


def is_reset_when_open(b):
    """b resets the whole state on every exit except those taken when no transaction is open
    (`TransactionState::take_open`: None for a closed one, `mem::take` otherwise)"""
    store, qclear, wclear, _ = reset_events(b)
    if not (store and qclear and wclear):
        return False
    notx = _not_in_tx_blocks(b)
    if not notx:
        return False
    for part in (store, qclear, wclear):
        if cfg.path_avoiding(b, [0], b.exits(), set(part) | notx) is not None:
            return False
    return True


def rule_reset(ctx, R):
    b = ctx.prog.need(HE)
    resets = set()
    extract_calls = []
    for i, t in b.calls():
        for cl in t["clos"]:
            cb = ctx.prog.bodies.get(cl)
            if cb is None:
                continue
            if is_reset_body(cb) or is_reset_when_open(cb):
                resets.add(i)
            # extraction closure: reads in_transaction and can return None
            if any(isinstance(e, dict) and e.get("f") == TXS + "in_transaction" for bb in cb.bbs for st in bb["s"] if st["k"] == "=" and st["r"]["k"] in ("use",) and op_place(st["r"]["o"]) for e in op_place(st["r"]["o"])["p"]) or \
               any(bb["t"]["k"] == "switch" and op_place(bb["t"]["d"]) and any(isinstance(e, dict) and e.get("f") == TXS + "in_transaction" for e in op_place(bb["t"]["d"])["p"]) for bb in cb.bbs):
                if not is_reset_body(cb):
                    extract_calls.append(i)
    # an extraction that also resets (take the state if open) is followed by no later access:
    # its not-in-transaction arm is simply what follows its None result
    merged = [i for i in extract_calls if i in resets]
    R.floor("reset_closure_calls", len(resets))
    # "EXEC without MULTI": the blocks reachable from the extraction call that can neither reach
    # nor be reached from a later connection access -- the arm that answers the error
    exempt = set()
    for i in extract_calls:
        later = [j for j, t in b.calls() if j != i and t["clos"] and j in cfg.fwd(b, [i])]
        can_reach_later = cfg.bwd(b, later)
        after_later = set()
        for j in later:
            after_later |= cfg.fwd_strict(b, j)
        # the arm is also cut off from the extracted data: it lies neither before nor after a read
        # of the payload (`Some(Some(data)) => data`), so an early return placed after the state
        # was read -- which is inside the transaction -- is not mistaken for it
        d = b.term(i)["d"]["l"]
        holders = {d}
        for _ in range(4):
            for bb in b.bbs:
                for st in bb["s"]:
                    if st["k"] == "=" and st["r"]["k"] == "use" and not st["l"]["p"] and op_place(st["r"]["o"]) and op_place(st["r"]["o"])["l"] in holders and not op_place(st["r"]["o"])["p"]:
                        holders.add(st["l"]["l"])
        reads = set()
        for x, bb in enumerate(b.bbs):
            for st in bb["s"]:
                if st["k"] != "=":
                    continue
                r = st["r"]
                pl = op_place(r["o"]) if r["k"] in ("use", "cast") and op_place(r.get("o")) else (r["p"] if r["k"] == "ref" else None)
                if pl and pl["l"] in holders and any(isinstance(e, dict) and e.get("v") == "Some" for e in pl["p"]) and any(isinstance(e, dict) and "f" in e for e in pl["p"]):
                    reads.add(x)
        before_read = cfg.bwd(b, reads); after_read = cfg.fwd(b, reads)
        for x in cfg.fwd_strict(b, i):
            if x not in can_reach_later and x not in after_later and (not reads or (x not in before_read and x not in after_read)):
                exempt.add(x)
    n = 0
    for e in b.exits():
        n += 1
        p = cfg.path_avoiding(b, [0], [e], resets | exempt)
        R.inst(HE, "exit#%d" % n, {"exit": b.loc(e), "passes_reset_on_all_paths": p is None, "not_in_transaction_arm_blocks": len(exempt)})
        if p is not None:
            R.finding(HE, "exit-without-reset", "EXEC can return (line %d) without clearing the transaction state (in_transaction, queue, watched keys)" % b.bb_line(e), b.loc(e),
                      witness=["bb%d %s" % (x, b.loc(x)) for x in p][-8:])
    # the exempt arm must really be the not-in-transaction answer: it builds an error reply
    if extract_calls and not any(b.term(x)["k"] == "call" and b.term(x)["def"].endswith("RespFrame::error") for x in exempt):
        R.finding(HE, "not-in-transaction-arm:no-error", "the arm taken when the connection is not in a transaction does not answer with an error", b.loc())
    R.floor("exec_exits", n)
    # unwind exits: a panic inside a queued command must not leave the connection in MULTI state:
    # the reset that takes the queue precedes the execution loop
    execs = [i for i, t in b.calls() if callee(t) in (SERVER + "process_command_parts", SERVER + "process_normal_command")]
    for x in execs:
        ok = any(cfg.dominates(b, r, x) for r in resets)
        R.inst(HE, "reset-before-execution", {"execution_call": b.loc(x), "dominated_by_reset": ok})
        if not ok:
            R.finding(HE, "execution-before-reset", "queued commands are executed before the transaction state is reset", b.loc(x))
    # DISCARD
    hd = ctx.prog.need("storage::commands::transactions::handle_discard")
    store, qclear, wclear, _ = reset_events(hd)
    # exits after the in_transaction test: those not dominated by the error reply
    errs = [i for i, t in hd.calls() if t["def"].endswith("RespFrame::error")]
    for e in hd.exits():
        for part, nm in ((store, "in_transaction=false"), (qclear, "queue cleared"), (wclear, "watched keys cleared")):
            p = cfg.path_avoiding(hd, [0], [e], set(part) | set(errs))
            R.inst(hd.fn, "discard:" + nm, {"part": nm, "on_all_paths": p is None})
            if p is not None:
                R.finding(hd.fn, "discard-without:" + nm, "DISCARD can return without %s" % nm, hd.loc(e))
    hu = ctx.prog.need("storage::commands::transactions::handle_unwatch")
    _, _, wclear, _ = reset_events(hu)
    p = cfg.path_avoiding(hu, [0], hu.exits(), wclear)
    R.inst(hu.fn, "unwatch:watched keys cleared", {"on_all_paths": p is None})
    if p is not None:
        R.finding(hu.fn, "unwatch-without-clear", "UNWATCH can return without clearing the watched keys", hu.loc())


LOOP_FNS = ("process_connections", "process_connection", "accept_connections", "accept_single_connection", "process_wakeups",
            "process_blocked_timeouts", "process_pending_writes", "cleanup_connections", "run")


def rule_tx_atomic(roots_fn, label):
    def rule(ctx, R):
        roots = roots_fn(ctx)
        for r in roots:
            ctx.prog.need(r)
        reach = ctx.cg.reach(roots)
        R.floor("functions_reachable", len(reach))
        for nm in LOOP_FNS:
            fn = SERVER + nm
            R.inst(fn, "reentry", {"function": nm, "reachable_from_" + label: fn in reach})
            if fn in reach:
                R.finding(fn, "event-loop-reentry", "%s is reachable from %s: other clients' commands could run in the middle of it" % (nm, label), "", witness=ctx.cg.path(roots[0], {fn}) or [])
    return rule


def rule_tx_conn(ctx, R):
    """the connection identity handed to re-dispatched commands originates from the executing
    connection, not from a constant"""
    n = 0
    reach = ctx.cg.reach([HE])
    pnc = SERVER + "process_normal_command"
    for fn in sorted(reach):
        b = ctx.prog.bodies.get(fn)
        if b is None or not fn.startswith(SERVER):
            continue
        if b.kind == "Closure" and not (b.encl and b.encl in reach and b.encl != PF):
            continue
        for i, t in b.calls():
            if callee(t) != pnc:
                continue
            if fn == PF:
                continue
            n += 1
            # conn_id is the last parameter of process_normal_command
            a = t["a"][-1]
            const = op_is_const(a)
            if not const:
                P = prov.operand_origins(b, a)
                ok_src = bool(P.params() - ({1} if b.kind == "Closure" else set()))
                for r in P.roots:
                    if r[0] == "upvar":
                        co = shared.capture_operand(ctx, b, r)
                        if co and not op_is_const(co[1]) and prov.operand_origins(co[0], co[1]).params():
                            ok_src = True
                const = not ok_src
            R.inst(fn, "redispatch-conn-id", {"function": fn, "at": b.loc(i), "conn_id_is_constant": bool(const)})
            if const:
                R.finding(fn, "redispatch-conn-id:constant",
                          "%s re-dispatches a queued command with a constant connection id: connection-scoped commands inside MULTI (SELECT, CLIENT, BLPOP) act on a connection that is not the executing one" % fn.split("::")[-1], b.loc(i))
    R.floor("redispatch_sites", n)


# ---------------------------------------------------------------------------------------
# C08

MARK = "storage::engine::DatabaseShard::mark_modified"


def _byte_params(b, params):
    """keep parameters that can carry a key (byte strings), drop db indexes / self"""
    return {p for p in params if "u8" in b.locals[p]}


def key_params_of_site(b, i, kind, f):
    """parameters the key of the mutated entry derives from"""
    t = b.term(i)
    if kind == "map":
        if re.search(SHARD_MAP + r"(clear|retain|drain)\b", f):
            return None     # whole-shard
        if "hash_map::" in f and t["a"] and not op_is_const(t["a"][0]):
            # Entry / VacantEntry / OccupiedEntry method: the key is the one handed to entry()
            P = prov.operand_origins(b, t["a"][0], deep=True)
            ks = set()
            sites_ = [r[2] for r in P.roots if r[0] == "call" and re.search(SHARD_MAP + r"entry\b", r[1])] + [bb_ for f_, bb_ in P.via if re.search(SHARD_MAP + r"entry\b", f_)]
            for x_ in sites_:
                tt = b.term(x_)
                if len(tt["a"]) >= 2:
                    ks |= _byte_params(b, prov.operand_origins(b, tt["a"][1], deep=True).params())
            return ks
        if len(t["a"]) >= 2:
            return _byte_params(b, prov.operand_origins(b, t["a"][1], deep=True).params())
        return set()
    # payload: receiver derives from a get_mut/get on the shard map; take that call's key operand
    ks = set()
    for x_ in shared.dataset_lookup_blocks(b, t["a"][0]):
        tt = b.term(x_)
        if len(tt["a"]) >= 2:
            ks |= _byte_params(b, prov.operand_origins(b, tt["a"][1], deep=True).params())
    return ks


def rule_w1(ctx, R):
    dm = shared.direct_mutators(ctx, include_purge=True)
    ns = 0; nm = 0
    for fn, (sites, stores) in sorted(dm.items()):
        b = ctx.prog.bodies[fn]
        if fn == ENGINE + "expiration_cleanup_loop":
            pass
        marks = []
        for i, t in b.calls():
            if callee(t) == MARK:
                MP = prov.operand_origins(b, t["a"][1], deep=True) if len(t["a"]) >= 2 else prov.Prov()
                ks = _byte_params(b, MP.params())
                iterated = MP.has_call(SHARD_MAP + r"(iter|keys|iter_mut|drain)\b") or MP.has_call(r"std::collections::HashMap::<std::vec::Vec<u8>, std::time::Instant>::(iter|keys)")
                marks.append((i, ks, iterated))
        # `data.keys().for_each(|k| guard.mark_modified(k))`: the bump sits in a closure driven by an
        # iterator over the shard's keys
        for i, t in b.calls():
            if not t.get("clos") or not t["a"] or op_is_const(t["a"][0]):
                continue
            for c in t["clos"]:
                cb = ctx.prog.bodies.get(c)
                if cb is None:
                    continue
                for j, tj in cb.calls():
                    if callee(tj) == MARK and len(tj["a"]) >= 2 and not op_is_const(tj["a"][1]):
                        kp = prov.operand_origins(cb, tj["a"][1], deep=True)
                        if any(r[0] == "param" and r[1] >= 2 for r in kp.roots):
                            SP = prov.operand_origins(b, t["a"][0], deep=True)
                            if SP.has_call(SHARD_MAP + r"(iter|keys|iter_mut|drain)\b"):
                                marks.append((i, set(), True))
        nm += 1
        allsites = [(i, k, f) for (i, k, f) in sites] + [(i, "store", "store") for (i, st) in stores]
        seen = set()
        for i, kind, f in allsites:
            if kind == "payload" and re.search(r"ValueMetadata::touch", f):
                continue
            short = shared.short_callee(f) if kind != "store" else "store"
            if kind == "store":
                ks = set()
                for x_ in shared.dataset_lookup_blocks(b, {"cp": {"l": [st for (j, st) in stores if j == i][0]["l"]["l"], "p": []}}):
                    tt = b.term(x_)
                    if len(tt["a"]) >= 2:
                        ks |= _byte_params(b, prov.operand_origins(b, tt["a"][1], deep=True).params())
            else:
                ks = key_params_of_site(b, i, kind, f)
            keyname = "*" if ks is None else ",".join(sorted(b.local_name(k) for k in ks)) or "?"
            desc = "mut:%s:key=%s" % (short, keyname)
            ns += 1
            around = cfg.fwd(b, [i]) | cfg.bwd(b, [i])
            ok = False
            if ks is None:
                # whole-shard mutation: needs a bump inside a loop over the shard's keys, or a bump
                # whose key does not come from a parameter (iterated key)
                for (m, mks, iterated) in marks:
                    if m in around and not mks and iterated:
                        ok = True
            else:
                for (m, mks, iterated) in marks:
                    if m in around and ((mks & ks) or (not ks and not mks)):
                        ok = True
            R.inst(fn, desc, {"function": fn[len(ENGINE):] if fn.startswith(ENGINE) else fn, "mutation": short, "key": keyname, "at": b.loc(i), "bump_with_same_key": ok})
            if not ok and desc not in seen:
                seen.add(desc)
                R.finding(fn, "no-bump:" + desc,
                          "%s changes the dataset (%s on key `%s`, line %d) without a mark_modified of that key in the same function: a WATCH on the key does not abort EXEC" % (fn.split("::")[-1], short, keyname, b.bb_line(i)), b.loc(i))
    R.floor("mutating_engine_functions", nm)
    R.floor("mutation_sites", ns)


def rule_w2(ctx, R):
    b = ctx.prog.need(ENGINE + "was_modified_since")
    cmp_ = [i for i, bb in enumerate(b.bbs) for st in bb["s"] if st["k"] == "=" and st["r"]["k"] == "bin" and st["r"]["op"] in ("Gt", "Lt", "Ne", "Ge", "Le")
            and 4 in (prov.operand_origins(b, st["r"]["a"]).params() | prov.operand_origins(b, st["r"]["b"]).params())]
    exp = [i for i, t in b.calls() if re.search(r"::is_expired$", callee(t)) and shared.from_dataset(b, t["a"][0])]
    if not exp:
        # `data.get(key).map_or(false, |v| v.is_expired())`: the test sits in an adaptor closure
        # whose subject is the stored value
        for i, t in b.calls():
            for c in t.get("clos") or []:
                cb = ctx.prog.bodies.get(c)
                if cb is not None and any(re.search(r"::is_expired$", callee(tt)) for _, tt in cb.calls()) and t["a"] and not op_is_const(t["a"][0]) and shared.from_dataset(b, t["a"][0]):
                    exp.append(i)
    cnt = [i for i, t in b.calls() if callee(t) in ("storage::engine::ShardWatchTracker::get_key_counter",)]
    R.inst(b.fn, "stamp-comparison", {"comparisons_with_baseline": len(cmp_), "reads_key_counter": len(cnt)})
    R.inst(b.fn, "expiry-clause", {"is_expired_on_stored_value": len(exp)})
    if not cmp_ or not cnt:
        R.finding(b.fn, "stamp-comparison:missing", "was_modified_since does not compare the key's current stamp with the recorded baseline", b.loc())
    if not exp:
        R.finding(b.fn, "expiry-clause:missing", "was_modified_since does not consult is_expired() of the stored value: a watched key that expired does not abort EXEC", b.loc())
    # both must be able to produce `true`: the true result is reachable from each test's positive edge
    rw = ctx.prog.need("storage::engine::ShardWatchTracker::register_watch")
    inc = [i for i, t in rw.calls() if re.search(r"atomic::Atomic.*::fetch_add$", t["def"] or "")]
    rd = [i for i, t in rw.calls() if re.search(r"HashMap::<.*>::get", t["f"] or "") or callee(t) == "storage::engine::ShardWatchTracker::get_key_counter"]
    ok = bool(inc) and bool(rd) and all(cfg.dominates(rw, inc[0], x) for x in rd)
    R.inst(rw.fn, "watchers-incremented-before-stamp-read", {"ok": ok})
    if not ok:
        R.finding(rw.fn, "register-order", "register_watch reads the stamp before announcing the watcher: a concurrent modification can be missed by the fast path", rw.loc())
    mk = ctx.prog.need("storage::engine::ShardWatchTracker::mark_key_modified")
    ld = [i for i, t in mk.calls() if re.search(r"atomic::Atomic.*::load$", t["def"] or "")]
    ins = [i for i, t in mk.calls() if re.search(r"HashMap::<.*>::insert$", t["f"] or "")]
    R.inst(mk.fn, "bump-writes-stamp", {"loads_watchers": len(ld), "writes_stamp": len(ins)})
    if not ins:
        R.finding(mk.fn, "bump-writes-stamp:missing", "mark_key_modified never writes the key's stamp", mk.loc())
    # handle_watch records the stamp for the operated key in the connection's db
    hw = ctx.prog.need("storage::commands::transactions::handle_watch")
    reg = [i for i, t in hw.calls() if callee(t) == ENGINE + "register_watch"]
    R.inst(hw.fn, "watch-registers", {"register_watch_calls": len(reg)})
    if not reg:
        R.finding(hw.fn, "watch-registers:missing", "WATCH does not register with the storage engine", hw.loc())


def rule_w3(ctx, R):
    """the abort decision dominates the execution loop and its abort edge executes nothing"""
    b = ctx.prog.need(HE)
    wm = [i for i, t in b.calls() if callee(t) == ENGINE + "was_modified_since"]
    execs = [i for i, t in b.calls() if callee(t) in (SERVER + "process_command_parts", SERVER + "process_normal_command")]
    # the check may also sit in a closure driven from here (`watched.iter().any(|..| ..)`): the
    # site is then the call that takes the closure, and its bool result is the verdict
    wmc = []
    for i, t in b.calls():
        for c in t.get("clos") or []:
            cb = ctx.prog.bodies.get(c)
            if cb is not None and any(callee(tt) == ENGINE + "was_modified_since" for _, tt in cb.calls()):
                wmc.append((i, c))
    R.floor("was_modified_since_calls", len(wm) + len(wmc))
    for w, c in wmc:
        dom = all(cfg.dominates(b, w, e) for e in execs)
        t = b.term(w)
        sw = shared._follow_to_switch(b, t["t"], t["d"]["l"]) if t["t"] >= 0 else None
        R.inst(HE, "abort-test", {"test_at": b.loc(w), "in_closure_of": callee(t).split("::")[-1], "dominates_execution": dom})
        if not dom:
            R.finding(HE, "abort-test:not-dominating", "the watched-key check does not dominate the execution of the queued commands", b.loc(w))
        if sw is None:
            R.finding(HE, "abort-test:result-ignored", "result of the watched-key check is not inspected", b.loc(w)); continue
        # the closure maps Ok(false) to one bool value and everything else to the other: find which
        cb = ctx.prog.bodies[c]
        ts = dict(sw[1]["ts"])
        edges = {"true": sw[1]["o"], "false": ts.get(0)}
        reach = {k: (v is not None and any(e in cfg.fwd(b, [v], cut=[w]) for e in execs)) for k, v in edges.items()}
        R.inst(HE, "abort-edge", {"edges_reaching_execution": [k for k, v in reach.items() if v]})
        if reach["true"] and reach["false"]:
            R.finding(HE, "abort-edge:executes", "both outcomes of the watched-key check lead to the execution of the queued commands", b.loc(w))
    for w in wm:
        rs = shared.result_switch(b, w)
        dom = all(cfg.dominates(b, w, e) or w_loop_dominates(b, w, e) for e in execs)
        R.inst(HE, "abort-test", {"test_at": b.loc(w), "dominates_execution": dom})
        if not dom:
            R.finding(HE, "abort-test:not-dominating", "the watched-key check does not dominate the execution of the queued commands", b.loc(w))
        if rs is None:
            R.finding(HE, "abort-test:result-ignored", "result of was_modified_since is not inspected", b.loc(w)); continue
        # Ok(true) edge and Err edge must not reach execution: find the bool switch after Ok
        bad = []
        for f0 in rs["fail"]:
            if any(e in cfg.fwd(b, [f0], cut=[w]) for e in execs):
                bad.append("Err")
        tru = modified_true_edge(b, w, rs)
        if tru is None:
            R.finding(HE, "abort-test:true-edge-not-found", "the `modified == true` edge of the watch check could not be identified", b.loc(w)); continue
        if any(e in cfg.fwd(b, [tru], cut=[w]) for e in execs):
            bad.append("Ok(true)")
        R.inst(HE, "abort-edge", {"edges_reaching_execution": bad})
        if bad:
            R.finding(HE, "abort-edge:executes", "after a watched key was found modified (%s) EXEC can still execute queued commands" % ",".join(bad), b.loc(w))


def w_loop_dominates(b, w, e):
    # the check runs in a loop over watched keys that precedes the execution: the loop head dominates
    for h, body in cfg.loops(b).items():
        if w in body and e not in body and cfg.dominates(b, h, e):
            return True
    return False


def modified_true_edge(b, w, rs):
    """after Ok(v): switch on v (bool) -> target for true"""
    for ok in rs["ok"]:
        cur = ok
        for _ in range(6):
            t = b.term(cur)
            if t["k"] == "switch":
                ts = dict(t["ts"])
                pl = op_place(t["d"])
                # switch on the bool payload: values 0 -> false
                if 0 in ts:
                    return t["o"]
                if 1 in ts:
                    return ts[1]
                return None
            if t["k"] == "goto":
                cur = t["t"]; continue
            break
    return None


KC = "storage::engine::ShardWatchTracker.key_counters"
GC = "storage::engine::ShardWatchTracker.global_counter"


def rule_w4(ctx, R):
    """modification stamps are never forgotten or reused: the per-key stamp map is shared by all
    connections watching the key (each compares it with the baseline it saved at WATCH time), so
    (a) nothing removes or clears entries of key_counters, (b) every stamp written is a fresh
    value of the global counter, (c) the global counter only moves forward (fetch_add)."""
    n = 0
    for fn, b in sorted(ctx.prog.bodies.items()):
        if not fn.startswith("storage::engine::") or "::tests::" in fn:
            continue
        for i, t in b.calls():
            f = t["f"] or ""
            if b.bbs[i].get("cleanup") or not t["a"] or op_is_const(t["a"][0]):
                continue
            m = re.match(r"^std::collections::HashMap::<std::vec::Vec<u8>, u64>::(\w+)", f)
            if m:
                P = prov.operand_origins(b, t["a"][0])
                if KC not in P.fields:
                    continue
                n += 1
                op = m.group(1)
                if op in ("remove", "remove_entry", "clear", "retain", "drain", "extract_if"):
                    R.inst(fn, "stamp-map-op:" + op, {"function": fn, "op": op})
                    R.finding(fn, "stamp-map:%s" % op,
                              "%s drops modification stamps (HashMap::%s on key_counters, line %d): the map is shared by every connection watching the key, so a modification another watcher has not yet checked is forgotten (its EXEC runs although the key changed)" % (fn.split("::")[-1], op, b.bb_line(i)), b.loc(i))
                elif op == "insert":
                    fresh = False
                    if len(t["a"]) > 2 and not op_is_const(t["a"][2]):
                        PV = prov.operand_origins(b, t["a"][2], deep=True)
                        fresh = PV.has_call(r"atomic::Atomic::<u64>::fetch_add$") 
                    R.inst(fn, "stamp-map-op:insert", {"function": fn, "stamp_from_global_counter": fresh})
                    if not fresh:
                        R.finding(fn, "stamp-map:insert-not-fresh", "%s writes a stamp that is not a fresh value of the global counter (line %d): a stamp equal to a saved baseline hides the modification" % (fn.split("::")[-1], b.bb_line(i)), b.loc(i))
                else:
                    R.inst(fn, "stamp-map-op:" + op, None)
            elif re.search(r"atomic::Atomic::<u64>::(store|swap|fetch_sub|fetch_min|compare_exchange|compare_exchange_weak|fetch_and|fetch_update)$", f):
                P = prov.operand_origins(b, t["a"][0])
                if GC in P.fields:
                    n += 1
                    R.finding(fn, "global-counter:not-monotone", "%s rewinds or overwrites the global stamp counter (line %d)" % (fn.split("::")[-1], b.bb_line(i)), b.loc(i))
    R.floor("stamp_map_operations", n)


def rule_norefuse(ctx, R):
    """all or nothing: once the connection is known to be inside MULTI, a command is either
    queued or (control commands) handled -- it is not refused with an error reply on a path that
    skips the queue step, because the transaction is not marked aborted there and EXEC would run
    the rest (a CLIENT PAUSE / rate-limit / maintenance test placed before the queue test).
    Checked: every block of process_frame that builds an error reply and lies after the
    connection-state read is dominated by the in_transaction/queue test, or lies in a control
    command's arm or in the authentication refusal."""
    b = ctx.prog.need(PF)
    qd = queue_decision(ctx, b)
    if qd is None:
        R.broken.append("queue decision not found"); return
    qi, decisions, _qt, _reads = qd
    tests = shared.str_tests(b)
    ctrl = set(CONTROL)
    ctrl_region = set()
    for n in ctrl:
        ctrl_region |= shared.arm_region(b, tests, n)
    try:
        refuse = rules_auth.gate_regions(ctx, b)[2]
    except Exception:
        refuse = set()
    # the read of the connection state: with_connection whose closure reads in_transaction
    reads = []
    for i, t in b.calls():
        for c in t.get("clos") or []:
            cb = ctx.prog.bodies.get(c)
            if cb is None:
                continue
            for bb in cb.bbs:
                for st in bb["s"]:
                    if st["k"] == "=" and st["r"]["k"] in ("use", "ref"):
                        pl = op_place(st["r"]["o"]) if st["r"]["k"] == "use" else st["r"]["p"]
                        if pl and any(isinstance(e, dict) and str(e.get("f", "")).endswith("TransactionState.in_transaction") for e in pl["p"]):
                            reads.append(i)
    reads = sorted(set(r for r in reads if cfg.dominates(b, r, qi)))
    R.floor("connection_state_reads", len(reads))
    if not reads:
        return
    rd = reads[0]
    rs = shared.result_switch(b, rd)
    after = set()
    if rs:
        for o in rs["ok"]:
            after |= cfg.dom_set(b, o)
    else:
        after = cfg.dom_set(b, rd)
    n = 0
    for i, t in b.calls():
        if callee(t) != "protocol::resp::RespFrame::error" or i not in after:
            continue
        n += 1
        dom = any(cfg.dominates(b, d_, i) for d_ in decisions)
        # an error built inside the arm of one named command (e.g. MONITOR's arity error) belongs
        # to R-TX-QUEUE's question whether that command may run before the queue test at all
        in_named_arm = any(i in cfg.dom_set(b, t_["true"]) for t_ in tests)
        ok = dom or i in ctrl_region or i in refuse or in_named_arm
        msg = shared.resolve_const_str(b, t["a"][0]) if t["a"] else None
        R.inst(PF, "error-reply", {"at": b.loc(i), "text": (msg or "")[:40], "after_queue_test": dom, "control_arm": i in ctrl_region, "auth_refusal": i in refuse})
        if not ok:
            R.finding(PF, "refusal-before-queue-test:%s" % ((msg or "?").split(" ")[1] if msg and " " in msg else (msg or "?"))[:24],
                      "process_frame can answer an error (%r, line %d) to a connection that is inside MULTI on a path that skips the queue step: the command is dropped from the transaction without marking it aborted, so EXEC runs only the others" % (msg, b.bb_line(i)), b.loc(i))
    R.floor("error_replies_after_state_read", n)


def rule_tx_refuse_pure(ctx, R):
    """a transaction-control command that is refused (nested MULTI, WATCH inside MULTI, DISCARD
    without MULTI) changes nothing: in the control handlers no write to the connection's
    transaction state can precede the construction of an error reply"""
    n = 0
    TS = "TransactionState."
    for fn, b in sorted(ctx.prog.bodies.items()):
        if not fn.startswith("storage::commands::transactions::") or "::tests::" in fn or b.kind == "Closure":
            continue
        if not any("network::connection::Connection" in ty for ty in b.arg_tys()):
            continue
        if fn not in shared.command_path(ctx):
            continue      # unused duplicates (transactions::handle_exec) are not part of the server
        errs = [i for i, t in b.calls() if (t["def"] or "").endswith("RespFrame::error")]
        if not errs:
            continue
        muts = []
        for i, bb in enumerate(b.bbs):
            if bb.get("cleanup"):
                continue
            for st in bb["s"]:
                if st["k"] == "=" and any(isinstance(e, dict) and (TS in str(e.get("f", "")) or str(e.get("f", "")).endswith("Connection.transaction_state")) for e in st["l"]["p"]):
                    muts.append(i)
            t = bb["t"]
            if t["k"] == "call" and t["a"] and not op_is_const(t["a"][0]) and re.search(r"^std::mem::(take|replace|swap)::<|::(clear|push_back|push|insert|remove|drain|retain|take)(::<.*>)?$", t["f"] or ""):
                P = prov.operand_origins(b, t["a"][0])
                if any(TS in f_ or f_.endswith("Connection.transaction_state") for f_ in P.fields) and "&mut" in b.locals[op_place(t["a"][0])["l"]]:
                    muts.append(i)
        # path-sensitive: `if state.begin() { ok } else { error }` -- the writes happen on the path
        # that yields `true`, the error is built where the flag is false
        import boolpath
        reach_from = {}
        for m in set(muts):
            try:
                reach_from[m] = set(boolpath.explore(b, boolpath.Spec(), starts=[m]).reached)
            except boolpath.TooManyStates:
                reach_from[m] = cfg.fwd(b, [m])
        for k, e in enumerate(errs):
            n += 1
            before = [m for m in muts if e in reach_from.get(m, ()) and m != e]
            R.inst(fn, "refusal#%d" % k, {"function": fn.split("::")[-1], "at": b.loc(e), "state_writes_that_can_precede_it": len(before)})
            if before:
                R.finding(fn, "refusal-after-state-write",
                          "%s can write the connection's transaction state (line %d) and then answer an error (line %d): the refused command is not without effect -- a nested MULTI that is refused must leave the queued commands alone" % (fn.split("::")[-1], b.bb_line(before[0]), b.bb_line(e)), b.loc(e))
    R.floor("control_handler_refusals", n)


# ---- R-WATCH-DB -----------------------------------------------------------------------------------
_WATCH_CONSUMERS = re.compile(r"^storage::engine::StorageEngine::(was_modified_since|unregister_watch)$")


def rule_watch_db(ctx, R):
    """a watch belongs to the database the key was in when WATCH ran: the check at EXEC and the
    unregistration at UNWATCH use the database stored WITH the watched key, not the connection's
    current selection (SELECT between WATCH and EXEC would check -- and un-count -- the same key
    name in another database).  At every call of was_modified_since / unregister_watch whose key
    comes out of the watch set, the database operand comes out of the same record."""
    n = 0
    for fn, b in sorted(ctx.prog.bodies.items()):
        if not fn.startswith(("network::", "storage::commands::")) or "::tests::" in fn:
            continue
        for i, t in b.calls():
            if not _WATCH_CONSUMERS.match(callee(t)) or b.bbs[i]["cleanup"] or len(t["a"]) < 3:
                continue
            K = prov.operand_origins(b, t["a"][2], deep=True)
            recs = {r[2] for r in K.roots if r[0] == "call" and re.search(r"Iterator>::next$", r[1])} | {bb for c, bb in K.via if re.search(r"Iterator>::next$", c)}
            if not recs:
                continue          # the key does not come out of an iteration over the watch set
            n += 1
            D = prov.operand_origins(b, t["a"][1], deep=True)
            drecs = {r[2] for r in D.roots if r[0] == "call" and re.search(r"Iterator>::next$", r[1])} | {bb for c, bb in D.via if re.search(r"Iterator>::next$", c)}
            ok = bool(recs & drecs)
            R.inst(fn, "watch-consumer:%s" % callee(t).split("::")[-1], {"function": fn, "at": b.loc(i), "database_from_the_watch_record": ok})
            if not ok:
                R.finding(fn, "watch-db:%s:not-from-the-watch-record" % callee(t).split("::")[-1],
                          "%s takes the key from the watch set but the database from elsewhere (line %d): the watch set does not remember the database a key was watched in, so after SELECT the check / unregistration addresses the same key name in another database (WATCH k in db 0; SELECT 1; another client SET k in db 0; EXEC runs)" % (fn.split("::")[-1], b.bb_line(i)), b.loc(i))
    R.floor("watch_set_consumers", n)


def rule_rewatch(ctx, R):
    """WATCH of a key that is already watched keeps the first baseline: the insertion into the
    watch set does not overwrite (entry API / `contains_key` test), otherwise a change made between
    the two WATCH calls is forgotten."""
    n = 0
    for fn, b in sorted(ctx.prog.bodies.items()):
        if not fn.startswith(("network::", "storage::commands::")) or "::tests::" in fn:
            continue
        regs = [i for i, t in b.calls() if callee(t) == "storage::engine::StorageEngine::register_watch"]
        if not regs:
            continue
        for i, t in b.calls():
            f = t["f"] or ""
            if b.bbs[i]["cleanup"] or not re.search(r"HashMap::<.*>::insert$", f) or not t["a"] or op_is_const(t["a"][0]):
                continue
            P = prov.operand_origins(b, t["a"][0])
            if not any(x.endswith("TransactionState.watched_keys") for x in P.fields):
                continue
            n += 1
            guarded = False
            for j, tt in b.calls():
                if re.search(r"HashMap::<.*>::contains_key(::<.*>)?$", tt["f"] or "") and tt["a"] and not op_is_const(tt["a"][0]) and any(x.endswith("TransactionState.watched_keys") for x in prov.operand_origins(b, tt["a"][0]).fields) and cfg.dominates(b, j, i):
                    guarded = True
            R.inst(fn, "watch-insert", {"function": fn, "at": b.loc(i), "under_a_not_yet_watched_test": guarded})
            if not guarded:
                R.finding(fn, "watch-insert:overwrites-baseline",
                          "%s stores the baseline of a watched key with HashMap::insert (line %d) and no `already watched` test: a second WATCH of the same key replaces the first baseline, so a modification made between the two is forgotten (WATCH k; another client SET k; WATCH k; MULTI; EXEC runs)" % (fn.split("::")[-1], b.bb_line(i)), b.loc(i))
        # the entry API never replaces an occupied entry: `entry(k)` + `Vacant(e) => e.insert(..)`
        # / `or_insert_with(..)` are insertions that keep the first baseline by construction
        for i, t in b.calls():
            f = t["f"] or ""
            if b.bbs[i]["cleanup"] or not re.search(r"hash_map::(VacantEntry|Entry)(::)?<.*>::(insert|or_insert|or_insert_with|or_insert_with_key|insert_entry)(::<.*>)?$", f) or not t["a"] or op_is_const(t["a"][0]):
                continue
            if any(x.endswith("TransactionState.watched_keys") for x in prov.operand_origins(b, t["a"][0], deep=True).fields):
                n += 1
                R.inst(fn, "watch-insert", {"function": fn, "at": b.loc(i), "under_a_not_yet_watched_test": True, "form": "entry API (vacant only)"})
    R.floor("watch_set_insertions", n)
