"""C13 rules: R-BLK-POP, R-BLK-STRAND, R-BLK-UNREG, R-BLK-NOTIFY, R-BLK-REGPAIR, R-DISC-SIB,
R-BLK-EOF."""
import re
from facts import callee, op_local, op_place, op_is_const, const_int
import cfg, shared, prov, rules_cmd
from shared import SERVER, ENGINE

BM = "network::blocking::BlockingManager::"
BR = "network::blocking::BlockingRegistry::"
PNC = SERVER + "process_normal_command"
POPS = (ENGINE + "lpop", ENGINE + "rpop")
PUSHES = (ENGINE + "lpush", ENGINE + "rpush")
CONN_STATE = "network::connection::Connection.state"


def blocked_test_regions(ctx, b):
    """blocks executed only when a Connection's state was found to be Blocked: behind the Blocked
    edge of a switch on the state's discriminant, or -- path-sensitively -- behind a bool that
    such a switch decided (`if conn.is_blocked() { .. }`, `if !blocked { return }`, matches!)"""
    import boolpath
    dv = ctx.prog.variant_discr("network::connection::ConnectionState", "Blocked")
    reg = set()
    ev_edges = {}
    for i, bb in enumerate(b.bbs):
        t = bb["t"]
        if t["k"] != "switch":
            continue
        dl = op_local(t["d"])
        for st in bb["s"]:
            if st["k"] == "=" and st["l"]["l"] == dl and st["r"]["k"] == "discr":
                fs = [e["f"] for e in st["r"]["p"]["p"] if isinstance(e, dict) and "f" in e]
                fs += prov.origins(b, st["r"]["p"]["l"]).fields
                if CONN_STATE in fs:
                    ts = dict(t["ts"])
                    if dv in ts:
                        reg |= cfg.edge_dom_set(b, i, ts[dv])
                        ev_edges[i] = ts[dv]
    if ev_edges:
        class _S(boolpath.Spec):
            def edges(self, b_, bbi, t):
                return (ev_edges[bbi],) if bbi in ev_edges else ()
        try:
            ex = boolpath.explore(b, _S(), cap=150000)
            reg |= set(range(len(b.bbs))) - set(ex.reached)
        except boolpath.TooManyStates:
            pass
    return reg


def registration_fns(ctx):
    """BlockingManager entry points that put a client into a key's waiter queue"""
    def compute():
        out = set()
        for fn, b in ctx.prog.bodies.items():
            if not fn.startswith(BM) or "::tests::" in fn:
                continue
            for f2 in ctx.cg.reach([fn]):
                b2 = ctx.prog.bodies.get(f2)
                if b2 is not None and any(re.match(r"^std::collections::VecDeque::<network::blocking::BlockedClient>::(push_back|push_front|insert)$", t["f"] or "") for _, t in b2.calls()):
                    out.add(fn); break
        return out
    return ctx.memo("blk_registration_fns", compute)


def wake_path_fns(ctx):
    roots = [SERVER + "process_wakeups"]
    ctx.prog.need(roots[0])
    return ctx.cg.reach(roots, stop={PNC})


def rule_pop(ctx, R):
    fns = wake_path_fns(ctx)
    n = 0
    for fn in sorted(fns):
        b = ctx.prog.bodies.get(fn)
        if b is None or fn.startswith(ENGINE):
            continue
        pops = [(i, callee(t)) for i, t in b.calls() if callee(t) in POPS]
        if not pops:
            continue
        blk = blocked_test_regions(ctx, b)
        sends = {i for i, t in b.calls() if callee(t) == "network::connection::Connection::send_frame"}
        backs = {i for i, t in b.calls() if callee(t) in PUSHES}
        for i, c in pops:
            n += 1
            guarded = i in blk
            R.inst(fn, "pop:" + c.split("::")[-1], {"function": fn, "at": b.loc(i), "under_still_blocked_test": guarded})
            if not guarded:
                R.finding(fn, "pop-before-blocked-test:" + c.split("::")[-1],
                          "the wake path pops an element (%s, line %d) before it knows that the connection still exists and is still blocked: if it is not, the element is dropped" % (c.split("::")[-1], b.bb_line(i)), b.loc(i))
                continue
            rs = shared.result_switch(b, i)
            # through `?`: first switch is Continue/Break, the value switch (Some/None) follows
            some = some_edge_after(b, i)
            if some is None:
                R.finding(fn, "pop-result-not-inspected:" + c.split("::")[-1], "the popped value is not inspected", b.loc(i)); continue
            # on the Some continuation every path to an exit passes a delivery whose failure edge
            # reaches a push-back
            p = cfg.path_avoiding(b, [some], b.exits(), sends)
            if p is not None:
                R.finding(fn, "popped-not-delivered:" + c.split("::")[-1], "a popped element can reach the end of the wake path without being sent to the client", b.loc(i),
                          witness=["bb%d %s" % (x, b.loc(x)) for x in p][:8])
            for s_ in sends:
                if s_ not in cfg.fwd(b, [some]):
                    continue
                rs2 = shared.result_switch(b, s_)
                ok = False
                if rs2 is not None:
                    for f0 in rs2["fail"]:
                        if backs & cfg.fwd(b, [f0], cut=[s_]):
                            ok = True
                R.inst(fn, "delivery-failure:" + c.split("::")[-1], {"send_at": b.loc(s_), "failure_edge_pushes_back": ok})
                if not ok:
                    R.finding(fn, "delivery-failure-drops-element:" + c.split("::")[-1], "when sending the popped element fails it is not pushed back into the list", b.loc(s_))
    R.floor("wake_path_pops", n)


def some_edge_after(b, call_bb):
    """target block taken when the Option carried by the call's Result is Some, following `?`"""
    rs = shared.result_switch(b, call_bb)
    # after `?` (or `.unwrap_or(None)` / a match that maps the error to None): the payload is an
    # Option<Vec<u8>>: find the next discriminant switch on such an Option
    seen = set(); st = list(rs["ok"]) if rs is not None else [x for x in [b.term(call_bb)["t"]] if x >= 0]
    while st:
        x = st.pop(0)
        if x in seen:
            continue
        seen.add(x)
        t = b.term(x)
        if t["k"] == "switch":
            dl = op_local(t["d"])
            for s_ in b.stmts(x):
                if s_["k"] == "=" and s_["l"]["l"] == dl and s_["r"]["k"] == "discr":
                    ty = b.locals[s_["r"]["p"]["l"]]
                    if ty.startswith("std::option::Option<std::vec::Vec<u8>>"):
                        ts = dict(t["ts"])
                        return ts.get(1, t["o"])
        if len(seen) > 40:
            break
        st.extend(b.succs(x))
    return None


def none_edge_after(b, call_bb):
    rs = shared.result_switch(b, call_bb)
    seen = set(); st = list(rs["ok"]) if rs is not None else [x for x in [b.term(call_bb)["t"]] if x >= 0]
    while st:
        x = st.pop(0)
        if x in seen:
            continue
        seen.add(x)
        t = b.term(x)
        if t["k"] == "switch":
            dl = op_local(t["d"])
            for s_ in b.stmts(x):
                if s_["k"] == "=" and s_["l"]["l"] == dl and s_["r"]["k"] == "discr":
                    ty = b.locals[s_["r"]["p"]["l"]]
                    if ty.startswith("std::option::Option<std::vec::Vec<u8>>"):
                        ts = dict(t["ts"])
                        return ts.get(0, t["o"])
        if len(seen) > 40:
            break
        st.extend(b.succs(x))
    return None


def rule_strand(ctx, R):
    """a woken client that finds the list empty is registered again (the wake-up removed its
    registrations), not left blocked without any registration"""
    fns = wake_path_fns(ctx)
    n = 0
    for fn in sorted(fns):
        b = ctx.prog.bodies.get(fn)
        if b is None or fn.startswith(ENGINE):
            continue
        for i, t in b.calls():
            if callee(t) not in POPS:
                continue
            n += 1
            none = none_edge_after(b, i)
            regs = {j for j, tt in b.calls() if callee(tt) in registration_fns(ctx)}
            unb = set()
            # state changes made through a method of the connection (`conn.mark_authenticated()`)
            for x, tt in b.calls():
                c_ = callee(tt)
                cb_ = ctx.prog.bodies.get(c_) if c_ and c_.startswith("network::connection::Connection::") else None
                if cb_ is not None and any(st_["k"] == "=" and [e for e in st_["l"]["p"] if isinstance(e, dict) and e.get("f") == CONN_STATE] for bb_ in cb_.bbs for st_ in bb_["s"]):
                    unb.add(x)
            for x, bb in enumerate(b.bbs):
                for st in bb["s"]:
                    if st["k"] == "=" and [e for e in st["l"]["p"] if isinstance(e, dict) and e.get("f") == CONN_STATE]:
                        unb.add(x)
            if none is None:
                R.finding(fn, "empty-pop-not-handled:" + callee(t).split("::")[-1], "the None result of the wake-path pop is not distinguished", b.loc(i)); continue
            reach = cfg.fwd(b, [none])
            some = some_edge_after(b, i)
            only_none = reach - (cfg.fwd(b, [some]) if some is not None else set())
            ok = bool(regs & reach) or bool(unb & only_none)
            R.inst(fn, "empty-pop:" + callee(t).split("::")[-1], {"none_edge_reaches_reregistration": bool(regs & reach)})
            # the re-registration covers ALL keys of the blocking call (the connection's
            # BlockedState), not just the key of this wake-up
            for r_ in sorted(regs & reach):
                ka = b.term(r_)["a"][3] if len(b.term(r_)["a"]) > 3 else None
                if ka is None or op_is_const(ka):
                    continue
                P = prov.operand_origins(b, ka, deep=True)
                fields = set(P.fields)
                for f_, bbi in P.via:
                    tt = b.term(bbi)
                    if tt["k"] == "call":
                        for cl in tt["clos"]:
                            pass
                for rr in P.roots:
                    if rr[0] == "call":
                        tt = b.term(rr[2])
                        # keys collected by an iterator chain over blocked.keys
                        for a_ in tt["a"]:
                            if not op_is_const(a_):
                                fields |= set(prov.operand_origins(b, a_, deep=True).fields)
                from_state = any(f.endswith("BlockedState.keys") for f in fields)
                from_wakeup_only = any(f.endswith("WakeupRequest.key") for f in fields) and not from_state
                R.inst(fn, "reregistration-keys:" + callee(t).split("::")[-1], {"from_blocked_state_keys": from_state})
                if not from_state:
                    R.finding(fn, "reregistration:not-all-keys:" + callee(t).split("::")[-1],
                              "the woken client is registered again on %s instead of on all keys of its blocking call (the wake-up removed every registration): elements pushed to its other keys wake nobody and it stays blocked" % ("the notified key only" if from_wakeup_only else "keys that do not come from its BlockedState"), b.loc(r_))
            if not ok:
                R.finding(fn, "empty-pop-strands-client:" + callee(t).split("::")[-1],
                          "a woken client whose element was taken by someone else stays in the Blocked state with no registration left (neither re-registered nor answered): it is never served and never times out", b.loc(i))
            # every way out after the pop -- also its error edge (the key is no longer a list) --
            # answers the client (state store), registers it again, or is the failed-delivery
            # path that pushes the element back (R-BLK-POP owns that one)
            backs = {j for j, tt in b.calls() if callee(tt) in PUSHES}
            rets = [x for x, bb in enumerate(b.bbs) if bb["t"]["k"] == "return"]
            succ = [x for x in b.succs(i)]
            p = cfg.path_avoiding(b, succ, rets, regs | unb | backs)
            R.inst(fn, "pop-exits:" + callee(t).split("::")[-1], {"every_exit_answers_or_reregisters": p is None})
            if p is not None and ok:
                R.finding(fn, "pop-error-strands-client:" + callee(t).split("::")[-1],
                          "after the wake-path pop (line %d) the function can return without answering the client or registering it again (the pop's error edge: the key was deleted and re-created with another type between the push and the wake-up): the client stays Blocked with no registration, is never served and never gets its timeout's nil" % b.bb_line(i),
                          b.loc(i), ["bb%d line %d" % (x, b.bb_line(x)) for x in p][-8:])
            # B: the wake-up dropped ALL registrations of a multi-key waiter; when it finds nothing
            # it must look at its other keys (a push there during the window woke nobody)
            others = set()
            for h, body in cfg.loops(b).items():
                for x in body:
                    tt = b.term(x)
                    if tt["k"] == "call" and (callee(tt) == BM + "notify_key_ready" or callee(tt) in POPS or re.search(r"StorageEngine::(llen|exists|lrange)$", callee(tt))):
                        others.add(x)
            looks = bool(others & reach) if regs & reach else True
            R.inst(fn, "empty-pop-other-keys:" + callee(t).split("::")[-1], {"other_keys_examined_after_reregistration": looks})
            if not looks:
                R.finding(fn, "reregistration:other-keys-not-examined:" + callee(t).split("::")[-1],
                          "a multi-key waiter that finds its notified key empty is registered again without looking at its other keys: the wake-up had removed all its registrations, so an element pushed to another of its keys in between woke nobody and the client stays blocked while that key holds an element", b.loc(i))
            # C: re-registration must give the client its old place back
            for r_ in sorted(regs & reach):
                tgt = callee(b.term(r_))
                appends = []
                for f2 in sorted(ctx.cg.reach([tgt])):
                    b2 = ctx.prog.bodies.get(f2)
                    if b2 is None:
                        continue
                    for j, tt in b2.calls():
                        if re.match(r"^std::collections::VecDeque::<network::blocking::BlockedClient>::push_back$", tt["f"] or ""):
                            appends.append((f2, j))
                R.inst(fn, "reregistration-position:" + callee(t).split("::")[-1], {"via": tgt.split("::")[-1], "appends_at_the_back": bool(appends)})
                if appends:
                    f2, j = appends[0]
                    R.finding(fn, "reregistration:appended-at-the-back:" + callee(t).split("::")[-1],
                              "the woken client whose element was taken is registered again through %s, which appends it at the back of the key's queue (%s): clients that blocked after it are now served before it" % (tgt.split("::")[-1], ctx.prog.bodies[f2].loc(j)), b.loc(r_))
    R.floor("wake_path_pops", n)


def expired_fn(ctx):
    """the registry function that takes the expired clients out: by its recorded name, or -- after
    a rename -- the one function of the registry that takes an Instant and returns connection ids"""
    b = ctx.prog.bodies.get(BR + "get_expired_clients")
    if b is not None:
        return b
    c = [fb for fn, fb in sorted(ctx.prog.bodies.items()) if fn.startswith(BR) and fb.kind != "Closure"
         and any("std::time::Instant" in fb.locals[k] for k in range(1, fb.nargs + 1))
         and ("Vec<u64>" in fb.locals[0] or any("Vec<u64>" in fb.locals[k] for k in range(1, fb.nargs + 1)))]
    if len(c) == 1:
        return c[0]
    return ctx.prog.need(BR + "get_expired_clients")


def rule_unreg(ctx, R):
    """the waiter handed a wake-up loses ALL its registrations under the same registry lock"""
    b0 = ctx.prog.need(BM + "notify_key_ready")
    # the function and the closures it drives (`registries.get(db).and_then(|r| { pop; unregister })`)
    bodies = shared.closure_tree(ctx, b0)
    npops = 0
    for b in bodies:
        pops = [i for i, t in b.calls() if callee(t) == BR + "pop_first_waiter"]
        unr = [i for i, t in b.calls() if callee(t) == BR + "unregister_client"]
        npops += len(pops)
        for i in pops:
            ok = any(u in cfg.fwd(b, [i]) for u in unr)
            if ok:
                # conn id handed to unregister derives from the popped client
                ok = False
                for u in unr:
                    P = prov.operand_origins(b, b.term(u)["a"][1])
                    if P.has_call(r"BlockingRegistry::pop_first_waiter$"):
                        ok = True
            R.inst(b0.fn, "waiter-pop", {"at": b.loc(i), "all_registrations_removed": ok})
            if not ok:
                R.finding(b0.fn, "waiter-pop:other-registrations-left",
                          "the client popped for a wake-up keeps its registrations under its other keys (multi-key BLPOP): they swallow elements pushed to those keys later", b.loc(i))
    R.floor("waiter_pops", npops)
    # timeouts: get_expired_clients removes the client from every key queue it scans and empties
    g = expired_fn(ctx)
    rm = [i for _, i, t in shared.deep_calls(ctx, g) if re.search(r"VecDeque::<network::blocking::BlockedClient>::(remove|retain|drain|swap_remove_back|swap_remove_front|retain_mut)", t["f"] or "")]
    it = [i for _, i, t in shared.deep_calls(ctx, g) if re.search(r"HashMap::<std::vec::Vec<u8>, std::collections::VecDeque<network::blocking::BlockedClient>>::(iter_mut|values_mut|retain)", t["f"] or "")]
    R.inst(g.fn, "timeout-removal", {"iterates_all_keys": bool(it), "removes_from_queue": bool(rm)})
    if not (rm and it):
        R.finding(g.fn, "timeout-removal:incomplete", "expired clients are not removed from every key queue", g.loc())


def rule_notify(ctx, R):
    """every dispatcher arm that can grow a list notifies blocked clients of that key"""
    arms = rules_cmd.dispatch_arms(ctx)
    pb = ctx.prog.need(PNC)
    grow = set(PUSHES)
    n = 0
    for name, a in sorted(arms.items()):
        if not (a["reach"] & grow):
            continue
        n += 1
        notif = any(c == BM + "notify_key_ready" for _, c in a["calls"]) or (BM + "notify_key_ready" in a["reach"])
        via_script = name in ("EVAL", "EVALSHA")
        R.inst(PNC, "grow:" + name, {"command": name, "notifies": notif})
        if not notif:
            R.finding(PNC, "arm:%s:push-without-notify" % name,
                      "%s can push onto a list but its arm never notifies clients blocked on that key%s: they stay blocked although an element is available" % (name, " (pushes made by a script)" if via_script else ""),
                      "%s:%d" % (pb.file, pb.bb_line(min(a["region"]))))
        elif not via_script:
            # one wake-up per pushed element: the notify sits in a loop or the arm pushes one element
            reg = a["region"]
            nb = [i for i in reg if pb.term(i)["k"] == "call" and callee(pb.term(i)) == BM + "notify_key_ready"]
            inloop = any(i in body for i in nb for h, body in cfg.loops(pb).items() if h in reg)
            R.inst(PNC, "grow-multi:" + name, {"notify_in_loop": inloop})
            if not inloop:
                R.finding(PNC, "arm:%s:single-notify-for-multi-push" % name,
                          "%s pushes several elements but wakes at most one blocked client: a second client blocked on the key stays blocked although an element nobody pops is in the list" % name,
                          pb.loc(nb[0]) if nb else pb.loc())
        if notif and not via_script:
            # whether to wake may depend on "something was pushed" (count > 0), never on how long
            # the list is afterwards: between a notify and the wake-up being processed the list is
            # non-empty while other clients are still blocked on it
            reg = a["region"]
            nb = [i for i in reg if pb.term(i)["k"] == "call" and callee(pb.term(i)) == BM + "notify_key_ready"]
            hs = [i for i in reg if pb.term(i)["k"] == "call" and (ctx.cg.reach([callee(pb.term(i))]) & grow or callee(pb.term(i)) in grow)]
            reach_n = cfg.bwd(pb, nb)
            k = 0
            for x in sorted(reg):
                t = pb.term(x)
                if t["k"] != "switch" or op_is_const(t["d"]) or pb.locals[op_place(t["d"])["l"]] != "bool":
                    continue
                tg = set(pb.succs(x))
                if not (tg & reach_n) or not (tg - reach_n) or not any(x in cfg.fwd(pb, [h]) for h in hs):
                    continue
                cmp_ = _bool_comparison(pb, x, op_place(t["d"])["l"])
                if cmp_ is None:
                    continue
                ops = [cmp_["a"], cmp_["b"]]
                from_push = [o for o in ops if not op_is_const(o) and any(r[0] == "call" and r[2] in hs for r in prov.operand_origins(pb, o, deep=True).roots)]
                if not from_push:
                    continue
                other = [o for o in ops if o not in from_push]
                zero = [o for o in other if op_is_const(o) and const_int(o) in (0, 1)]
                ok = len(from_push) == 1 and len(zero) == 1 and not (const_int(zero[0]) == 1 and cmp_["op"] not in ("Ge", "Lt"))
                R.inst(PNC, "notify-guard:%s#%d" % (name, k), {"command": name, "at": pb.loc(x), "compares_push_result_with": "constant 0" if ok else "something else"})
                if not ok:
                    R.finding(PNC, "arm:%s:notify-depends-on-list-length" % name,
                              "%s wakes blocked clients only if the length the push returned passes a test other than `> 0` (line %d): while a wake-up is pending the list is non-empty and other clients are still blocked on it, so a second push wakes nobody and they stay blocked although elements are available" % (name, pb.bb_line(x)), pb.loc(x))
                k += 1
    R.floor("list_growing_arms", n)


def _bool_comparison(b, bbi, l, depth=0):
    """the comparison statement a switched bool comes from (through copies / negation)"""
    if depth > 4:
        return None
    for kind, db, x in prov.build_defs(b).get(l, ()):
        if kind != "stmt" or x["l"]["p"]:
            continue
        r = x["r"]
        if r["k"] == "bin" and r["op"] in ("Lt", "Le", "Gt", "Ge", "Eq", "Ne"):
            return r
        if r["k"] in ("use", "un") and not op_is_const(r["o"]) and not op_place(r["o"])["p"]:
            c = _bool_comparison(b, db, op_place(r["o"])["l"], depth + 1)
            if c:
                return c
    return None


def rule_regpair(ctx, R):
    n = 0
    adt = ctx.prog.adts.get("network::blocking::BlockingRegistry")
    fields = [f[0] for f in (adt["variants"][0]["f"] if adt and adt.get("variants") else [])]
    has_keyset = "blocked_keys" in fields or not fields
    if not has_keyset:
        R.note("BlockingRegistry has no separate key set any more (fields: %s): the two-index pairing obligation is void" % fields)
    for fn, b in sorted(ctx.prog.bodies.items()):
        if not has_keyset:
            break
        if not fn.startswith(BR) or b.kind == "Closure":
            continue
        def ops(field, rx):
            out = []
            for i, t in b.calls():
                if re.search(rx, t["f"] or "") and t["a"]:
                    P = prov.operand_origins(b, t["a"][0])
                    if any(f.endswith("BlockingRegistry." + field) for f in P.fields):
                        out.append(i)
            return out
        q_add = ops("blocked_on_key", r"HashMap::<.*>::(entry|insert)$")
        q_del = ops("blocked_on_key", r"HashMap::<.*>::remove(::<.*>)?$")
        k_add = ops("blocked_keys", r"HashSet::<.*>::insert$")
        k_del = ops("blocked_keys", r"HashSet::<.*>::remove(::<.*>)?$")
        if not (q_add or q_del or k_add or k_del):
            continue
        n += 1
        R.inst(fn, "index-pair", {"queue_add": len(q_add), "keyset_add": len(k_add), "queue_del": len(q_del), "keyset_del": len(k_del)})
        if bool(q_add) != bool(k_add):
            R.finding(fn, "index-pair:add", "blocked_on_key and blocked_keys are not extended together", b.loc())
        if bool(q_del) != bool(k_del):
            R.finding(fn, "index-pair:remove", "blocked_on_key and blocked_keys are not shrunk together", b.loc())
    if has_keyset:
        R.floor("registry_methods", n)
    for h in ("handle_blpop", "handle_brpop"):
        b = ctx.prog.need(SERVER + h)
        reg = [i for i, t in b.calls() if callee(t) in registration_fns(ctx)]
        st = [i for i, t in b.calls() if any(stores_blocked(ctx, c) for c in t["clos"])]
        R.inst(b.fn, "register+state", {"register_blocked": len(reg), "state_blocked_store": len(st)})
        if bool(reg) != bool(st) or not reg:
            R.finding(b.fn, "register-without-state", "registration with the blocking manager and the Blocked connection state are not set together", b.loc())


def stores_blocked(ctx, cl):
    b = ctx.prog.bodies.get(cl)
    if b is None:
        return False
    return any(st["k"] == "=" and st["r"]["k"] == "agg" and st["r"]["a"] == "network::connection::ConnectionState::Blocked" for bb in b.bbs for st in bb["s"])


CLEANUPS = (BM + "unregister_client", "pubsub::PubSubManager::unsubscribe_all", "monitor::MonitorSubscribers::unsubscribe")


def rule_disc_sib(ctx, R):
    """every site that removes a connection performs the same clean-up set"""
    sites = []
    for fn, b in ctx.prog.bodies.items():
        if not fn.startswith(SERVER) or b.kind == "Closure":
            continue
        for i, t in b.calls():
            if callee(t) == "network::server::ShardedConnections::remove":
                sites.append((fn, b, i))
    R.floor("connection_removal_sites", len(sites))
    for fn, b, i in sites:
        after = cfg.fwd(b, [i])
        have = {c for x in after if b.term(x)["k"] == "call" for c in [callee(b.term(x))] if c in CLEANUPS}
        missing = [c.split("::")[-2] + "::" + c.split("::")[-1] for c in CLEANUPS if c not in have]
        R.inst(fn, "removal-cleanup", {"function": fn, "at": b.loc(i), "missing": missing})
        for m in missing:
            R.finding(fn, "removal-cleanup:missing:" + m,
                      "%s removes a connection without %s: its registrations outlive it (a dead blocked client swallows elements / a dead subscriber keeps counting)" % (fn.split("::")[-1], m), b.loc(i))


def rule_eof(ctx, R):
    """blocked connections are still polled for disconnect: the set of connections processed per
    loop iteration is not filtered by the Blocked state"""
    b = ctx.prog.need(SERVER + "process_connections")
    n = 0
    for i, t in b.calls():
        if re.search(r"Iterator>::filter", t["f"] or "") and t["clos"]:
            for cl in t["clos"]:
                reach = ctx.cg.reach([cl])
                tests_blocked = False
                for f in reach:
                    fb = ctx.prog.bodies.get(f)
                    if fb is None:
                        continue
                    dv = ctx.prog.variant_discr("network::connection::ConnectionState", "Blocked")
                    for bb in fb.bbs:
                        tt = bb["t"]
                        if tt["k"] == "switch" and dv in dict(tt["ts"]):
                            for st in bb["s"]:
                                if st["k"] == "=" and st["r"]["k"] == "discr" and (CONN_STATE in [e.get("f") for e in st["r"]["p"]["p"] if isinstance(e, dict)] or CONN_STATE in prov.origins(fb, st["r"]["p"]["l"]).fields):
                                    tests_blocked = True
                n += 1
                R.inst(b.fn, "connection-filter", {"at": b.loc(i), "filters_on_blocked_state": tests_blocked})
                if tests_blocked:
                    R.finding(b.fn, "blocked-connections-never-read",
                              "connections in the Blocked state are excluded from reading: a client that disconnects while blocked is not noticed, and the next element pushed to its key is popped for it and lost", b.loc(i))
    R.note("filters over the connection id list: %d" % n)



ORDER_KEEPING = re.compile(r"::(push_back|pop_front|remove|retain|retain_mut|drain|clear|iter|iter_mut|len|is_empty|front|front_mut|get|get_mut|back|with_capacity|new|contains|position|extend)(::<.*>)?$")


def rule_fifo(ctx, R):
    """blocked clients are served in the order they blocked: the per-key waiter queue is appended
    at the back, served from the front and otherwise edited only by order-preserving operations
    (remove / retain / drain).  swap_remove_*, push_front, insert, sort*, reverse, rotate*,
    make_contiguous().sort() ... change who is next."""
    n = 0
    for fn, b in sorted(ctx.prog.bodies.items()):
        if not fn.startswith("network::blocking::") or "::tests::" in fn:
            continue
        for i, t in b.calls():
            f = t["f"] or ""
            m = re.match(r"^std::collections::VecDeque::<network::blocking::BlockedClient>::(\w+)", f)
            if not m or b.bbs[i].get("cleanup"):
                continue
            n += 1
            ok = bool(ORDER_KEEPING.search(f))
            if not ok and m.group(1) == "insert" and len(t["a"]) > 2:
                # insertion at the place the arrival time gives: the index comes from a search
                # (position / partition_point / binary_search_by) whose closure compares blocked_at
                P = prov.operand_origins(b, t["a"][1], deep=True)
                # ... whatever adaptor computes the index (position / partition_point /
                # take_while(..).count() / binary_search_by ...): one of the calls it derives
                # from runs a closure that reads blocked_at
                for bbi_ in {r_[2] for r_ in P.roots if r_[0] == "call"} | {bb_ for _, bb_ in P.via}:
                    tt_ = b.term(bbi_)
                    if tt_["k"] != "call":
                        continue
                    for cl in tt_.get("clos") or ():
                        cb = ctx.prog.bodies.get(cl)
                        if cb is None:
                            continue
                        for bb_ in cb.bbs:
                            for st_ in bb_["s"]:
                                if st_["k"] != "=":
                                    continue
                                pls = []
                                if st_["r"]["k"] in ("ref", "discr"):
                                    pls.append(st_["r"]["p"])
                                elif st_["r"]["k"] in ("use", "cast") and not op_is_const(st_["r"]["o"]):
                                    pls.append(op_place(st_["r"]["o"]))
                                if any(isinstance(e, dict) and e.get("f") == "network::blocking::BlockedClient.blocked_at" for pl in pls for e in pl["p"]):
                                    ok = True
            R.inst(fn, "waiter-queue-op:" + m.group(1), {"function": fn, "op": m.group(1), "order_preserving": ok} if not ok or n % 3 == 0 else None)
            if not ok:
                R.finding(fn, "waiter-queue:%s" % m.group(1),
                          "%s edits a key's waiter queue with VecDeque::%s (line %d), which does not keep the arrival order: a client that blocked later can be served before one that blocked earlier" % (fn.split("::")[-1], m.group(1), b.bb_line(i)), b.loc(i))
    R.floor("waiter_queue_operations", n)


def rule_unreg_all(ctx, R):
    """`BLPOP k k k 0` registers the client once per key argument, so a key's queue can hold a
    client several times: every function that takes a client out of a key's queue by connection
    id removes ALL its entries (retain / drain-filter, or a removal inside a loop that searches
    again), otherwise a stale entry survives the call it belonged to and swallows a later element
    or times out a later blocking call"""
    n = 0
    for nm in ("unregister_client",):
        b0 = ctx.prog.need(BR + nm)
        # the function and the closures it drives (`blocked_on_key.retain(|_, clients| { .. })`)
        bodies = shared.closure_tree(ctx, b0)
        allrem = []
        for b in bodies:
            for i, t in b.calls():
                m = re.match(r"^std::collections::VecDeque::<network::blocking::BlockedClient>::(\w+)", t["f"] or "")
                if m and m.group(1) in ("remove", "swap_remove_back", "swap_remove_front", "pop_front", "pop_back", "retain", "retain_mut", "drain"):
                    allrem.append((b, i, m.group(1)))
        for b, i, op in allrem:
            lps = cfg.loops(b)
            n += 1
            ok = op in ("retain", "retain_mut")
            if not ok:
                # a single-entry removal is fine only inside a loop that looks for the client again
                # (the search call -- position / iter().position -- is in the same loop)
                for h, body in lps.items():
                    if i in body and any(re.search(r"Iterator>::position(::<.*>)?$|::position$", b.term(x)["f"] or "") for x in body if b.term(x)["k"] == "call"):
                        # the loop must be per client entry, not the loop over keys: its head is
                        # reached again after the removal without leaving the key's queue
                        inner = min((bd for hh, bd in lps.items() if i in bd), key=len)
                        walks_keys = any(re.search(r"hash_map::(IterMut|Iter|ValuesMut|Values)<.*> as std::iter::Iterator>::next$", b.term(x)["f"] or "") for x in inner if b.term(x)["k"] == "call")
                        if not walks_keys and any(re.search(r"position", b.term(x)["f"] or "") for x in inner if b.term(x)["k"] == "call"):
                            ok = True
            R.inst(b.fn, "queue-removal:" + op, {"function": nm, "op": op, "removes_every_entry_of_the_client": ok})
            if not ok:
                R.finding(b.fn, "queue-removal:%s:first-entry-only" % op,
                          "%s takes the client out of a key's queue with VecDeque::%s (line %d), which removes one entry; a client that named the key several times in one BLPOP keeps a stale registration" % (nm, op, b.bb_line(i)), b.loc(i))
    R.floor("queue_removals_by_connection_id", n)


def rule_timeout_scan(ctx, R):
    """`receives nil no earlier than its timeout`, and does receive it: the timeout pass looks at
    every registry on every call.  It may return without looking only under a cached-deadline
    test, and then every write of that cache must be derived from the deadlines of the clients
    that are (still) blocked: a cache that is reset after a pass, instead of recomputed, forgets the
    later deadlines and those clients are never answered"""
    b = ctx.prog.need(BM + "process_timeouts")
    ex = expired_fn(ctx).fn
    scans = {i for i, t in b.calls() if callee(t) == ex or ex in ctx.cg.reach([callee(t)] + list(t.get("clos") or []))}
    R.floor("registry_scans_in_timeout_pass", len(scans))
    heads = {h for h, body in cfg.loops(b).items() if body & scans}
    p = cfg.path_avoiding(b, [0], b.exits(), scans | heads)
    R.inst(b.fn, "timeout-pass", {"returns_without_scanning": p is not None})
    if p is None:
        return
    # cached Instant state of the manager read here
    adt = ctx.prog.adts.get("network::blocking::BlockingManager")
    fields = [f[0] for f in (adt["variants"][0]["f"] if adt else []) if "Instant" in f[1]]
    if not fields:
        R.finding(b.fn, "timeout-pass:scan-skipped", "process_timeouts can return (line %d) without scanning the registries and without a cached deadline deciding it: blocked clients past their timeout are not answered" % b.bb_line(p[-1]), b.loc(p[-1]))
        return
    for f in fields:
        fq = "network::blocking::BlockingManager." + f
        bad = None; nst = 0
        for fn, fb in sorted(ctx.prog.bodies.items()):
            if not fn.startswith("network::blocking::") or "::tests::" in fn:
                continue
            for x, bb in enumerate(fb.bbs):
                if bb.get("cleanup"):
                    continue
                for st in bb["s"]:
                    if st["k"] != "=" or "*" not in st["l"]["p"]:
                        continue
                    P = prov.origins(fb, st["l"]["l"])
                    if fq not in P.fields:
                        continue
                    if fn.endswith("::new") or fn.endswith("::default"):
                        continue
                    nst += 1
                    r = st["r"]
                    V = prov.operand_origins(fb, r["o"], deep=True) if r["k"] == "use" and not op_is_const(r["o"]) else None
                    derived = V is not None and (bool(V.params() - {1}) or any("deadline" in x_.lower() or "timeout" in x_.lower() for x_ in V.fields) or V.has_call(r"Iterator>::(min|min_by|min_by_key|fold)|::min$"))
                    if (r["k"] == "agg" and r["a"].endswith("Option::None")) or (V is not None and V.roots and all(rt[0] == "const" or (rt[0] == "agg" and rt[1].endswith("Option::None")) for rt in V.roots)):
                        derived = False
                    if not derived and bad is None:
                        bad = (fn, fb, x)
        R.inst(b.fn, "deadline-cache:" + f, {"field": f, "stores": nst, "all_derived_from_blocked_clients_deadlines": bad is None})
        if bad:
            fn, fb, x = bad
            R.finding(fn, "deadline-cache:%s:not-recomputed" % f,
                      "%s writes the cached deadline `%s` (line %d) with a value that is not derived from the deadlines of the blocked clients (a reset): process_timeouts skips its scan while the cache says nothing is due, so every client whose deadline was later than the one just served is never timed out" % (fn.split("::")[-1], f, fb.bb_line(x)), fb.loc(x))


# ---- R-BLK-FOREVER --------------------------------------------------------------------------------
_DUR_CTOR = re.compile(r"^std::time::Duration::(try_from_secs_f64|from_secs_f64|try_from_secs_f32|from_secs_f32|from_secs|from_millis|from_micros|from_nanos|new)$")
_PARSE_NUM = re.compile(r"^core::str::<impl str>::parse::<(f64|f32|u64|i64|u32|i32|usize|isize|u128|i128)>$|atoi|atof|from_str")


def _zero_const(o):
    if not op_is_const(o):
        return False
    c = o.get("c", "")
    return bool(re.match(r"^(const )?-?0(\.0+)?(_?(f64|f32|u64|i64|u32|i32|usize|isize|u8|i8|u16|i16))?$", c)) or o.get("v") == "0"


def forever_sites(b):
    """[(block, ctor name, [parse blocks], reachable_without_nonzero_test, witness)] for every Duration
    built in b from a number parsed in b"""
    import boolpath
    out = []
    parses = {i for i, t in b.calls() if _PARSE_NUM.search(t["f"] or "")}
    if not parses:
        return out
    for i, t in b.calls():
        if not _DUR_CTOR.match(t["f"] or "") or b.bbs[i]["cleanup"] or not t["a"] or op_is_const(t["a"][0]):
            continue
        P = prov.operand_origins(b, t["a"][0], deep=True)
        src = {r[2] for r in P.roots if r[0] == "call" and r[2] in parses}
        if not src:
            continue

        def from_src(o, src=src):
            if op_is_const(o):
                return False
            Q = prov.operand_origins(b, o, deep=True)
            return any(r[0] == "call" and r[2] in src for r in Q.roots)

        class Z(boolpath.Spec):
            def stmt(self, b_, bbi, st):
                r = st["r"]
                if r["k"] != "bin" or r.get("op") not in ("Eq", "Ne", "Gt", "Lt", "Le", "Ge"):
                    return None
                a_, c_ = r["a"], r["b"]
                op = r["op"]
                if _zero_const(a_) and from_src(c_):
                    a_, c_ = c_, a_
                    op = {"Gt": "Lt", "Lt": "Gt", "Le": "Ge", "Ge": "Le"}.get(op, op)
                elif not (_zero_const(c_) and from_src(a_)):
                    return None
                # x OP 0
                return {"Eq": boolpath.N, "Ne": boolpath.A, "Gt": boolpath.A, "Le": boolpath.N}.get(op)

            def edges(self, b_, bbi, tt):
                if op_is_const(tt["d"]) or not from_src(tt["d"]) or tt.get("dty") in ("bool", "isize"):
                    return ()
                ts = dict(tt["ts"])
                if 0 not in ts:
                    return ()
                return tuple(x for x in [v for k_, v in tt["ts"] if k_ != 0] + [tt["o"]] if x != ts[0])
        ex = boolpath.explore(b, Z(), starts=[b.term(s)["t"] for s in src if b.term(s)["t"] >= 0])
        bad = i in ex.reached
        out.append((i, t["f"].split("::")[-1], sorted(src), bad, ex.witness(b, i) if bad else []))
    return out


def rule_forever(ctx, R):
    """`never, when it asked to wait forever`: a timeout of zero -- in every spelling the parser
    accepts -- means no deadline.  In the functions behind BLPOP/BRPOP every Duration built from
    the client's parsed timeout is reachable only through a test that the parsed number is not
    zero (path-sensitive: `== 0` false edge, `!= 0` / `> 0` true edge, a switch on the integer);
    otherwise some spelling of zero registers a deadline of `now` and the next timeout scan
    answers nil."""
    import boolpath
    arms = rules_cmd.dispatch_arms(ctx)
    reach = set()
    for nm in ("BLPOP", "BRPOP", "BLMOVE", "BRPOPLPUSH", "BZPOPMIN", "BZPOPMAX"):
        a = arms.get(nm)
        if a:
            reach |= a["reach"]
    n = 0
    for fn in sorted(reach):
        b = ctx.prog.bodies.get(fn)
        if b is None or not fn.startswith("network::") or "::tests::" in fn:
            continue
        try:
            sites = forever_sites(b)
        except boolpath.TooManyStates as e:
            R.broken.append(str(e)); continue
        for i, nm, src, bad, wit in sites:
            n += 1
            R.inst(fn, "timeout-duration:%s" % nm, {"function": fn, "at": b.loc(i), "parsed_at": [b.loc(s) for s in src], "reachable_without_a_nonzero_test": bad})
            if bad:
                R.finding(fn, "timeout-duration:%s:zero-not-excluded" % nm,
                          "%s turns the client's parsed timeout into a Duration (line %d) on a path with no test that the number is not zero: a spelling of zero that takes this path (0.0, 0e0, -0) becomes a deadline of `now` instead of `wait forever`, and the blocked client is answered nil by the next timeout scan" % (fn.split("::")[-1], b.bb_line(i)),
                          b.loc(i), ["bb%d line %d" % (x, b.bb_line(x)) for x in wit][-8:])
    R.floor("timeout_duration_constructions", n)


# ---- R-BLK-PIPELINE -------------------------------------------------------------------------------
def rule_pipeline(ctx, R):
    """a client that is blocked executes nothing: in the loop that executes the frames of one read,
    every call of process_frame is dominated, inside the loop, by a test of the connection's
    Blocked state one of whose edges leaves the loop (the rest of the batch waits until the
    client is served or timed out).  Otherwise the commands pipelined behind a BLPOP run while it
    blocks: a second blocking pop overwrites the first one's state and is never answered, a nil
    from the first timeout releases a later infinite wait."""
    n = 0
    pf = SERVER + "process_frame"
    for fn, b in sorted(ctx.prog.bodies.items()):
        if not fn.startswith("network::server::") or "::tests::" in fn:
            continue
        for h, body in sorted(cfg.loops(b).items()):
            calls = [i for i in body if b.term(i)["k"] == "call" and callee(b.term(i)) == pf and not b.bbs[i]["cleanup"]]
            if not calls:
                continue
            n += 1
            # blocked tests in the loop: a bool call into a function that matches on the Blocked
            # state (is_connection_blocked and friends), or a state match in this body
            tests = set()
            for i in body:
                t = b.term(i)
                if t["k"] == "call" and (b.locals[t["d"]["l"]] or "").endswith("bool"):
                    tgt = [callee(t)] + list(t.get("clos") or [])
                    for f2 in tgt:
                        for f3 in [f2] + sorted(ctx.cg.reach([f2]) if f2 in ctx.prog.bodies else []):
                            b3 = ctx.prog.bodies.get(f3)
                            if b3 is not None and f3.startswith("network::") and blocked_test_regions(ctx, b3):
                                tests.add(i); break
            guarded = False
            for c in calls:
                for x in tests:
                    if not cfg.dominates(b, x, c):
                        continue
                    sw = shared._follow_to_switch(b, b.term(x)["t"], b.term(x)["d"]["l"])
                    if sw and any(y not in body or c not in cfg.fwd(b, [y]) - {h} for y in [v for _, v in sw[1]["ts"]] + [sw[1]["o"]]):
                        guarded = True
            R.inst(fn, "frame-loop", {"function": fn, "loop_at": b.loc(h), "process_frame_calls": len(calls), "blocked_tests_in_loop": len(tests), "execution_stops_when_blocked": guarded})
            if not guarded:
                R.finding(fn, "frame-loop:executes-while-blocked",
                          "%s executes every frame of a read in one loop (line %d) without testing whether an earlier frame of the batch left the connection blocked: commands pipelined behind a BLPOP/BRPOP run while the client is blocked" % (fn.split("::")[-1], b.bb_line(h)), b.loc(h))
    R.floor("frame_execution_loops", n)


# ---- R-BLK-TIMEOUT-REPLY --------------------------------------------------------------------------
def rule_timeout_reply(ctx, R):
    """a timed-out client is answered once: the expired list names a client once per key it
    waited on, so the nil reply (like the state change) is sent only under a still-Blocked test
    of the connection -- the first entry answers and un-blocks, the others find it un-blocked."""
    b0 = ctx.prog.need(SERVER + "process_blocked_timeouts")
    n = 0
    for body in shared.closure_tree(ctx, b0):
        sends = [i for i, t in body.calls() if callee(t) == "network::connection::Connection::send_frame" and not body.bbs[i]["cleanup"]]
        if not sends:
            continue
        blk = blocked_test_regions(ctx, body)
        for i in sends:
            n += 1
            ok = i in blk
            R.inst(b0.fn, "timeout-reply", {"at": body.loc(i), "under_still_blocked_test": ok})
            if not ok:
                R.finding(b0.fn, "timeout-reply:not-under-blocked-test",
                          "the timeout pass sends its nil reply (line %d) outside the still-Blocked test: a client that waited on N keys is listed N times and gets N replies for one command, which shifts every later reply on the connection" % body.bb_line(i), body.loc(i))
    R.floor("timeout_replies", n)


# ---- R-BLK-EXPIRE-ALL -----------------------------------------------------------------------------
def expiry_selection(ctx, g):
    """[(body, membership tests, selection sites, offending block or None)] for the expiry function g"""
    import boolpath
    SEL = r"Vec::<usize>::push$|VecDeque::<usize>::push_back$|VecDeque::<.*BlockedClient>::(remove|swap_remove_back|swap_remove_front|drain|retain|retain_mut|pop_front|pop_back|truncate)"
    MEM = r"(slice::<impl \[u64\]>|Vec::<u64>|HashSet::<u64>|BTreeSet::<u64>|VecDeque::<u64>)::(contains|insert|binary_search|get)(::<.*>)?$"
    out = []
    for body in shared.closure_tree(ctx, g):
        sels = [i for i, t in body.calls() if re.search(SEL, t["f"] or "") and not body.bbs[i]["cleanup"]]
        tests = [i for i, t in body.calls() if re.search(MEM, t["f"] or "") and body.locals[t["d"]["l"]] == "bool"]
        pred = body.kind == "Closure" and body.locals[0] == "bool"      # a retain predicate: its answer selects
        bad = None
        if tests and (sels or pred):
            base = boolpath.explore(body, boolpath.Spec(), cap=100000)
            for kind in (boolpath.A, boolpath.N):
                class _S(boolpath.Spec):
                    def call(self, b_, bbi, t, kind=kind, tests=set(tests)):
                        return kind if bbi in tests else None
                ex = boolpath.explore(body, _S(), cap=100000)
                ctl = [s for s in sels if s in base.reached and s not in ex.reached]
                if ctl:
                    bad = ctl[0]
                if pred and (ex.ret_vals & {boolpath.A, boolpath.N}):
                    bad = tests[0]
        out.append((body, tests, sels + ([-1] if pred else []), bad))
    return out


def rule_expire_all(ctx, R):
    """every registration of a timed-out client leaves its queue in the same pass: which entries
    the expiry function takes out is decided by the deadline alone, never by a membership test on
    ids (the list of clients already collected, a seen-set).  A client waiting on several keys is
    listed once per key; skipping `already collected` entries leaves its other registrations
    behind -- they expire on a later pass and cut short, or answer nil to, whatever blocking call
    the client has made since.  (Reporting a client once is fine: a membership test may guard the
    push into the result, not the selection / removal.)"""
    import boolpath
    g = expired_fn(ctx)
    nsel = 0; ntests = 0
    try:
        res = expiry_selection(ctx, g)
    except boolpath.TooManyStates as e:
        R.broken.append(str(e)); return
    for body, tests, sels, bad in res:
        nsel += len(sels); ntests += len(tests)
        if not tests:
            continue
        R.inst(g.fn, "expiry-selection:" + body.fn.split("::")[-1], {"body": body.fn, "membership_tests_on_ids": len(tests), "selection_sites": len(sels), "selection_depends_on_a_membership_test": bad is not None})
        if bad is not None:
            R.finding(g.fn, "expiry-selection:depends-on-ids-already-collected",
                      "%s decides which queue entries to take out (line %d) under a membership test on connection ids: an expired client that was already collected under another key keeps its other registrations, which time out later and answer nil to a blocking call made since" % (g.fn.split("::")[-1], body.bb_line(bad)), body.loc(bad))
    R.inst(g.fn, "expiry-selection", {"function": g.fn, "selection_sites": nsel, "membership_tests_on_ids": ntests})
    R.floor("expiry_selection_sites", nsel)
