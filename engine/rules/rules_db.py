"""C18 rules: R-DB-1 (no constant database), R-DB-3 (own db parameter is passed on), R-DB-DROP (a
callee does not re-derive a database its caller already determined), R-DB-SELECT."""
import re
from facts import callee, op_local, op_place, op_is_const, const_int
import cfg, shared, prov
from shared import SERVER, ENGINE

PT = re.compile(prov.PASS_THROUGH.pattern[:-1] +
                r"|^std::option::Option::<.*>::(unwrap_or|or|or_else|unwrap_or_else|map|and_then|filter)(::<.*>)?$)")
DB_FIELDS = ("network::connection::Connection.db_index", "storage::commands::executor::ConnectionContext.db_index",
             "storage::commands::executor::ParsedCommand.db_override", "network::blocking::WakeupRequest.db",
             "network::connection::BlockedState.keys")
DB_NAME = re.compile(r"^(db|db_index|db_idx|db_id|database)$")


def _field_type(ctx, f):
    adt, fld = f.rsplit(".", 1)
    a = ctx.prog.adts.get(adt)
    if a:
        for v in a["variants"]:
            for fn_, fty in v["f"]:
                if fn_ == fld:
                    return fty
    return None


def _is_db_type(ty):
    return ty in ("usize", "std::option::Option<usize>")


def _closure_read_fields(ctx, cl):
    out = set()
    b = ctx.prog.bodies.get(cl)
    if b is None:
        return out
    for bb in b.bbs:
        for st in bb["s"]:
            if st["k"] == "=":
                r = st["r"]
                pls = []
                if r["k"] in ("use", "cast") and not op_is_const(r["o"]):
                    pls.append(op_place(r["o"]))
                if r["k"] in ("ref",):
                    pls.append(r["p"])
                for pl in pls:
                    for e in pl["p"]:
                        if isinstance(e, dict) and "f" in e and "::" in e["f"]:
                            out.add(e["f"])
    return out


def _origins_with_closures(ctx, b, a):
    P = prov.operand_origins(b, a, pass_through=PT)
    fields = set(P.fields)
    for f, bbi in P.via:
        t = b.term(bbi)
        if t["k"] == "call":
            for cl in t["clos"]:
                fields |= _closure_read_fields(ctx, cl)
    for r in P.roots:
        if r[0] == "call":
            t = b.term(r[2])
            if t["k"] == "call":
                for cl in t["clos"]:
                    fields |= _closure_read_fields(ctx, cl)
    return P, fields


def _upvar_index(root):
    import json
    try:
        pr = json.loads(root[1])
    except Exception:
        return None
    for e in pr:
        if isinstance(e, dict) and "f" in e:
            try:
                return int(e["f"])
            except ValueError:
                return None
    return None


def db_flow(ctx):
    """(dbp, dbfields, dbupvars): parameters, struct fields and closure captures that carry a
    database index -- inferred by backward flow from the storage engine's db position (seeded by
    ENGINE-API param 2 and BlockingManager's db parameters), through struct fields and captures"""
    def compute():
        dbp = {}; dbfields = set(DB_FIELDS); dbup = {}
        for fn in shared.engine_api(ctx.prog):
            dbp[fn] = {2}
        for fn, b in ctx.prog.bodies.items():
            if fn.startswith("network::blocking::BlockingManager::") and b.kind != "Closure":
                for p in range(1, b.nargs + 1):
                    if b.locals[p] == "usize" and DB_NAME.match(b.names.get(p, "")):
                        dbp.setdefault(fn, set()).add(p)
        changed = True; rounds = 0
        while changed and rounds < 15:
            changed = False; rounds += 1
            for fn, b in ctx.prog.bodies.items():
                if "::tests::" in fn:
                    continue
                for (bbi, a, why) in db_positions(ctx, b, dbp, dbfields, dbup):
                    if op_is_const(a):
                        continue
                    P, fields = _origins_with_closures(ctx, b, a)
                    for p in P.params():
                        if b.kind == "Closure" and p == 1:
                            continue
                        if b.locals[p] == "usize" and p not in dbp.get(fn, ()):
                            dbp.setdefault(fn, set()).add(p); changed = True
                    for f in fields:
                        if f not in dbfields and "::" in f and _is_db_type(_field_type(ctx, f)):
                            dbfields.add(f); changed = True
                    if b.kind == "Closure":
                        for r in P.roots:
                            if r[0] == "upvar":
                                k = _upvar_index(r)
                                if k is not None and k not in dbup.get(fn, ()):
                                    dbup.setdefault(fn, set()).add(k); changed = True
        return dbp, dbfields, dbup
    return ctx.memo("db_flow", compute)


def db_positions(ctx, b, dbp, dbfields, dbup):
    """operands in b that are used as a database index: (bb, operand, description)"""
    out = []
    for i, t in b.calls():
        g = callee(t)
        for q in sorted(dbp.get(g, ())):
            if q - 1 < len(t["a"]):
                out.append((i, t["a"][q - 1], "arg:" + g.split("::")[-1]))
    for i, bb in enumerate(b.bbs):
        if bb["cleanup"]:
            continue
        for st in bb["s"]:
            if st["k"] != "=":
                continue
            r = st["r"]
            if r["k"] == "agg":
                a = r["a"]
                if a.startswith("closure:"):
                    for k in sorted(dbup.get(a[8:], ())):
                        if k < len(r["o"]):
                            out.append((i, r["o"][k], "capture:" + a[8:].split("::")[-1]))
                elif "fs" in r:
                    adt = a.rsplit("::", 1)[0]
                    for k, fname in enumerate(r["fs"]):
                        if "%s.%s" % (adt, fname) in dbfields and k < len(r["o"]):
                            out.append((i, r["o"][k], "field-init:%s.%s" % (adt.split("::")[-1], fname)))
            fs = [e["f"] for e in st["l"]["p"] if isinstance(e, dict) and "f" in e]
            if fs and fs[-1] in dbfields and r["k"] == "use":
                out.append((i, r["o"], "field-store:" + fs[-1].split("::")[-1]))
    return out


def db_params(ctx):
    return db_flow(ctx)[0]


def classify_db_operand(ctx, b, a):
    """-> (classes, detail): classes subset of {param, const, field, iter, upvar, other}"""
    if op_is_const(a):
        return {"const"}, a["c"]
    dbp, dbfields, dbup = db_flow(ctx)
    P, fields = _origins_with_closures(ctx, b, a)
    cl = set(); det = []
    for r in P.roots:
        if r[0] == "param":
            if b.kind == "Closure" and r[1] == 1:
                continue
            if b.locals[r[1]] == "usize":
                cl.add("param"); det.append(b.local_name(r[1]))
        elif r[0] == "const":
            cl.add("const"); det.append(r[1])
        elif r[0] == "upvar":
            cl.add("upvar")
        elif r[0] == "call":
            f = r[1]
            if re.search(r"database_count$", f):
                cl.add("iter")
            elif re.search(r"::parse::<", f) or re.search(r"as_integer|from_str", f):
                cl.add("parsed"); det.append(shared.short_callee(f))
    if P.has_call(r"Range<usize> as std::iter::Iterator>::next$|Iterator>::next$|Iterator>::enumerate"):
        cl.add("iter")
    for f in fields:
        if f in dbfields:
            cl.add("field"); det.append(f.rsplit(".", 1)[-1])
    if not cl:
        cl.add("other")
    return cl, ",".join(det[:4])


def rule_db(ctx, R):
    dbp = db_params(ctx)
    cp = shared.command_path(ctx)
    R.floor("db_taking_functions", len(dbp))
    nsites = 0
    rederive = {}     # fn -> [(bb, callee)] db-taking calls whose db is derived from a field
    for fn in sorted(cp):
        b = ctx.prog.bodies.get(fn)
        if b is None or "::tests::" in fn:
            continue
        own = dbp.get(fn, set())
        # closures: the enclosing function's db is visible as an upvar
        ordn = {}
        dbp_, dbfields, dbup = db_flow(ctx)
        for (i, a, why) in db_positions(ctx, b, dbp_, dbfields, dbup):
            nsites += 1
            cl, det = classify_db_operand(ctx, b, a)
            k = ordn.get(why, 0); ordn[why] = k + 1
            R.inst(fn, "db:%s#%d" % (why, k), {"function": fn, "use": why, "at": b.loc(i), "db_operand": sorted(cl), "detail": det} if nsites % 7 == 0 else None)
            if cl <= {"const"}:
                R.finding(fn, "db:%s:constant" % why,
                          "%s uses a constant database (%s) at %s: the command acts on that database whatever the connection selected" % (fn.split("::")[-1], det, why), b.loc(i))
                continue
            if own and not (cl & {"param", "iter", "upvar"}) and why.startswith("arg:"):
                R.finding(fn, "db:%s:own-db-not-passed" % why,
                          "%s has a database parameter but uses a database from elsewhere (%s) at %s" % (fn.split("::")[-1], sorted(cl), why), b.loc(i))
            if "field" in cl and not (cl & {"param", "upvar"}) and why.startswith("arg:"):
                # derivation from the connection's own selection (authoritative), or from a struct
                # handed in as a non-self parameter (the caller put the database there), is passing;
                # derivation from the callee's own state is re-deriving
                P, fields = _origins_with_closures(ctx, b, a)
                authoritative = "network::connection::Connection.db_index" in fields
                nonself = {p for p in P.params() if p != 1 and not (b.kind == "Closure")}
                if not authoritative and not nonself:
                    rederive.setdefault(fn, []).append((i, why))
    R.floor("db_argument_sites", nsites)
    # R-DB-DROP: F (holding a db) -> G (no db parameter) where G derives the db from a field
    nd = 0
    for g, sites in sorted(rederive.items()):
        if dbp.get(g):
            continue
        gb = ctx.prog.bodies[g]
        if gb.kind == "Closure":
            continue
        for f in sorted(ctx.cg.callers.get(g, ())):
            if f not in cp:
                continue
            fb = ctx.prog.bodies.get(f)
            if fb is None:
                continue
            holds = bool(dbp.get(f)) or any(DB_NAME.match(n) for n in fb.names.values())
            nd += 1
            R.inst(g, "rederive-from:" + f.split("::")[-1], {"callee": g, "caller": f, "caller_holds_db": holds})
            if holds:
                R.finding(g, "rederives-db:called-from:" + f.split("::")[-1],
                          "%s derives the database from connection state although its caller %s already determined the database (and does not pass it): the two can disagree (script db, override)" % (g.split("::")[-1], f.split("::")[-1]),
                          gb.loc(sites[0][0]))
    R.note("derivation points (db taken from a connection field): %s" % sorted(x.split("::")[-1] for x in rederive))


def rule_select(ctx, R):
    """stores to Connection.db_index are guarded by the database-count bound"""
    n = 0
    for fn, b in sorted(ctx.prog.bodies.items()):
        if "::tests::" in fn or fn.startswith("network::connection::Connection::new"):
            continue
        for i, bb in enumerate(b.bbs):
            if bb["cleanup"]:
                continue
            for st in bb["s"]:
                if st["k"] != "=":
                    continue
                fs = [e["f"] for e in st["l"]["p"] if isinstance(e, dict) and "f" in e]
                if not fs or fs[-1] != "network::connection::Connection.db_index":
                    continue
                n += 1
                # closure run from an enclosing function: the bound test dominates the call site
                ok = False; where = None
                enc = ctx.prog.bodies.get(b.encl) if b.kind == "Closure" else b
                site_blocks = [i] if enc is b else [j for j, t in enc.calls() if fn in t["clos"]]
                for j, t in enc.calls():
                    if callee(t) != ENGINE + "database_count":
                        continue
                    # comparison using the count, then a switch; the store site must be on the
                    # edge where index < count
                    for x in cfg.fwd(enc, [j]):
                        for s2 in enc.stmts(x):
                            if s2["k"] == "=" and s2["r"]["k"] == "bin" and s2["r"]["op"] in ("Ge", "Lt", "Gt", "Le"):
                                la = op_local(s2["r"]["a"]); lb = op_local(s2["r"]["b"])
                                cnt = t["d"]["l"]
                                if cnt not in (la, lb):
                                    continue
                                tt = enc.term(x)
                                if tt["k"] != "switch" or op_local(tt["d"]) != s2["l"]["l"]:
                                    continue
                                op = s2["r"]["op"]
                                # normalise to "index < count" truth
                                if cnt == lb:      # idx OP cnt
                                    in_range_when_true = op in ("Lt",)
                                    in_range_when_false = op in ("Ge",)
                                else:              # cnt OP idx
                                    in_range_when_true = op in ("Gt",)
                                    in_range_when_false = op in ("Le",)
                                zero = dict(tt["ts"]).get(0)
                                good = tt["o"] if in_range_when_true else (zero if in_range_when_false else None)
                                if good is None:
                                    continue
                                reg = cfg.edge_dom_set(enc, x, good)
                                if all(sb in reg for sb in site_blocks) and site_blocks:
                                    ok = True; where = enc.loc(x)
                R.inst(fn, "store-db_index", {"function": fn, "at": "%s:%s" % (b.file, st.get("line")), "bounded_by_database_count": ok, "test": where})
                if not ok:
                    R.finding(fn, "store-db_index:unbounded",
                              "the connection's selected database is stored (line %s) without a dominating `index < database_count()` test: SELECT of a non-existent index would be accepted" % st.get("line"),
                              "%s:%s" % (b.file, st.get("line")))
    R.floor("db_index_stores", n)


def rule_exec_db(ctx, R):
    """a queued SELECT governs the commands behind it: in EXEC's loop the database handed to each
    queued command is read from the connection in that same iteration, before the command runs
    (the read dominates the dispatch inside the loop body) -- not carried in a variable that is
    refreshed only under a test of the command's spelling.  The iteration is the body of the loop
    or, when an iterator chain drives it, the closure that runs once per queued command."""
    import cfg as _cfg
    HE = SERVER + "handle_exec"
    he = ctx.prog.need(HE)
    sites = shared.exec_sites(ctx, he, (SERVER + "process_command_parts", SERVER + "process_normal_command"))
    R.floor("exec_dispatch_sites", len(sites))

    def db_reads(b, blocks):
        reads = []
        for i, t in b.calls():
            if i not in blocks:
                continue
            for c in t.get("clos") or []:
                cb = ctx.prog.bodies.get(c)
                if cb is None:
                    continue
                for bb in cb.bbs:
                    for st in bb["s"]:
                        if st["k"] == "=" and st["r"]["k"] in ("use", "ref"):
                            pl = op_place(st["r"]["o"]) if st["r"]["k"] == "use" else st["r"]["p"]
                            if pl and any(isinstance(x, dict) and str(x.get("f", "")).endswith("Connection.db_index") for x in pl["p"]):
                                reads.append(i)
        return reads
    for k, (b, e, _) in enumerate(sites):
        if b.kind == "Closure":
            head, body = 0, set(range(len(b.bbs)))
        else:
            lps = _cfg.loops(b)
            inl = [(h, body) for h, body in lps.items() if e in body]
            if not inl:
                R.inst(HE, "exec-db#%d" % k, {"in_loop": False}); continue
            head, body = min(inl, key=lambda hb: len(hb[1]))
        reads = db_reads(b, body)
        # same-iteration dominance: every path head -> e inside the body passes a read
        ok = False
        if reads:
            back = _cfg.back_edges(b)
            seen = set(); st_ = [head]; reach_wo = False
            while st_:
                x = st_.pop()
                if x in seen or x not in body or x in reads:
                    continue
                seen.add(x)
                if x == e:
                    reach_wo = True; break
                for y in b.succs(x):
                    if (x, y) not in back:
                        st_.append(y)
            ok = not reach_wo
        t = b.term(e)
        dbarg = None
        for a in t["a"]:
            if not op_is_const(a) and b.locals[op_place(a)["l"]] == "usize":
                dbarg = a
        from_read = False
        if dbarg is not None:
            PT = re.compile(prov.PASS_THROUGH.pattern[:-1] + r"|^std::option::Option::<.*>::(unwrap_or|unwrap_or_else|map|copied)(::<.*>)?$)")
            P = prov.operand_origins(b, dbarg, pass_through=PT)
            from_read = any(r[0] == "call" and r[2] in reads for r in P.roots) or any(v[1] in reads for v in P.via)
        R.inst(HE, "exec-db#%d" % k, {"in_loop": True, "iteration_is_a_closure": b.kind == "Closure", "db_index_reads_in_loop": len(set(reads)), "read_precedes_dispatch_on_every_path_of_the_iteration": ok, "db_argument_derives_from_the_read": from_read})
        if not (ok and from_read):
            R.finding(HE, "exec-db:not-reread-each-iteration",
                      "EXEC hands a queued command a database that was not read from the connection earlier in the same iteration (line %d): after a queued SELECT (in any spelling the dispatcher accepts) the commands behind it still run in the old database" % b.bb_line(e), b.loc(e))


def rule_wake_db(ctx, R):
    """`completed later as a blocking pop`: the wake path acts on the database the client blocked
    in -- the one recorded in the wake-up request / registration -- not on whatever the connection
    has selected by the time it is served (a SELECT pipelined behind the BLPOP runs while the
    connection is already blocked)"""
    import json
    w = ctx.prog.need(SERVER + "wake_client")
    dbp, dbfields, dbup = db_flow(ctx)
    n = 0
    WK = "network::blocking::WakeupRequest.db"
    for body in shared.closure_tree(ctx, w):
        k = 0
        for (i, a, why) in db_positions(ctx, body, dbp, dbfields, dbup):
            if not why.startswith("arg:"):
                continue
            n += 1
            P, fields = _origins_with_closures(ctx, body, a)
            fields = set(fields)
            # a captured variable: look at what the enclosing function put into the capture
            if body.kind == "Closure":
                enc = ctx.prog.bodies.get(body.encl)
                for r in P.roots:
                    if r[0] == "upvar" and enc is not None:
                        ui = _upvar_index(r)
                        for x, bb in enumerate(enc.bbs):
                            for st in bb["s"]:
                                if st["k"] == "=" and st["r"]["k"] == "agg" and st["r"]["a"] == "closure:" + body.fn and ui is not None and ui < len(st["r"]["o"]) and not op_is_const(st["r"]["o"][ui]):
                                    fields |= set(_origins_with_closures(ctx, enc, st["r"]["o"][ui])[1])
            from_request = WK in fields or "network::connection::BlockedState.keys" in fields
            from_conn = "network::connection::Connection.db_index" in fields
            ok = from_request and not from_conn
            R.inst(body.fn, "wake-db:%s#%d" % (why, k), {"use": why, "at": body.loc(i), "from_wakeup_request": from_request, "from_connection_selection": from_conn})
            if not ok:
                R.finding(body.fn, "wake-db:%s:not-the-blocking-database" % why,
                          "the wake path hands %s a database that %s: a blocked client is served from the database it blocked in, whatever SELECT has done to the connection since" % (
                              why[4:], "is read from the connection's current selection (Connection.db_index)" if from_conn else "does not come from the wake-up request"), body.loc(i))
            k += 1
    R.floor("wake_path_db_uses", n)


# ---- R-DB-HANDOVER --------------------------------------------------------------------------------
def rule_db_handover(ctx, R):
    """a function that takes its database from a field of a struct it is handed (the script-side
    executor: `cmd.db_override`, with a default of 0 when nobody set it) relies on every caller
    having put the connection's database there.  At every call site outside tests the struct
    argument has, dominating the call, a store of `Some(<non-constant>)` into that field (or is
    built with it, or is the caller's own parameter of the same type, checked at its callers)."""
    cp = shared.command_path(ctx)
    dbp_, dbfields, dbup = db_flow(ctx)
    # (function, param index, field) triples: db operand derived from field of non-self param
    takers = {}
    for fn in sorted(cp):
        b = ctx.prog.bodies.get(fn)
        if b is None or "::tests::" in fn or b.kind == "Closure":
            continue
        for (i, a, why) in db_positions(ctx, b, dbp_, dbfields, dbup):
            if op_is_const(a):
                continue
            P, fields = _origins_with_closures(ctx, b, a)
            for p in P.params():
                if p == 1 and (b.locals[1] or "").lstrip("&").startswith(("mut storage::commands::executor::Unified", "storage::commands::executor::Unified", "network::server::Server", "mut network::server::Server")):
                    continue
                ty = (b.locals[p] or "").lstrip("&").replace("mut ", "")
                for f in fields:
                    if f.startswith(ty + ".") and "Option" in _field_type_hint(ctx, f):
                        takers.setdefault(fn, set()).add((p, f))
    n = 0
    for g, pfs in sorted(takers.items()):
        for (p, f) in sorted(pfs):
            for caller in sorted(ctx.cg.callers.get(g, ())):
                cb = ctx.prog.bodies.get(caller)
                if cb is None or "::tests::" in caller:
                    continue
                for i, t in cb.calls():
                    if callee(t) != g or len(t["a"]) < p or op_is_const(t["a"][p - 1]) or cb.bbs[i]["cleanup"]:
                        continue
                    n += 1
                    A = op_place(t["a"][p - 1])["l"]
                    # locals the argument is a move/copy of
                    als = {A}
                    P = prov.origins(cb, A, pass_through=re.compile(r"^$"))
                    own_param = any((cb.locals[q] or "").lstrip("&").replace("mut ", "") == (ctx.prog.bodies[g].locals[p] or "").lstrip("&").replace("mut ", "") for q in P.params())
                    for x, bb in enumerate(cb.bbs):
                        for st in bb["s"]:
                            if st["k"] == "=" and st["r"]["k"] == "use" and not op_is_const(st["r"]["o"]) and st["l"]["l"] in als and not st["l"]["p"]:
                                als.add(op_place(st["r"]["o"])["l"])
                    ok = own_param
                    how = "parameter" if own_param else None
                    # the other source the callee consults: a connection context installed on the
                    # receiver by the caller (`executor.clone().with_context(ctx).execute(..)`)
                    if t["a"] and not op_is_const(t["a"][0]) and prov.operand_origins(cb, t["a"][0]).has_call(r"::with_context$"):
                        ok = True; how = "connection context installed on the receiver"
                    for x, bb in enumerate(cb.bbs):
                        for st in bb["s"]:
                            if st["k"] != "=":
                                continue
                            setf = st["l"]["l"] in als and any(isinstance(e, dict) and e.get("f") == f for e in st["l"]["p"])
                            built = st["l"]["l"] in als and not st["l"]["p"] and st["r"]["k"] == "agg" and f.rsplit(".", 1)[-1] in (st["r"].get("fs") or [])
                            if not (setf or built) or not cfg.dominates(cb, x, i):
                                continue
                            o = st["r"]["o"][st["r"]["fs"].index(f.rsplit(".", 1)[-1])] if built else (st["r"]["o"] if st["r"]["k"] == "use" else None)
                            src = None
                            if setf and st["r"]["k"] == "agg" and st["r"]["a"].endswith("Option::Some"):
                                src = st["r"]["o"][0]
                            elif o is not None and not op_is_const(o):
                                Q = prov.operand_origins(cb, o, deep=True)
                                somes = [r_ for r_ in Q.roots if r_[0] == "agg" and r_[1].endswith("Option::Some")]
                                if somes:
                                    src = {"cp": {"l": -1, "p": []}} if Q.params() or any(r_[0] == "call" for r_ in Q.roots) else None
                            if src is not None and not op_is_const(src):
                                ok = True; how = "Some(..) stored before the call"
                    R.inst(caller, "handover:%s" % g.split("::")[-1], {"caller": caller, "callee": g, "field": f.rsplit(".", 1)[-1], "at": cb.loc(i), "database_put_there": ok, "how": how})
                    if not ok:
                        R.finding(caller, "handover:%s:database-not-set" % g.split("::")[-1],
                                  "%s hands %s a %s whose `%s` it never set: %s then falls back to its default database (0), so the command acts on database 0 whatever the connection selected" % (
                                      caller.split("::")[-1], g.split("::")[-1], f.split(".")[0].split("::")[-1], f.rsplit(".", 1)[-1], g.split("::")[-1]), cb.loc(i))
    R.floor("database_handover_call_sites", n)


def _field_type_hint(ctx, f):
    """type of a struct field as far as the facts know it (from any place that projects it)"""
    def compute():
        out = {}

        def note_places(pl):
            pr = pl.get("p") or []
            for k_ in range(len(pr) - 1):
                if isinstance(pr[k_], dict) and "f" in pr[k_] and isinstance(pr[k_ + 1], dict) and pr[k_ + 1].get("v") in ("Some", "None"):
                    out[pr[k_]["f"]] = "std::option::Option<?>"
        for b in ctx.prog.bodies.values():
            for bb in b.bbs:
                for st in bb["s"]:
                    if st["k"] == "=":
                        note_places(st["l"])
                        r_ = st["r"]
                        if r_["k"] in ("ref", "discr", "rawptr", "len"):
                            note_places(r_["p"])
                        elif r_["k"] in ("use", "cast", "un") and not op_is_const(r_["o"]):
                            note_places(op_place(r_["o"]))
                    if st["k"] == "=" and st["l"]["p"] and isinstance(st["l"]["p"][-1], dict) and "f" in st["l"]["p"][-1] and st["r"]["k"] == "agg":
                        out.setdefault(st["l"]["p"][-1]["f"], st["r"]["a"])
                    if st["k"] == "=" and st["r"]["k"] == "use" and not op_is_const(st["r"]["o"]):
                        pl = op_place(st["r"]["o"])
                        if pl["p"] and isinstance(pl["p"][-1], dict) and "f" in pl["p"][-1] and not st["l"]["p"]:
                            out.setdefault(pl["p"][-1]["f"], b.locals[st["l"]["l"]] or "")
        return out
    return ctx.memo("field_type_hint", compute).get(f, "")
