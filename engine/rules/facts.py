"""Loading of the MIR fact files written by engine/mirfacts and basic accessors.

A fact file is JSON lines: one header (ADT and impl tables) and one object per MIR body.
Nothing in here looks at source text; `file`/`line` are carried for reports only.
"""
import json, os, pickle, re, collections


class Body:
    __slots__ = ("fn", "file", "line", "nargs", "vis", "self_ty", "trait", "encl", "kind",
                 "locals", "names", "upvars", "bbs", "promoted", "_preds", "_predsu", "_dom", "_domu",
                 "_pdom", "_defs")

    def __init__(s, d):
        s.fn = d["fn"]; s.file = d["file"]; s.line = d["line"]; s.nargs = d["nargs"]
        s.vis = d["vis"]; s.self_ty = d["self_ty"]; s.trait = d["trait"]; s.encl = d["encl"]
        s.kind = d["kind"]; s.locals = d["locals"]; s.names = {int(k): v for k, v in d["names"].items()}
        s.upvars = d["upvars"]; s.bbs = d["bbs"]; s.promoted = d.get("promoted", [])
        s._preds = s._predsu = s._dom = s._domu = s._pdom = s._defs = None

    # ---- CFG -------------------------------------------------------------------------
    def succs(s, i, unwind=False):
        t = s.bbs[i]["t"]; k = t["k"]
        if k == "goto":
            return [t["t"]]
        if k == "switch":
            return [b for _, b in t["ts"]] + [t["o"]]
        if k in ("drop", "assert"):
            out = [t["t"]]
            if unwind and t["u"] >= 0:
                out.append(t["u"])
            return out
        if k == "call":
            out = []
            if t["t"] >= 0:
                out.append(t["t"])
            if unwind and t["u"] >= 0:
                out.append(t["u"])
            return out
        return []

    def preds(s, unwind=False):
        attr = "_predsu" if unwind else "_preds"
        p = getattr(s, attr)
        if p is None:
            p = [[] for _ in s.bbs]
            for i in range(len(s.bbs)):
                for j in s.succs(i, unwind):
                    p[j].append(i)
            setattr(s, attr, p)
        return p

    def calls(s):
        for i, b in enumerate(s.bbs):
            if b["t"]["k"] == "call":
                yield i, b["t"]

    def term(s, i):
        return s.bbs[i]["t"]

    def stmts(s, i):
        return s.bbs[i]["s"]

    def exits(s, unwind=False):
        ks = ("return", "resume") if unwind else ("return",)
        return [i for i, b in enumerate(s.bbs) if b["t"]["k"] in ks]

    def bb_line(s, i):
        t = s.bbs[i]["t"]
        if "line" in t:
            return t["line"]
        for st in reversed(s.bbs[i]["s"]):
            if "line" in st:
                return st["line"]
        return s.line

    def loc(s, i=None):
        return "%s:%d" % (s.file, s.bb_line(i) if i is not None else s.line)

    def local_name(s, l):
        return s.names.get(l, "_%d" % l)

    def ret_ty(s):
        return s.locals[0]

    def arg_tys(s):
        return s.locals[1:1 + s.nargs]


def callee(t):
    """Best name for the callee of a call terminator: resolved instance, else declared def."""
    return t["res"] or t["def"] or t["f"]


def is_test_fn(fn):
    return "::tests::" in fn or fn.startswith("tests::") or "stream_integration_tests" in fn


class Program:
    def __init__(s, path):
        s.path = path
        s.bodies = {}
        s.adts = {}
        s.impls = []
        s.header = None
        with open(path) as f:
            for l in f:
                d = json.loads(l)
                if d.get("header"):
                    s.header = d
                    for a in d["adts"]:
                        s.adts[a["name"]] = a
                    s.impls = d["impls"]
                    continue
                b = Body(d)
                s.bodies[b.fn] = b
        s._cg = None
        s.aliases = []
        s.inlined = []
        s.inlined_into = {}

    def body(s, fn):
        return s.bodies.get(fn)

    def need(s, fn):
        b = s.bodies.get(fn)
        if b is None:
            raise AnchorMissing("anchor function not found in facts: %s" % fn)
        return b

    def find(s, pattern):
        rx = re.compile(pattern)
        return [b for fn, b in s.bodies.items() if rx.search(fn)]

    def variant_name(s, adt, discr):
        a = s.adts.get(adt)
        if not a:
            return None
        for v in a["variants"]:
            if str(v["d"]) == str(discr):
                return v["n"]
        return None

    def variant_discr(s, adt, name):
        a = s.adts.get(adt)
        if not a:
            raise AnchorMissing("ADT not found: %s" % adt)
        for v in a["variants"]:
            if v["n"] == name:
                return int(v["d"])
        raise AnchorMissing("variant not found: %s::%s" % (adt, name))


class AnchorMissing(Exception):
    pass


def load_program(path):
    """Load with a pickle side-cache (facts are immutable once written)."""
    pk = path + ".pickle"
    try:
        # the normalised program depends on the facts, on the recorded anchors and on the
        # normalisation code itself
        deps = [path]
        here = os.path.dirname(os.path.abspath(__file__))
        deps += [os.path.join(here, x) for x in ("anchors.py", "inline.py", "facts.py")]
        try:
            import anchors as _a
            deps.append(_a.ANCHORS)
        except Exception:
            pass
        if os.path.getmtime(pk) >= max(os.path.getmtime(d) for d in deps if os.path.exists(d)):
            with open(pk, "rb") as f:
                return pickle.load(f)
    except Exception:
        pass
    p = Program(path)
    if not os.path.basename(path).startswith("ferrous."):
        return p          # fixtures and other programs are analysed as they are
    try:
        import anchors
        p.aliases = anchors.normalise(p)
    except Exception as e:
        p.aliases = []
    p.inlined = []
    try:
        import anchors, inline, json as _json
        rec = set(_json.load(open(anchors.ANCHORS)))
        if rec:
            p.inlined = inline.normalise(p, rec)
    except Exception as e:
        p.inlined = [{"error": "inlining failed: %s" % e}]
    try:
        tmp = pk + ".%d" % os.getpid()
        with open(tmp, "wb") as f:
            pickle.dump(p, f, protocol=pickle.HIGHEST_PROTOCOL)
        os.replace(tmp, pk)
    except Exception:
        pass
    return p


# ---- operand helpers ------------------------------------------------------------------

def op_place(op):
    """place dict of a copy/move operand, else None"""
    if op is None:
        return None
    return op.get("cp") or op.get("mv")


def op_local(op):
    p = op_place(op)
    return p["l"] if p is not None else None


def op_is_const(op):
    return op is not None and "c" in op


def const_int(op):
    """integer value of a constant operand, or None"""
    if not op_is_const(op):
        return None
    if "v" in op:
        try:
            return int(op["v"])
        except ValueError:
            return None
    m = re.match(r"^(?:const )?(-?\d+)_[iu](8|16|32|64|128|size)$", op["c"])
    if m:
        return int(m.group(1))
    return None


def _unescape(body):
    if "\\" not in body:
        return body
    try:
        return body.encode("latin-1", "backslashreplace").decode("unicode_escape")
    except Exception:
        return body


def const_str(op):
    """string value of a `"..."` constant operand of type &str, or None"""
    if not op_is_const(op):
        return None
    c = op["c"]
    if c.startswith("const "):
        c = c[6:]
    if len(c) >= 2 and c[0] == '"' and c[-1] == '"' and op.get("ty", "&str").endswith("str"):
        return _unescape(c[1:-1])
    return None


def const_bytes(op):
    """value of a b"..." constant operand as a latin-1 str, or None"""
    if not op_is_const(op):
        return None
    c = op["c"]
    if c.startswith("const "):
        c = c[6:]
    if c.startswith('b"') and c.endswith('"'):
        return _unescape(c[2:-1])
    return None


_PROM = re.compile(r"::promoted\[(\d+)\]$")


def promoted_consts(b, op):
    """constants inside the promoted body an operand refers to (e.g. `&"SCRIPT"`), else None"""
    if not op_is_const(op):
        return None
    m = _PROM.search(op["c"])
    if not m:
        return None
    i = int(m.group(1))
    if i < len(b.promoted):
        return b.promoted[i]
    return None
