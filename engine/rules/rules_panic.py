"""C06 / C20 / C10(file) rules: R-PANIC + R-ALLOC (taint), R-RECURSE, R-HANG, R-LOCK-L1."""
import re, collections
from facts import callee, op_local, op_place, op_is_const, const_int
import cfg, shared, prov, taint, callgraph
from shared import SERVER, ENGINE


def taint_all(ctx):
    def compute():
        cp = shared.command_path(ctx) | {f for f in ctx.prog.bodies if f.startswith(("protocol::", "storage::rdb::RdbReader"))}
        scope = {f for f in cp if f in ctx.prog.bodies and "::tests::" not in f}
        return taint.Taint(ctx, scope, {"client", "wire", "file"}), scope
    return ctx.memo("taint_all", compute)


def make_taint_rule(origins, kinds, label, scope_prefix=None):
    """origins: subset of {client, wire, file}; kinds: which sink kinds to report;
    scope_prefix: report only sinks in functions with this path prefix"""
    def rule(ctx, R):
        T, scope = taint_all(ctx)
        nf = 0; ns = 0; ng = 0
        for fn in sorted(scope):
            if scope_prefix and not fn.startswith(scope_prefix):
                continue
            if not T.tainted.get(fn):
                R.trivial(); continue
            b = ctx.prog.bodies[fn]
            seen = {}
            sinks = list(taint.sinks(T, fn))
            if sinks:
                nf += 1
            for s_ in sinks:
                org = (s_["origin"] or "").split(":")[0]
                if org not in origins or s_["kind"] not in kinds:
                    continue
                ns += 1
                what = s_["what"]
                k = seen.get((s_["kind"], what), 0); seen[(s_["kind"], what)] = k + 1
                desc = "%s:%s#%d" % (s_["kind"], what, k)
                if s_["guarded"]:
                    ng += 1
                R.inst(fn, desc, {"function": fn, "sink": what, "kind": s_["kind"], "input": s_["origin"], "at": "%s:%s" % (b.file, s_["line"]), "bounded_on_all_paths": s_["guarded"]} if not s_["guarded"] or ns % 5 == 0 else None)
                if not s_["guarded"]:
                    msg = {
                        "arith": "arithmetic on a %s-controlled number can overflow and panic (%s)",
                        "index": "a %s-controlled number is used as an index/range without an upper bound on every path (%s)",
                        "alloc": "memory is reserved according to a %s-controlled number that is not bounded by what was actually received/present (%s)",
                        "duration-from-float": "a %s-controlled float reaches %s: NaN, infinity or a huge value panics",
                        "time-arith": "a %s-controlled duration is added to a clock value without a bound (%s): overflow panics",
                        "sleep": "the command thread sleeps for a %s-controlled time (%s)",
                        "loop": "the command thread runs a loop whose iteration count is a %s-controlled number without an upper bound (%s): a huge count keeps the single thread busy (and grows the reply) until the process dies",
                    }[s_["kind"]] % (org, what)
                    R.finding(fn, desc + ":unbounded", "%s: %s, line %s" % (fn.split("::")[-1], msg, s_["line"]), "%s:%s" % (b.file, s_["line"]))
        if scope_prefix:
            # a narrow scope can legitimately lose its last sink (`a - 1` rewritten as
            # saturating_sub): the anchor is the scope itself
            R.floor("functions_in_scope", len([f for f in scope if f.startswith(scope_prefix)]))
        else:
            R.floor("functions_with_sinks", nf)
            R.floor("sinks_examined", ns)
        R.note("%s: %d sinks examined, %d bounded on all paths" % (label, ns, ng))
    return rule


PANIC_KINDS = ("arith", "index", "duration-from-float", "time-arith")


# recursion whose depth is the nesting of a value the server built itself (one named symbol each)
RECURSION_OVER_SERVER_BUILT_DATA = {
    "protocol::serializer::serialize_resp_frame": "recurses over a reply frame: frames come from the parser (depth <= 128, checked here), from lua_value_to_resp (depth bounded, checked here) or from handlers that nest at most three levels",
    "storage::lua_engine::LuaEngine::resp_frame_to_lua_value": "recurses over the reply of a command the server executed itself (handlers nest at most three levels)",
}


def rule_recurse(ctx, R):
    """every recursive cycle that a client can drive (the RESP parser) carries a depth argument
    that is incremented on the recursive edge and compared with a constant on a dominating branch"""
    cp = shared.command_path(ctx) | {f for f in ctx.prog.bodies if f.startswith(("protocol::", "storage::lua_engine::"))}
    fns = sorted(f for f in cp if f in ctx.prog.bodies and "::tests::" not in f)
    fset = set(fns)
    comps = callgraph.sccs(fns, lambda n: [c for c in ctx.cg.edges.get(n, ()) if c in fset])
    rec = [c for c in comps if len(c) > 1 or (len(c) == 1 and c[0] in ctx.cg.edges.get(c[0], ()))]
    R.floor("recursive_components", len(rec))
    for comp in rec:
        cs = set(comp)
        # the exempt function alone, or together with closures written inside it (try_for_each(|e| f(e)))
        named = [f for f in comp if "{closure" not in f]
        if len(named) == 1 and named[0] in RECURSION_OVER_SERVER_BUILT_DATA and all(f == named[0] or f.startswith(named[0] + "::{closure") for f in comp):
            R.inst(named[0], "scc:" + named[0].split("::")[-1], {"functions": [named[0].split("::")[-1]], "exempt": RECURSION_OVER_SERVER_BUILT_DATA[named[0]]})
            continue
        checkers = set()
        n_edges = 0
        for fn in comp:
            b = ctx.prog.bodies[fn]
            n_edges += sum(1 for i, t in b.calls() if callee(t) in cs)
            # a comparison of an integer parameter with a constant
            for p in range(1, b.nargs + 1):
                if not re.match(r"^(usize|u32|u16|u8|u64)$", b.locals[p]):
                    continue
                for x, bb in enumerate(b.bbs):
                    for st in bb["s"]:
                        if st["k"] == "=" and st["r"]["k"] == "bin" and st["r"]["op"] in ("Gt", "Ge", "Lt", "Le"):
                            la = op_local(st["r"]["a"]); lb = op_local(st["r"]["b"])
                            ca = const_int(st["r"]["a"]); cb = const_int(st["r"]["b"])
                            if (la is not None and cb is not None and p in (prov.origins(b, la).params() | {la})) or \
                               (lb is not None and ca is not None and p in (prov.origins(b, lb).params() | {lb})):
                                # the comparison must control an Err return
                                t = bb["t"]
                                if t["k"] == "switch" and op_local(t["d"]) == st["l"]["l"]:
                                    checkers.add(fn)
        # every recursive call INTO a checker passes a depth incremented from the caller's
        incremented = bool(checkers)
        for fn in comp:
            b = ctx.prog.bodies[fn]
            for i, t in b.calls():
                if callee(t) not in checkers:
                    continue
                ok = False
                for a in t["a"]:
                    if op_is_const(a):
                        continue
                    l = op_local(a)
                    if not re.match(r"^(usize|u32|u16|u8|u64)$", b.locals[l]):
                        continue
                    for kind, bbi, x in prov.build_defs(b).get(l, ()):
                        if kind == "stmt" and x["r"]["k"] == "use" and op_place(x["r"]["o"]) and op_place(x["r"]["o"])["p"]:
                            src = op_place(x["r"]["o"])["l"]
                            for k2, b2, x2 in prov.build_defs(b).get(src, ()):
                                if k2 == "stmt" and x2["r"]["k"] == "bin" and x2["r"]["op"] in ("AddWithOverflow", "Add") and (const_int(x2["r"]["b"]) or 0) > 0:
                                    ok = True
                        if kind == "stmt" and x["r"]["k"] == "bin" and x["r"]["op"] in ("Add", "AddWithOverflow"):
                            ok = True
                        if kind == "call" and re.search(r"::(saturating_add|checked_add|wrapping_add)$", x["f"] or ""):
                            ok = True
                if not ok:
                    incremented = False
        # every cycle passes through a checker: without the checkers the component is acyclic
        rest = [f for f in comp if f not in checkers]
        sub = callgraph.sccs(rest, lambda n_: [c for c in ctx.cg.edges.get(n_, ()) if c in cs and c not in checkers])
        acyclic = not any(len(c) > 1 or (c[0] in ctx.cg.edges.get(c[0], ())) for c in sub)
        name = "+".join(sorted(f.split("::")[-1] for f in comp))
        owner = "protocol::parser" if all(f.startswith("protocol::parser::") for f in comp) else comp[0]
        R.inst(owner, "scc:" + name, {"functions": sorted(f.split("::")[-1] for f in comp), "recursive_call_sites": n_edges, "depth_checked_in": sorted(c.split("::")[-1] for c in checkers),
                                               "calls_into_checker_increment_depth": incremented, "every_cycle_passes_a_check": acyclic})
        if not (checkers and incremented and acyclic):
            R.finding(owner, "scc:%s:unbounded-recursion" % name,
                      "the functions %s recurse over client-built data with no depth limit: a deeply nested value (60000 x `*1\\r\\n`, or a Lua table that contains itself) overflows the stack and kills the process" % sorted(f.split("::")[-1] for f in comp), ctx.prog.bodies[comp[0]].loc())


RUN_RX = r"^mlua::Chunk::<'_>::(eval|exec|call)(::<.*>)?$|^mlua::Chunk::(eval|exec|call)(::<.*>)?$|^mlua::Function::call(::<.*>)?$"


def script_run_bodies(ctx):
    """(body, run blocks) for eval and the closures / new helpers it runs the chunk in"""
    ev0 = ctx.prog.need("storage::lua_engine::LuaEngine::eval")
    out = []
    for evb in shared.closure_tree(ctx, ev0):
        runs = [i for i, t in evb.calls() if re.search(RUN_RX, t["f"] or "")]
        if runs:
            out.append((evb, runs))
    return ev0, out


def rule_hang(ctx, R):
    """scripts run under an execution bound: before the chunk is run, eval installs an
    instruction hook (or interrupt) whose callback can return Err (that is what stops the VM),
    decided by a clock or counter comparison; a memory limit bounds allocation but not time."""
    ev0, rb = script_run_bodies(ctx)
    R.floor("script_run_sites", sum(len(r) for _, r in rb))
    for ev, runs in rb:
        hooks = []
        # hook installed in eval itself or in a function eval calls before the run (context set-up)
        cand = [(ev, i, t) for i, t in ev.calls()]
        for i, t in ev.calls():
            c = callee(t)
            if c in ctx.prog.bodies and c.startswith("storage::lua_engine::"):
                cb = ctx.prog.bodies[c]
                cand += [(cb, j, tj) for j, tj in cb.calls() if all(cfg.dominates(ev, i, r) for r in runs)]
        mem = False
        for fb, i, t in cand:
            f = t["f"] or ""
            if re.search(r"mlua::.*::set_memory_limit$", f):
                mem = True
            if re.search(r"mlua::.*::(set_hook|set_interrupt|set_global_hook)(::<.*>)?$", f):
                can_abort = False; timed = False
                for cl in t.get("clos") or []:
                    cb = ctx.prog.bodies.get(cl)
                    if cb is None:
                        continue
                    for bb in cb.bbs:
                        for st in bb["s"]:
                            if st["k"] == "=" and st["r"]["k"] == "agg" and st["r"]["a"].endswith("Result::Err"):
                                can_abort = True
                    for j, tj in cb.calls():
                        if re.search(r"Instant::now$|Instant::elapsed$|PartialOrd.*>::(ge|gt|lt|le)$|fetch_add$", tj["f"] or ""):
                            timed = True
                    for bb in cb.bbs:
                        for st in bb["s"]:
                            if st["k"] == "=" and st["r"]["k"] == "bin" and st["r"]["op"] in ("Ge", "Gt", "Lt", "Le"):
                                timed = True
                dom = fb is not ev or all(cfg.dominates(ev, i, r) for r in runs)
                hooks.append({"in": fb.fn.split("::")[-1], "callback_can_abort": can_abort, "decides_by_clock_or_counter": timed, "before_every_run": dom})
        ok = any(h["callback_can_abort"] and h["decides_by_clock_or_counter"] and h["before_every_run"] for h in hooks)
        R.inst(ev0.fn, "script-bound", {"run_sites": len(runs), "hooks": hooks, "memory_limit": mem})
        if not ok:
            R.finding(ev0.fn, "script-unbounded", "scripts run with no instruction hook / interrupt that can stop them: `EVAL \"while true do end\" 0` occupies the single command thread forever (no client is answered any more)", ev.loc())


def rule_lua_ctx_fresh(ctx, R):
    """a script's redis.call / redis.pcall act on the database of the connection that runs the
    script: the functions registered in the Lua state capture the caller's database index by
    value, so the state a chunk runs in is built for THIS call -- every path to the run passes the
    context constructor (the function whose closures capture `LuaCommandContext.db_index`) in the
    same invocation.  A state kept across calls (built `if none yet`) keeps the database of the
    first script ever run."""
    ev0, rb = script_run_bodies(ctx)
    DBF = "storage::lua_engine::LuaCommandContext.db_index"
    ctxfns = set()
    for fn, b in ctx.prog.bodies.items():
        if not fn.startswith("storage::lua_engine::") or b.kind == "Closure" or "::tests::" in fn:
            continue
        reads_db = any(isinstance(e, dict) and e.get("f") == DBF for bb in b.bbs for st in bb["s"] if st["k"] == "=" and st["r"]["k"] in ("use", "ref") for e in (st["r"].get("p") or op_place(st["r"].get("o")) or {"p": []})["p"]) if False else False
        for bb in b.bbs:
            for st in bb["s"]:
                if st["k"] != "=":
                    continue
                r = st["r"]
                pl = r.get("p") if r["k"] in ("ref", "discr") else (op_place(r["o"]) if r["k"] in ("use", "cast") and not op_is_const(r["o"]) else None)
                if pl and any(isinstance(e, dict) and e.get("f") == DBF for e in pl["p"]):
                    reads_db = True
        registers = any(re.search(r"mlua::Lua::create_function(::<.*>)?$", t["f"] or "") for _, _, t in shared.deep_calls(ctx, b))
        if not reads_db and registers:
            # the registered closures capture the whole context (a clone) and the database index
            # is read further down: the constructor is the function that registers closures
            # holding a LuaCommandContext
            for body in shared.closure_tree(ctx, b):
                if body.kind == "Closure" and any("LuaCommandContext" in l for l in body.locals[:3]):
                    reads_db = True
                for bb in body.bbs:
                    for st in bb["s"]:
                        if st["k"] == "=" and st["r"]["k"] == "agg" and str(st["r"]["a"]).startswith("closure:"):
                            cb = ctx.prog.bodies.get(st["r"]["a"][8:])
                            if cb is not None and any("LuaCommandContext" in body.locals[op_place(o)["l"]] for o in st["r"]["o"] if not op_is_const(o)):
                                reads_db = True
        if reads_db and registers:
            ctxfns.add(fn)
    R.floor("context_constructors", len(ctxfns))
    if not ctxfns:
        R.broken.append("no function of the Lua engine that registers closures holding the caller's database found: the rule cannot be evaluated")
        return
    n = 0
    for ev, runs in rb:
        mk = [i for i, t in ev.calls() if callee(t) in ctxfns]
        for r_ in runs:
            n += 1
            ok = any(cfg.dominates(ev, i, r_) for i in mk)
            if not ok and ev.kind == "Closure" and not mk:
                # the state is built in the enclosing function and handed in: the call driving
                # this closure must be dominated by the constructor there
                par = ctx.prog.bodies.get(ev.encl)
                if par is not None:
                    drive = [i for i, t in par.calls() if ev.fn in (t.get("clos") or ())]
                    pmk = [i for i, t in par.calls() if callee(t) in ctxfns]
                    ok = bool(drive) and all(any(cfg.dominates(par, m, d) for m in pmk) for d in drive)
            R.inst(ev0.fn, "script-state", {"run_at": ev.loc(r_), "context_built_in_this_invocation_on_every_path": ok, "constructors": sorted(x.split("::")[-1] for x in ctxfns)})
            if not ok:
                R.finding(ev0.fn, "script-state:not-built-for-this-call",
                          "the chunk can run (line %d) in a Lua state that was not built in this invocation: redis.call / redis.pcall captured the database index when the state was built, so the script acts on the database of whichever connection ran the first script" % ev.bb_line(r_), ev.loc(r_))
    R.floor("script_runs_checked", n)


# ---------------------------------------------------------------------------------------
LOCK = re.compile(r"^std::sync::(Mutex|RwLock)::<(.*)>::(lock|read|write)$")


def lock_class(b, t):
    """field path of the lock object, or a type-based class for locks reached through calls"""
    P = prov.operand_origins(b, t["a"][0])
    flds = [f for f in P.fields if "::" in f]
    m = LOCK.match(t["f"])
    if flds:
        return flds[-1]
    return "<" + m.group(2) + ">"


def acquisitions(ctx):
    """fn -> [(bb, class, mode, guard_local)]"""
    def compute():
        out = {}
        for fn, b in ctx.prog.bodies.items():
            if "::tests::" in fn:
                continue
            acc = []
            for i, t in b.calls():
                m = LOCK.match(t["f"] or "")
                if m and t["a"]:
                    import rules_rdb
                    g = rules_rdb.guard_local(b, i)
                    acc.append((i, lock_class(b, t), "r" if m.group(3) == "read" else "w", g))
            if acc:
                out[fn] = acc
        return out
    return ctx.memo("acquisitions", compute)


def held_region(b, acq_bb, guard):
    """blocks where the guard acquired at acq_bb is (still) held"""
    t = b.term(acq_bb)
    starts = [t["t"]] if t["t"] >= 0 else []
    cut = set()
    # the guard local and everything it is moved into
    owners = {guard, t["d"]["l"]}
    changed = True
    while changed:
        changed = False
        for x, bb in enumerate(b.bbs):
            for st in bb["s"]:
                if st["k"] == "=" and st["r"]["k"] == "use" and "mv" in st["r"]["o"] and st["r"]["o"]["mv"]["l"] in owners and not st["r"]["o"]["mv"]["p"] and not st["l"]["p"]:
                    if st["l"]["l"] not in owners:
                        owners.add(st["l"]["l"]); changed = True
            tt = bb["t"]
            if tt["k"] == "call" and tt["a"] and "mv" in tt["a"][0] and tt["a"][0]["mv"]["l"] in owners and re.search(r"::(unwrap|expect|unwrap_or_else)(::<.*>)?$", tt["f"] or ""):
                if tt["d"]["l"] not in owners:
                    owners.add(tt["d"]["l"]); changed = True
    for x, bb in enumerate(b.bbs):
        tt = bb["t"]
        if tt["k"] == "drop" and tt["p"]["l"] in owners and not tt["p"]["p"]:
            cut.add(x)
        if tt["k"] == "call" and re.search(r"^std::mem::drop::<", tt["f"] or "") and tt["a"] and op_local(tt["a"][0]) in owners:
            cut.add(x)
    reg = cfg.fwd(b, starts, cut=cut)
    return reg, cut


def rule_lock_l1(ctx, R):
    """no call made while a guard of lock class C is held reaches another acquisition of C
    (self-deadlock on the single command thread); write-after-write / write-after-read / any Mutex"""
    acq = acquisitions(ctx)
    # transitive acquisition sets (spawn edges cut)
    direct = {fn: {(c, m) for (_, c, m, _) in lst} for fn, lst in acq.items()}
    trans = {}
    def tset(fn, seen=None):
        if fn in trans:
            return trans[fn]
        out = set(direct.get(fn, ()))
        for c in ctx.cg.reach([fn]):
            out |= direct.get(c, set())
        trans[fn] = out
        return out
    n = 0
    cp = shared.command_path(ctx)
    for fn, lst in sorted(acq.items()):
        if fn not in cp and not fn.startswith(("storage::", "pubsub::", "network::")):
            continue
        b = ctx.prog.bodies[fn]
        for (i, cls, mode, g) in lst:
            n += 1
            reg, cut = held_region(b, i, g)
            for x in sorted(reg):
                t = b.term(x)
                if t["k"] != "call" or x == i:
                    continue
                # direct re-acquisition in the same function
                m = LOCK.match(t["f"] or "")
                hits = []
                if m and t["a"]:
                    c2 = lock_class(b, t)
                    if c2 == cls and same_receiver(b, b.term(i)["a"][0], t["a"][0]) and not in_distinct_objects_branch(b, x):
                        hits.append(("direct", "r" if m.group(3) == "read" else "w"))
                else:
                    c = callee(t)
                    roots = [c] + list(t["clos"])
                    for r in roots:
                        if r in ctx.prog.bodies:
                            for (c2, m2) in tset(r):
                                if c2 == cls and not cls.startswith("<") and "DatabaseShard" not in cls:
                                    hits.append((r, m2))
                for (via, m2) in hits:
                    if mode == "r" and m2 == "r":
                        continue
                    R.inst(fn, "held:%s" % cls.split("::")[-1], {"function": fn, "lock": cls, "held_at": b.loc(i), "reacquired_via": via})
                    R.finding(fn, "reentrant:%s:via:%s" % (cls.split("::")[-1], via.split("::")[-1] if via != "direct" else "direct"),
                              "%s acquires %s (line %d) and, while holding it, %s acquires it again (line %d): the command thread deadlocks on itself" % (fn.split("::")[-1], cls, b.bb_line(i), "directly" if via == "direct" else "a call to " + via.split("::")[-1], b.bb_line(x)), b.loc(x))
    # higher-order lock holders: a function that runs a caller-supplied closure while it holds a
    # lock (ShardedConnections::with_connection).  Whatever the closure reaches must not take
    # that lock again -- also not for another key of the same sharded structure: two ids can
    # share a shard.
    hof = {}
    for fn, lst in acq.items():
        b = ctx.prog.bodies[fn]
        for (i, cls, mode, g) in lst:
            reg, cut = held_region(b, i, g)
            for x in reg:
                t = b.term(x)
                if t["k"] != "call":
                    continue
                direct_call = re.search(r"as std::ops::(FnOnce|FnMut|Fn)<.*>>::call(_once|_mut)?$", t["f"] or "") and t["a"] and not op_is_const(t["a"][0]) and op_place(t["a"][0])["l"] <= b.nargs
                # or the parameter closure is handed on to a std adaptor that runs it (Option::map(f))
                forwarded = any((not op_is_const(a)) and any(re.match(r"^(F|G|impl (Fn|FnMut|FnOnce).*)$", b.locals[p_]) for p_ in prov.operand_origins(b, a).params()) for a in t["a"])
                if direct_call or forwarded:
                    hof.setdefault(fn, set()).add(cls)
    # wrappers that hand their own closure parameter on to a lock-holding higher-order function
    # (trait impls forwarding to the inherent method), and trait methods with such impls
    for _round in range(4):
        grew = False
        for fn, b in ctx.prog.bodies.items():
            for x, t in b.calls():
                c = callee(t)
                tgts = [c] + sorted(ctx.cg.dyn.get(tuple((t["def"] or "").rsplit("::", 1)), ())) if not t.get("res") else [c]
                for c_ in tgts:
                    if c_ in hof and any((not op_is_const(a)) and any(re.match(r"^(F|G|impl (Fn|FnMut|FnOnce).*)$", b.locals[p_]) for p_ in prov.operand_origins(b, a).params()) for a in t["a"]):
                        if not hof[c_] <= hof.get(fn, set()):
                            hof.setdefault(fn, set()).update(hof[c_]); grew = True
        if not grew:
            break
    for (tr, m), impls in ctx.cg.dyn.items():
        for im in impls:
            if im in hof:
                hof.setdefault("%s::%s" % (tr, m), set()).update(hof[im])
    nh = 0
    for fn, b in sorted(ctx.prog.bodies.items()):
        if "::tests::" in fn:
            continue
        for x, t in b.calls():
            c = callee(t)
            if c not in hof or not t.get("clos"):
                continue
            for r in t["clos"]:
                if r not in ctx.prog.bodies:
                    continue
                nh += 1
                again = {c2 for (c2, m2) in tset(r) if c2 in hof[c]}
                R.inst(fn, "closure-under:%s" % c.split("::")[-1], {"function": fn, "at": b.loc(x), "lock_held_while_closure_runs": sorted(hof[c]), "closure_reacquires": sorted(again)} if nh % 9 == 0 or again else None)
                if again:
                    via = ctx.cg.path(r, {f2 for f2, l2 in acq.items() if any(c2 in again for (_, c2, _, _) in l2)}) or []
                    R.finding(fn, "reentrant:%s:closure-under:%s" % (sorted(again)[0].split("::")[-1], c.split("::")[-1]),
                              "%s hands %s a closure (line %d) that itself acquires %s, the lock %s holds while the closure runs: the command thread deadlocks on itself (two connection ids can share a shard)" % (
                                  fn.split("::")[-1], c.split("::")[-1], b.bb_line(x), sorted(again)[0], c.split("::")[-1]), b.loc(x), witness=[str(v) for v in via][:6])
    R.floor("closures_run_under_a_lock", nh)
    R.floor("lock_acquisition_sites", n)
    R.inst("locks", "summary", {"acquisition_sites": n, "functions_with_locks": len(acq), "higher_order_lock_holders": sorted(hof)})


def in_distinct_objects_branch(b, x):
    """block x lies on the false edge of an Arc::ptr_eq test: the two lock objects are different"""
    for i, t in b.calls():
        if re.search(r"^std::sync::Arc::<.*>::ptr_eq$", t["f"] or "") and t["t"] >= 0:
            sw = shared._follow_to_switch(b, t["t"], t["d"]["l"])
            if sw:
                zero = dict(sw[1]["ts"]).get(0)
                if zero is not None and x in cfg.edge_dom_set(b, sw[0], zero):
                    return True
    return False


def same_receiver(b, o1, o2):
    import rules_rdb
    r1 = rules_rdb.root_locals(b, o1); r2 = rules_rdb.root_locals(b, o2)
    # same root variable other than self means the same object; two shard handles obtained from
    # different get_shard calls are different objects
    c1 = {r for r in prov.operand_origins(b, o1).roots if r[0] == "call"}
    c2 = {r for r in prov.operand_origins(b, o2).roots if r[0] == "call"}
    if c1 and c2:
        return bool(c1 & c2)
    return bool((r1 & r2) - {1})


# ---------------------------------------------------------------------------------------------
# R-RUN-FATAL: an Err that reaches Server::run's return ends the process (main prints it and
# exits).  Only the listening socket may be the origin of such an error; an error that depends
# on client data (storage, handlers, per-connection I/O, parsing) must be handled below run.
# no origin at all is accepted any more: even the listening socket's errors (EMFILE when clients
# exhaust the file descriptors, ECONNABORTED) are conditions a client can provoke
FATAL_OK = re.compile(r"$^")


def rule_run_fatal(ctx, R):
    import errflow
    fn = SERVER + "run"
    b = ctx.prog.need(fn)
    E = errflow.ErrFlow(ctx)
    tries = [i for i, t in b.calls() if re.search(r"std::ops::Try>::branch$", t["f"] or "")]
    R.floor("try_sites_in_run", min(len(tries), 1))
    R.inst(fn, "error-flow-followed", {"functions": len(E.origins(fn)) and len(E.memo) or len(E.memo)})
    org = E.origins(fn)
    groups = {}
    for o in org:
        if o[0] == "extern":
            if FATAL_OK.search(o[1]):
                R.inst(fn, "fatal-origin:listener", {"origin": o[1], "via": o[2]})
                continue
            groups.setdefault("extern:" + o[1].split("::<")[0], []).append(o)
        elif o[0] == "ctor":
            groups.setdefault("error-from:" + runner_stable(o[1]), []).append(o)
        else:
            groups.setdefault("param:" + runner_stable(o[1]), []).append(o)
    R.inst(fn, "error-origins-of-run", {"try_sites": len(tries), "origins": len(org), "functions_followed": len(E.memo), "unaccepted": len(groups)})
    for k, os_ in sorted(groups.items()):
        o = os_[0]
        where = o[1] if o[0] != "extern" else (o[2] or o[1])
        wb = ctx.prog.bodies.get(where)
        loc = "%s:%s" % (wb.file, o[-1]) if wb is not None and o[-1] else b.loc()
        R.finding(fn, "fatal:" + k,
                  "an error raised in %s can propagate through `?` up to Server::run, whose Err ends the process: a condition a client can provoke (wrong type, full memory, a dropped socket) must not stop the server" % (o[1]), loc)


def runner_stable(fn):
    import runner
    return runner.stable_fn(fn) if hasattr(runner, "stable_fn") else fn


# ---- R-DEADLINE-BOUND -------------------------------------------------------------------------
TIME_ADD = re.compile(r"^std::time::Instant::checked_add$|^<std::time::Instant as std::ops::Add<std::time::Duration>>::add$")
MINLIKE = re.compile(r"(^std::cmp::min::<|as std::cmp::Ord>::(min|clamp)$)")


def _const_rooted(b, o, depth=0):
    """operand is a constant or a copy of one (named consts are promoted or evaluated)"""
    if op_is_const(o):
        return True
    if depth > 6:
        return False
    import prov
    ds = prov.build_defs(b).get(op_place(o)["l"], ())
    return bool(ds) and all(kind == "stmt" and x["r"]["k"] in ("use", "ref") and not x["l"]["p"] and
                            (_const_rooted(b, x["r"]["o"], depth + 1) if x["r"]["k"] == "use" else False) for kind, _, x in ds)


def const_bounded(b, o, depth=0):
    """the value has a constant upper bound on every definition: min/clamp against a constant,
    a narrow unsigned source, or a Duration built from such a number"""
    if op_is_const(o):
        return True
    if depth > 8:
        return False
    import prov
    pl = op_place(o)
    ds = prov.build_defs(b).get(pl["l"], ())
    if not ds:
        return False
    for kind, bbi, x in ds:
        if kind == "call":
            f = x["f"] or ""
            if MINLIKE.search(f) and len(x["a"]) >= 2 and any(_const_rooted(b, a) for a in x["a"][1:] + x["a"][:1] if a is not x["a"][0]) :
                continue
            if MINLIKE.search(f) and len(x["a"]) >= 2 and _const_rooted(b, x["a"][0]):
                continue
            if re.search(r"^std::time::Duration::(from_secs|from_millis|from_micros|from_nanos)$", f) and const_bounded(b, x["a"][0], depth + 1):
                continue
            if re.search(r"Deref>::deref$|::clone$|Option::<.*>::(unwrap|expect)$", f) and x["a"] and const_bounded(b, x["a"][0], depth + 1):
                continue
            return False
        else:
            r = x["r"]
            if x["l"]["p"]:
                return False
            if r["k"] == "use" and const_bounded(b, r["o"], depth + 1):
                continue
            if r["k"] == "cast" and (re.match(r"^u(8|16|32)$", r.get("from", "")) or const_bounded(b, r["o"], depth + 1)):
                continue
            return False
    return True


def rule_deadline_bound(ctx, R):
    """the stored-deadline invariant the TTL consumers rely on (the dump writers add the remaining
    TTL to the wall clock without a check; TTL/PTTL convert it): a key's deadline is at most a
    constant away from `now`.  Every `Instant + Duration` / `Instant::checked_add` in the modules
    that own deadlines (storage::value, storage::engine) bounds the Duration by a constant first."""
    n = 0
    for fn, b in sorted(ctx.prog.bodies.items()):
        if not fn.startswith(("storage::value::", "storage::engine::")) or "::tests::" in fn:
            continue
        k = 0
        for i, t in b.calls():
            if not TIME_ADD.match(t["f"] or "") or len(t["a"]) < 2:
                continue
            n += 1
            ok = const_bounded(b, t["a"][1])
            R.inst(fn, "instant-plus-duration#%d" % k, {"function": fn, "at": b.loc(i), "duration_bounded_by_constant": ok})
            if not ok:
                R.finding(fn, "instant-plus-duration#%d:unbounded" % k,
                          "%s computes a deadline (line %d) from a Duration that is not bounded by a constant: a client TTL near u64::MAX ms then survives into the stored deadline, and the dump writers' unchecked `now + remaining TTL` (SAVE, BGSAVE, SYNC) panic" % (fn.split("::")[-1], b.bb_line(i)), b.loc(i))
            k += 1
    R.floor("deadline_additions", n)


# ---- R-UTF8-UNCHECKED -----------------------------------------------------------------------------
def rule_utf8_unchecked(ctx, R):
    """no bytes a client (or a file) supplied are declared to be UTF-8 without a check:
    `from_utf8_unchecked` on the command path takes only bytes the server produced itself (its
    argument's provenance has no parameter / frame payload and no read buffer).  On unchecked
    client bytes every later `&s[i..]`, `char` walk or `find` can panic on a non-boundary index
    (or worse): `XADD s "-\\x80" f v` ends the process."""
    cp = shared.command_path(ctx)
    n = 0
    for fn in sorted(cp):
        b = ctx.prog.bodies.get(fn)
        if b is None or "::tests::" in fn:
            continue
        for i, t in b.calls():
            if not re.search(r"str::from_utf8_unchecked(_mut)?$|String::from_utf8_unchecked$|converts::from_utf8_unchecked$", t["f"] or "") or not t["a"]:
                continue
            n += 1
            a = t["a"][0]
            P = prov.operand_origins(b, a, deep=True) if not op_is_const(a) else None
            own = P is None or (not P.params() and not any(r[0] in ("upvar",) for r in P.roots) and not P.has_call(r"Read>::read|read_exact|read_line|read_until|RespFrame"))
            R.inst(fn, "unchecked-utf8#%d" % n, {"function": fn, "at": b.loc(i), "argument_is_server_made": own})
            if not own:
                R.finding(fn, "unchecked-utf8:input-bytes", "%s declares bytes that arrive from outside to be UTF-8 without checking them (line %d): a later slice or search of the `str` at a non-boundary byte index panics -- the process exits for every client" % (fn.split("::")[-1], b.bb_line(i)), b.loc(i))
    R.inst("-", "unchecked-utf8", {"sites_on_the_command_path": n})


# ---- R-RETRY-BUDGET -------------------------------------------------------------------------------
def rule_retry_budget(ctx, R):
    """a loop on the command thread that waits (thread::sleep) between retries is bounded by an
    attempt budget: the counter the loop's exit test compares with a constant is only counted up
    inside the loop, never set back.  Restoring the budget whenever the peer takes a few bytes
    lets one slow reader keep the single command thread in that loop for as long as it likes."""
    cp = shared.command_path(ctx)
    n = 0
    for fn in sorted(cp):
        b = ctx.prog.bodies.get(fn)
        if b is None or "::tests::" in fn:
            continue
        lps = cfg.loops(b)
        for h, body in lps.items():
            if not any(b.term(x)["k"] == "call" and re.search(r"std::thread::sleep$", b.term(x)["f"] or "") for x in body):
                continue
            # counters compared with a constant inside the loop
            counters = set()
            for x in body:
                for st in b.stmts(x):
                    if st["k"] == "=" and st["r"]["k"] == "bin" and st["r"]["op"] in ("Lt", "Le", "Gt", "Ge"):
                        a, c = st["r"]["a"], st["r"]["b"]
                        for v, k in ((a, c), (c, a)):
                            if not op_is_const(v) and op_is_const(k) and re.match(r"^(u|i)(8|16|32|64|size)$", b.locals[op_place(v)["l"]]):
                                # follow one copy back to the named counter
                                l = op_place(v)["l"]
                                for kind, db, d in prov.build_defs(b).get(l, ()):
                                    if kind == "stmt" and d["r"]["k"] == "use" and not op_is_const(d["r"]["o"]) and not op_place(d["r"]["o"])["p"]:
                                        counters.add(op_place(d["r"]["o"])["l"])
                                counters.add(l)
            counted = {l for l in counters for x in body for st in b.stmts(x)
                       if st["k"] == "=" and st["l"]["l"] == l and not st["l"]["p"] and st["r"]["k"] == "use" and not op_is_const(st["r"]["o"]) and op_place(st["r"]["o"])["p"]}
            if not counted:
                continue
            n += 1
            resets = [(x, st) for x in sorted(body) for st in b.stmts(x)
                      if st["k"] == "=" and st["l"]["l"] in counted and not st["l"]["p"] and st["r"]["k"] == "use" and op_is_const(st["r"]["o"])]
            R.inst(fn, "retry-loop@%d" % b.bb_line(h), {"function": fn, "loop_at": b.loc(h), "budget_counters": len(counted), "resets_inside_the_loop": len(resets)})
            if resets:
                x, st = resets[0]
                R.finding(fn, "retry-budget:reset-inside-the-loop",
                          "%s sets its attempt counter back (line %d) inside the loop that sleeps between retries: the loop is no longer bounded by the budget -- a peer that takes a few bytes at a time keeps the single command thread here and nobody else is answered" % (fn.split("::")[-1], b.bb_line(x)), b.loc(x))
    R.floor("sleeping_retry_loops", n)
