"""C03: structural rules for in-place collection edits.
R-REMOVE-ITER: a loop that walks a list by ascending index and removes the element at the index
must not also advance the index in the iteration that removed (the element that slid into the slot
would be skipped): LREM with adjacent matches then removes the wrong / too few occurrences."""
import re
from facts import callee, op_local, op_place, op_is_const, const_int
import cfg, shared, prov, rules_cmd
from shared import ENGINE

REMOVE_AT = re.compile(r"^std::(collections::VecDeque|vec::Vec)::<.*>::(remove|swap_remove|swap_remove_back|swap_remove_front)$")


def copy_sources(b, op, depth=6):
    """locals the operand is a plain copy of"""
    if op_is_const(op):
        return set()
    out = set(); st = [(op_place(op)["l"], 0)]
    defs = prov.build_defs(b)
    while st:
        l, d = st.pop()
        if l in out or d > depth:
            continue
        out.add(l)
        for kind, bbi, x in defs.get(l, ()):
            if kind == "stmt" and not x["l"]["p"] and x["r"]["k"] == "use" and not op_is_const(x["r"]["o"]) and not op_place(x["r"]["o"])["p"]:
                st.append((op_place(x["r"]["o"])["l"], d + 1))
    return out


def self_increments(b, l):
    """blocks where local l is assigned l + const (through the checked-add tuple)"""
    out = []
    defs = prov.build_defs(b)
    for kind, bbi, x in defs.get(l, ()):
        if kind != "stmt" or x["l"]["p"]:
            continue
        r = x["r"]
        srcs = []
        if r["k"] == "bin":
            srcs = [(r, bbi)]
        elif r["k"] == "use" and not op_is_const(r["o"]):
            pl = op_place(r["o"])
            for k2, bb2, x2 in defs.get(pl["l"], ()):
                if k2 == "stmt" and x2["r"]["k"] == "bin":
                    srcs.append((x2["r"], bb2))
        for rr, _ in srcs:
            op = rr["op"].replace("WithOverflow", "")
            if op != "Add":
                continue
            for a, c in ((rr["a"], rr["b"]), (rr["b"], rr["a"])):
                if not op_is_const(a) and l in copy_sources(b, a) and op_is_const(c) and (const_int(c) or 0) > 0:
                    out.append(bbi)
    return out


def remove_iter_issues(b):
    """[(remove_bb, incr_bb, index_local)] : index advanced in the iteration that removed at it"""
    issues = []; sites = 0
    lps = cfg.loops(b)
    back = cfg.back_edges(b)
    for i, t in b.calls():
        if not REMOVE_AT.match(t["f"] or "") or len(t["a"]) < 2 or b.bbs[i].get("cleanup"):
            continue
        inl = [(h, body) for h, body in lps.items() if i in body]
        if not inl:
            continue
        sites += 1
        head, body = min(inl, key=lambda hb: len(hb[1]))
        for l in copy_sources(b, t["a"][1]):
            incs = [y for y in self_increments(b, l) if y in body]
            if not incs:
                continue
            # same-iteration reachability from the removal to the increment
            seen = set(); st = [t["t"]] if t["t"] >= 0 else []
            while st:
                x = st.pop()
                if x in seen or x not in body:
                    continue
                seen.add(x)
                for y in b.succs(x):
                    if (x, y) in back:
                        continue
                    st.append(y)
            hit = [y for y in incs if y in seen]
            if hit:
                issues.append((i, hit[0], l))
    return sites, issues


def rule_remove_iter(ctx, R):
    n = 0; ns = 0
    for fn, b in sorted(shared.engine_bodies(ctx.prog).items()):
        n += 1
        sites, issues = remove_iter_issues(b)
        ns += sites
        if sites:
            R.inst(fn, "indexed-removals-in-loops", {"function": fn, "sites": sites, "index_advanced_after_removal": len(issues)})
        for i, y, l in issues[:1]:
            R.finding(fn, "remove-at-index:then-advance",
                      "%s removes the element at index `%s` (line %d) and advances the index in the same iteration (line %d): the element that moved into the slot is never examined, so adjacent matches are skipped" % (
                          fn.split("::")[-1], b.names.get(l, "_%d" % l), b.bb_line(i), b.bb_line(y)), b.loc(i))
    R.inst("storage::engine", "engine-methods-scanned-for-indexed-removal-loops", {"functions": n, "removal_sites_in_loops": ns})
    R.floor("engine_methods_scanned", min(n, 50))


# ---- R-SETALG-MISSING ---------------------------------------------------------------------------------
# what a key that does not exist means for the operand loop of the multi-key set commands: the empty
# set.  Union and difference skip it, an intersection becomes empty.
MISSING_OPERAND = {"sunion": "skip", "sdiff": "skip", "sinter": "empty"}


def rule_setalg_missing(ctx, R):
    from shared import ENGINE, SHARD_MAP
    n = 0
    for nm, want in sorted(MISSING_OPERAND.items()):
        cands = [b for fn, b in ctx.prog.bodies.items() if re.match(r"^" + re.escape(ENGINE + nm) + r"(::<.*>)?$", fn)]
        if not cands:
            raise shared.AnchorMissing("anchor function not found in facts: %s%s" % (ENGINE, nm))
        b = cands[0]
        lps = cfg.loops(b)
        found = False
        for i, t in b.calls():
            if not re.search(SHARD_MAP + r"(get|get_mut)\b", t["f"] or ""):
                continue
            inl = [(h, body) for h, body in lps.items() if i in body]
            if not inl:
                continue
            head, body = max(inl, key=lambda hb: len(hb[1]))
            rs = shared.result_switch(b, i)
            if rs is None or not rs["fail"]:
                continue
            found = True
            n += 1
            back_to_head = any(head in cfg.fwd(b, [f0]) for f0 in rs["fail"])
            got = "skip" if back_to_head else "empty"
            R.inst(b.fn, "missing-operand", {"command": nm.upper(), "at": b.loc(i), "a_missing_later_key": got, "reference": want})
            if got != want:
                R.finding(b.fn, "missing-operand:%s-instead-of-%s" % (got, want),
                          "%s treats a later key that does not exist by %s (line %d); a missing key is the empty set, so %s" % (
                              nm.upper(), "leaving the operand loop with the result it has / an empty result" if got == "empty" else "skipping it", b.bb_line(i),
                              "a union and a difference are unchanged by it (SDIFF a missing = a)" if want == "skip" else "the intersection is empty"), b.loc(i))
        if not found:
            R.note("%s: no shard-map lookup inside an operand loop recognised" % nm)
    R.floor("operand_loops", n)


# ---- R-IDX-SINGLE -------------------------------------------------------------------------------------
_ELEM_ACCESS = re.compile(r"^(std::collections::VecDeque::<.*>::(get|get_mut|remove|insert|swap|swap_remove_back|swap_remove_front)"
                          r"|<std::collections::VecDeque<.*> as std::ops::Index(Mut)?<usize>>::index(_mut)?"
                          r"|(core|std)::slice::<impl \[.*\]>::(get|get_mut)::<usize>|<std::vec::Vec<.*> as std::ops::Index(Mut)?<usize>>::index(_mut)?|std::vec::Vec::<.*>::(remove|insert|swap_remove))$")
_CLAMPS = re.compile(r"::(saturating_sub|saturating_add|saturating_sub_unsigned|saturating_add_signed|max|min|clamp|rem_euclid|wrapping_rem_euclid|unwrap_or|unwrap_or_default)(::<.*>)?$")
_CMP = ("Lt", "Le", "Gt", "Ge", "Eq", "Ne")


def _element_accesses(ctx, b):
    """[(block in b, callee, index operand in b, receiver operand in b)] -- element accesses made in
    b itself, and those made inside a closure handed to an Option adaptor whose item is the index
    (`resolve(..).and_then(|p| list.get_mut(p))`: the index is the adaptor's receiver, the
    sequence is what the closure captured)"""
    out = []
    for i, t in b.calls():
        if b.bbs[i]["cleanup"]:
            continue
        if _ELEM_ACCESS.match(t["f"] or "") and len(t["a"]) >= 2:
            out.append((i, t["f"], t["a"][1], t["a"][0]))
        if t.get("clos") and re.search(r"Option::<.*>::(and_then|map|filter_map|map_or|map_or_else|is_some_and)(::<.*>)?$", t["f"] or "") and t["a"]:
            for cl in t["clos"]:
                cb = ctx.prog.bodies.get(cl)
                if cb is None:
                    continue
                # the closure aggregate in b and its captured operands
                caps = None
                for a in t["a"]:
                    if op_is_const(a):
                        continue
                    for kind, bbi, x in prov.build_defs(b).get(op_place(a)["l"], ()):
                        if kind == "stmt" and x["r"]["k"] == "agg" and x["r"]["a"] == "closure:" + cl:
                            caps = x["r"]["o"]
                for j, tt in cb.calls():
                    if not _ELEM_ACCESS.match(tt["f"] or "") or len(tt["a"]) < 2 or op_is_const(tt["a"][1]):
                        continue
                    Pi = prov.operand_origins(cb, tt["a"][1])
                    if not (Pi.params() - {1}):
                        continue          # the index is not the closure's item
                    recv = None
                    Pr = prov.operand_origins(cb, tt["a"][0]) if not op_is_const(tt["a"][0]) else None
                    if Pr is not None and caps:
                        for r_ in Pr.roots:
                            if r_[0] == "upvar":
                                k = None
                                try:
                                    import json as _j
                                    for e_ in _j.loads(r_[1]):
                                        if isinstance(e_, dict) and "f" in e_ and str(e_["f"]).isdigit():
                                            k = int(e_["f"]); break
                                except Exception:
                                    k = None
                                if k is not None and k < len(caps):
                                    recv = caps[k]
                    out.append((i, tt["f"], t["a"][0], recv))
    return out


def single_index_sites(ctx, fn, b):
    """[(block, callee, n_calls_on_flow, clamps, related, receiver operand)] for element accesses of
    sequences in b whose index derives from a signed integer parameter"""
    import flow
    out = []
    sparams = [l for l in range(1, b.nargs + 1) if re.match(r"^(isize|i64|i32|i128)$", b.locals[l] or "")]
    if not sparams:
        return out
    for i, f, idx, recv in _element_accesses(ctx, b):
        if op_is_const(idx):
            continue
        P = prov.operand_origins(b, idx, deep=True)
        if not (P.params() & set(sparams)):
            continue
        calls = flow.flow_calls(ctx, fn, idx, seen={(fn, p) for p in range(1, b.nargs + 1)})
        clamps = sorted((c, w, bb) for (c, w, bb) in calls if _CLAMPS.search(c or ""))
        # a comparison relating the index parameter and the length, dominating the access
        related = False
        for d in [x for x in range(len(b.bbs)) if cfg.dominates(b, x, i)]:
            for st in b.bbs[d]["s"]:
                if st["k"] == "=" and st["r"]["k"] == "bin" and st["r"].get("op") in _CMP:
                    Q = [prov.operand_origins(b, o, deep=True) for o in (st["r"]["a"], st["r"]["b"]) if not op_is_const(o)]
                    has_p = any(q.params() & set(sparams) for q in Q)
                    has_len = any(q.has_call(r"::len$") for q in Q)
                    if has_p and has_len:
                        related = True
        out.append((i, f, len(calls), clamps, related, recv))
    return out


def rule_idx_single(ctx, R):
    """LINDEX / LSET address ONE element: an index outside [-len, len) is refused (nil / `index out
    of range`), never moved to the nearest element.  In the storage methods behind them the index
    of the element access, when it derives from the signed index parameter, has no clamping or
    wrapping step (saturating_*, max / min / clamp, rem_euclid, unwrap_or) on its interprocedural
    value flow -- unless a comparison relating the parameter to the list's length dominates the
    access (the clamp is then a no-op behind a range check).  Clamping is what the RANGE commands do."""
    reach = rules_cmd.arms_reach(ctx, ("LINDEX", "LSET"))
    n = 0
    for fn in sorted(reach):
        b = ctx.prog.bodies.get(fn)
        if b is None or not fn.startswith("storage::") or "::tests::" in fn or b.kind == "Closure":
            continue
        for i, f, ncalls, clamps, related, recv in single_index_sites(ctx, fn, b):
            if recv is None or op_is_const(recv) or not shared.from_dataset(b, recv):
                continue
            n += 1
            R.inst(fn, "element-access:%s" % shared.short_callee(f), {"function": fn, "at": b.loc(i), "calls_on_the_index_flow": ncalls, "clamping": [shared.short_callee(c) for c, _, _ in clamps][:3], "range_comparison_dominates": related})
            if clamps and not related:
                c, w, bb = clamps[0]
                R.finding(fn, "element-access:%s:index-clamped" % shared.short_callee(f).split("::")[-1],
                          "%s reaches the element at an index that went through %s (%s) with no comparison of the index against the list's length before it: an index below -len is moved onto the head instead of being refused (LINDEX answers an element, LSET overwrites one)" % (
                              fn.split("::")[-1], shared.short_callee(c), ctx.prog.bodies[w].loc(bb)), b.loc(i))
    R.floor("single_element_accesses_by_client_index", n)


# ---- R-RANGE-STOP -------------------------------------------------------------------------------------
_LOWER_CLAMP = re.compile(r"::(max|saturating_sub|saturating_add|clamp|unwrap_or|unwrap_or_default)(::<.*>)?$")


def range_stop_issues(ctx, fn, b):
    """for a function with two signed index parameters (start, stop -- in that order):
    (a) lower clamps (`max(0)`, saturating arithmetic) applied to a value that derives from the
        stop parameter and not from start: a stop below -len must give the EMPTY range, a clamp
        moves it onto the first element;
    (b) range-primitive calls (`range_by_rank`) not dominated by a comparison relating the start
        index and the length (start beyond the end = empty, in both directions)."""
    sp = [l for l in range(1, b.nargs + 1) if re.match(r"^(isize|i64)$", b.locals[l] or "")]
    if len(sp) != 2:
        return None
    start, stop = sp
    clamps = []
    for i, t in b.calls():
        if b.bbs[i]["cleanup"] or not _LOWER_CLAMP.search(t["f"] or "") or not t["a"]:
            continue
        if not re.search(r"(isize|i64|usize|Ord)", t["f"] or ""):
            continue
        ps = set()
        for a in t["a"][:1]:
            if not op_is_const(a):
                ps |= prov.operand_origins(b, a, deep=True).params()
        if stop in ps and start not in ps:
            # `min` is an upper clamp; `max` a lower one.  saturating_sub on a value derived from
            # stop only is a lower clamp as well
            clamps.append((i, shared.short_callee(t["f"])))
    unrelated = []
    for i, t in b.calls():
        if b.bbs[i]["cleanup"] or not re.search(r"::range_by_rank$", t["f"] or ""):
            continue
        related = False
        for d in [x for x in range(len(b.bbs)) if cfg.dominates(b, x, i)]:
            for st in b.bbs[d]["s"]:
                if st["k"] == "=" and st["r"]["k"] == "bin" and st["r"].get("op") in _CMP:
                    Q = [prov.operand_origins(b, o, deep=True) for o in (st["r"]["a"], st["r"]["b"]) if not op_is_const(o)]
                    if any(start in q.params() for q in Q) and any(q.has_call(r"::len$") for q in Q):
                        related = True
        if not related:
            unrelated.append(i)
    return clamps, unrelated


def rule_range_stop(pid):
    names = {"C03": ("LRANGE", "LTRIM"), "C04": ("ZRANGE", "ZREVRANGE")}[pid]

    def rule(ctx, R):
        """index ranges (LRANGE / LTRIM / ZRANGE / ZREVRANGE): after a negative index is counted
        from the end, a START below 0 becomes 0, but a STOP below 0 means the range is empty --
        as does a start beyond the last element, whichever direction is read."""
        reach = rules_cmd.arms_reach(ctx, names)
        n = 0
        for fn in sorted(reach):
            b = ctx.prog.bodies.get(fn)
            if b is None or not fn.startswith("storage::engine::") or "::tests::" in fn or b.kind == "Closure":
                continue
            iss = range_stop_issues(ctx, fn, b)
            if iss is None:
                continue
            clamps, unrelated = iss
            n += 1
            R.inst(fn, "index-range", {"function": fn, "lower_clamps_on_stop": [c for _, c in clamps], "range_calls_without_start_vs_length_test": len(unrelated)})
            for i, c in clamps[:1]:
                R.finding(fn, "index-range:stop-clamped-from-below:%s" % c.split("::")[-1],
                          "%s clamps the stop index from below (%s, line %d): a stop that is still negative after counting from the end (stop < -len) means the empty range, the clamp turns it into index 0 and the first element is answered (LRANGE l 0 -10 on three elements; LTRIM keeps an element instead of deleting the key)" % (fn.split("::")[-1], c, b.bb_line(i)), b.loc(i))
            for i in unrelated[:1]:
                R.finding(fn, "index-range:start-not-compared-with-length",
                          "%s reads a rank range (line %d) on a path with no comparison of the start index against the length: a start beyond the last element must give the empty range in both directions (ZREVRANGE z 7 10 on three members answers the lowest one)" % (fn.split("::")[-1], b.bb_line(i)), b.loc(i))
        R.floor("index_range_methods", n)
    return rule


# ---- R-HASH-LASTWINS ----------------------------------------------------------------------------------
def rule_hash_lastwins(ctx, R):
    """`hashes hold unique fields` with the LAST value given: where HSET / HMSET fill a field map
    through the entry API, an occupied entry is overwritten too (OccupiedEntry::insert, a store
    through or_insert's result, and_modify) -- a vacant-only insertion keeps the first of two
    values named for one field in one command."""
    reach = rules_cmd.arms_reach(ctx, ("HSET", "HMSET"))
    FM = r"std::collections::hash_map::(VacantEntry|Entry)::<('_, )?std::vec::Vec<u8>, std::vec::Vec<u8>(, [^>]*)?>::"
    n = 0
    for fn in sorted(reach):
        b = ctx.prog.bodies.get(fn)
        if b is None or not fn.startswith("storage::engine::") or "::tests::" in fn or b.kind == "Closure":
            continue
        plain = [i for i, t in b.calls() if re.search(r"^std::collections::HashMap::<std::vec::Vec<u8>, std::vec::Vec<u8>>::insert$", t["f"] or "") and not b.bbs[i]["cleanup"]]
        vac = [i for i, t in b.calls() if re.search(FM + r"(insert|insert_entry|or_insert|or_insert_with|or_default)(::<.*>)?$", t["f"] or "") and not b.bbs[i]["cleanup"]]
        if not plain and not vac:
            continue
        n += 1
        loops = cfg.loops(b)
        for i in vac:
            scope = set(range(len(b.bbs)))
            inl = [body for h, body in loops.items() if i in body]
            if inl:
                scope = min(inl, key=len)
            over = False
            for x in scope:
                t = b.term(x)
                if t["k"] == "call" and re.search(r"hash_map::OccupiedEntry::<('_, )?std::vec::Vec<u8>, std::vec::Vec<u8>(, [^>]*)?>::(insert|get_mut|into_mut)$|hash_map::Entry::<('_, )?std::vec::Vec<u8>, std::vec::Vec<u8>(, [^>]*)?>::and_modify", t["f"] or ""):
                    over = True
                for st in b.bbs[x]["s"]:
                    if st["k"] == "=" and "*" in st["l"]["p"] and prov.origins(b, st["l"]["l"]).has_call(FM + r"(or_insert|or_insert_with|or_default)"):
                        over = True
            R.inst(fn, "field-insert:entry-api", {"function": fn, "at": b.loc(i), "occupied_entry_overwritten_too": over})
            if not over:
                R.finding(fn, "field-insert:vacant-only",
                          "%s stores a field through the entry API only when the entry is vacant (line %d): a later occurrence of the same field in one HSET / HMSET is dropped, so the first value wins where the last one must" % (fn.split("::")[-1], b.bb_line(i)), b.loc(i))
    R.floor("field_map_writers", n)


# ---- R-SRAND-REPEAT -------------------------------------------------------------------------------
def rule_srand_repeat(ctx, R):
    """SRANDMEMBER with a negative count answers exactly |count| picks, with repetition: the loop
    that draws one member per iteration (`choose`) runs a number of times that does not depend on
    the set's cardinality (no `len()` / `min(.., len)` on the provenance of the loop's range end).
    Capping it at the cardinality answers too few elements for |count| > SCARD."""
    import taint
    n = 0
    for fn, b in sorted(ctx.prog.bodies.items()):
        if not fn.startswith(ENGINE) or "::tests::" in fn or b.kind == "Closure":
            continue
        lps = cfg.loops(b)
        for h, body in lps.items():
            picks = [x for x in body if b.term(x)["k"] == "call" and re.search(r"(SliceRandom|IteratorRandom|IndexedRandom)>::choose(::<.*>)?$", b.term(x)["f"] or "")]
            if not picks:
                continue
            # the range this loop iterates
            its = [x for x in range(len(b.bbs)) if b.term(x)["k"] == "call" and re.search(r"Range<usize> as std::iter::IntoIterator>::into_iter$|Range<u64> as std::iter::IntoIterator>::into_iter$|RangeInclusive<usize> as std::iter::IntoIterator>::into_iter$", b.term(x)["f"] or "") and b.term(x)["t"] in cfg.bwd(b, [h]) | {h}]
            for x in its:
                t = b.term(x)
                ends = taint.range_ends(b, t["a"][0]) if t["a"] and not op_is_const(t["a"][0]) else None
                if not ends or op_is_const(ends[1]):
                    continue
                n += 1
                P = prov.operand_origins(b, ends[1], deep=True)
                capped = P.has_call(r"::len$")
                R.inst(fn, "repeat-picks@%d" % b.bb_line(x), {"function": fn, "at": b.loc(x), "iterations_depend_on_the_cardinality": capped})
                if capped:
                    R.finding(fn, "repeat-picks:capped-at-cardinality",
                              "%s draws its with-repetition picks in a loop (line %d) whose iteration count is derived from the collection's length: a negative count larger than the cardinality answers fewer elements than asked for" % (fn.split("::")[-1], b.bb_line(x)), b.loc(x))
        # adaptor form: `(0..n).filter_map(|_| members.choose(..))` -- the draw sits in a closure an
        # iterator adaptor drives over a range built in this function
        for i, t in b.calls():
            if not t.get("clos") or not re.search(r"Iterator>::(map|filter_map|flat_map|for_each|fold|take_while)(::<.*>)?$", t["f"] or "") or not t["a"] or op_is_const(t["a"][0]):
                continue
            if not any(re.search(r"(SliceRandom|IteratorRandom|IndexedRandom)>::choose(::<.*>)?$", tt["f"] or "") for c in t["clos"] if c in ctx.prog.bodies for _, _, tt in shared.deep_calls(ctx, ctx.prog.bodies[c])):
                continue
            ends = taint.range_ends(b, t["a"][0])
            if not ends or op_is_const(ends[1]):
                continue
            n += 1
            capped = prov.operand_origins(b, ends[1], deep=True).has_call(r"::len$")
            R.inst(fn, "repeat-picks@%d" % b.bb_line(i), {"function": fn, "at": b.loc(i), "iterations_depend_on_the_cardinality": capped, "form": "adaptor over a range"})
            if capped:
                R.finding(fn, "repeat-picks:capped-at-cardinality",
                          "%s draws its with-repetition picks over a range (line %d) whose end is derived from the collection's length: a negative count larger than the cardinality answers fewer elements than asked for" % (fn.split("::")[-1], b.bb_line(i)), b.loc(i))
    R.floor("repeat_pick_loops", n)


# ---- R-RANGE-START --------------------------------------------------------------------------------
_DATA_READ = re.compile(r"Index(Mut)?<.*>>::index(_mut)?$|::range_by_rank$|::to_vec$|::iter$|Iterator>::(skip|take|nth)$|::get$|::range(::<.*>)?$|::drain(::<.*>)?$|::split_off$|::truncate$|::extend_from_slice$")


def range_start_issues(ctx, fn, b):
    """for a function with two signed index parameters (start, stop): comparisons of a value that
    derives from START (and not from stop) with 0 whose `negative` edge can no longer reach the
    data the other edge reads -- i.e. `resolved start < 0` is answered with the empty result
    instead of being clamped to the first element"""
    sp = [l for l in range(1, b.nargs + 1) if re.match(r"^(isize|i64)$", b.locals[l] or "")]
    if len(sp) != 2:
        return None
    start, stop = sp
    out = []; ncmp = 0
    for x, bb in enumerate(b.bbs):
        if bb.get("cleanup"):
            continue
        t = bb["t"]
        if t["k"] != "switch" or op_is_const(t["d"]):
            continue
        dl = op_local(t["d"])
        for st in bb["s"]:
            if st["k"] == "=" and st["l"]["l"] == dl and st["r"]["k"] == "bin" and st["r"]["op"] in ("Lt", "Ge", "Le", "Gt"):
                a, c = st["r"]["a"], st["r"]["b"]
                if op_is_const(c) and not op_is_const(a) and str(c.get("v")) == "0" and st["r"]["op"] in ("Lt", "Ge"):
                    ps = prov.operand_origins(b, a, deep=True).params()
                    if start in ps and stop not in ps:
                        ncmp += 1
                        ts = dict(t["ts"]); zero = ts.get(0); other = t["o"]
                        # Lt: true (non-zero) = negative; Ge: false (zero) = negative
                        neg = other if st["r"]["op"] == "Lt" else zero
                        pos = zero if st["r"]["op"] == "Lt" else other
                        if neg is None or pos is None or neg == pos:
                            continue
                        rn = cfg.fwd(b, [neg]); rp = cfg.fwd(b, [pos])
                        reads_p = {y for y in rp if b.term(y)["k"] == "call" and _DATA_READ.search(b.term(y)["f"] or "")}
                        reads_n = {y for y in rn if b.term(y)["k"] == "call" and _DATA_READ.search(b.term(y)["f"] or "")}
                        if reads_p and not reads_n:
                            out.append(x)
    return out, ncmp


def rule_range_start(pid):
    names = {"C01": ("GETRANGE",), "C03": ("LRANGE", "LTRIM"), "C04": ("ZRANGE", "ZREVRANGE")}[pid]

    def rule(ctx, R):
        """a START index that is still below 0 after counting from the end means `from the first
        element` (GETRANGE / LRANGE / LTRIM / ZRANGE): no test `start < 0` sends the command to
        its empty answer while the other edge goes on to read the data."""
        reach = rules_cmd.arms_reach(ctx, names)
        n = 0
        for fn in sorted(reach):
            b = ctx.prog.bodies.get(fn)
            if b is None or b.kind == "Closure" or "::tests::" in fn:
                continue
            res = range_start_issues(ctx, fn, b)
            if res is None:
                continue
            bad, ncmp = res
            n += 1
            R.inst(fn, "range-start", {"function": fn, "start_sign_tests": ncmp, "negative_start_answered_empty": len(bad)})
            for x in bad:
                R.finding(fn, "range-start:negative-start-is-empty",
                          "%s answers the empty result when the start index is still negative after counting from the end (test at line %d): it means `from the first element` (GETRANGE k -100 4 on 'Hello World' is 'Hello')" % (fn.split("::")[-1], b.bb_line(x)), b.loc(x))
        R.floor("two_index_range_functions", n)
    return rule
