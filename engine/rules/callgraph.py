"""A1: call graph over MIR bodies with closure edges, dyn expansion and spawn-edge cut."""
import collections
from facts import callee

SPAWN_DEFS = ("std::thread::spawn", "std::thread::Builder::spawn", "std::thread::Builder::spawn_unchecked",
              "std::thread::scope", "std::thread::Scope::spawn")


class CallGraph:
    def __init__(s, prog):
        s.prog = prog
        s.edges = collections.defaultdict(set)        # all edges except spawn
        s.spawn_edges = collections.defaultdict(set)  # caller -> closure run on a new thread
        s.callers = collections.defaultdict(set)
        s.sites = collections.defaultdict(list)       # callee -> [(caller, bb)]
        dyn = collections.defaultdict(set)            # trait method name -> impl methods
        for im in prog.impls:
            for m in im["methods"]:
                dyn[(im["trait"], m.rsplit("::", 1)[-1])].add(m)
        s.dyn = dyn
        for fn, b in prog.bodies.items():
            for i, t in b.calls():
                c = callee(t)
                is_spawn = t["def"] in SPAWN_DEFS
                tgt = s.spawn_edges if is_spawn else s.edges
                if not is_spawn:
                    s.edges[fn].add(c)
                    s.sites[c].append((fn, i))
                    if t.get("virt") or (not t.get("res") and tuple(t["def"].rsplit("::", 1)) in dyn and not t["def"].startswith(("std::", "core::", "alloc::"))):
                        # dyn Trait call, or a call through a generic bound (`C: ConnectionProvider`)
                        # that rustc leaves unresolved in the generic body:
                        # dyn Trait call: expand to all local impls of that trait method
                        tr = t["def"].rsplit("::", 1)
                        if len(tr) == 2:
                            for m in dyn.get((tr[0], tr[1]), ()):
                                s.edges[fn].add(m); s.sites[m].append((fn, i))
                for cl in t["clos"]:
                    tgt[fn].add(cl)
                    s.sites[cl].append((fn, i))
                # a function item handed over as a value (`.and_then(Self::parse_timeout)`) is run
                # by the callee like a closure
                for a in t.get("a") or ():
                    if isinstance(a, dict) and a.get("fn") and a["fn"] in prog.bodies:
                        tgt[fn].add(a["fn"])
                        s.sites[a["fn"]].append((fn, i))
            # closures constructed in this body but possibly passed around as values
            spawned = set()
            for i, t in b.calls():
                if t["def"] in SPAWN_DEFS:
                    spawned.update(t["clos"])
            for bb in b.bbs:
                for st in bb["s"]:
                    if st["k"] == "=" and st["r"]["k"] == "agg" and st["r"]["a"].startswith("closure:"):
                        c = st["r"]["a"][8:]
                        if c in spawned:
                            s.spawn_edges[fn].add(c)
                        else:
                            s.edges[fn].add(c)
        for a, bs in s.edges.items():
            for c in bs:
                s.callers[c].add(a)

    def reach(s, roots, spawn=False, stop=()):
        """functions reachable from roots (inclusive). spawn=False cuts thread-spawn edges.
        `stop`: functions not expanded (they are included but their callees are not)."""
        seen = set(roots); st = list(roots); stop = set(stop)
        while st:
            x = st.pop()
            if x in stop:
                continue
            for y in s.edges.get(x, ()):
                if y not in seen:
                    seen.add(y); st.append(y)
            if spawn:
                for y in s.spawn_edges.get(x, ()):
                    if y not in seen:
                        seen.add(y); st.append(y)
        return seen

    def reaches(s, fn, targets, spawn=False, _memo=None):
        """does fn reach any function in targets? (memoised by caller via cache dict)"""
        return bool(s.reach([fn], spawn) & set(targets))

    def reach_to(s, targets, spawn=False):
        """all functions from which some target is reachable (inclusive)"""
        rev = collections.defaultdict(set)
        for a, bs in s.edges.items():
            for c in bs:
                rev[c].add(a)
        if spawn:
            for a, bs in s.spawn_edges.items():
                for c in bs:
                    rev[c].add(a)
        seen = set(targets); st = list(targets)
        while st:
            x = st.pop()
            for y in rev.get(x, ()):
                if y not in seen:
                    seen.add(y); st.append(y)
        return seen

    def thread_roots(s):
        roots = set()
        for a, cs in s.spawn_edges.items():
            roots.update(cs)
        return roots

    def path(s, src, targets, spawn=False):
        """one call path src -> ... -> t (t in targets) for diagnostics"""
        from collections import deque
        targets = set(targets)
        prev = {src: None}; q = deque([src])
        while q:
            x = q.popleft()
            if x in targets:
                p = []
                while x is not None:
                    p.append(x); x = prev[x]
                return p[::-1]
            nxt = set(s.edges.get(x, ()))
            if spawn:
                nxt |= s.spawn_edges.get(x, set())
            for y in sorted(nxt):
                if y not in prev:
                    prev[y] = x; q.append(y)
        return None


def sccs(nodes, edges):
    """Tarjan SCCs over `nodes` with adjacency function edges(n) (iterative)."""
    index = {}; low = {}; onst = set(); st = []; out = []; counter = [0]
    for root in nodes:
        if root in index:
            continue
        work = [(root, iter(edges(root)))]
        index[root] = low[root] = counter[0]; counter[0] += 1; st.append(root); onst.add(root)
        while work:
            v, it = work[-1]
            adv = False
            for w in it:
                if w not in index:
                    index[w] = low[w] = counter[0]; counter[0] += 1; st.append(w); onst.add(w)
                    work.append((w, iter(edges(w)))); adv = True; break
                elif w in onst:
                    low[v] = min(low[v], index[w])
            if adv:
                continue
            work.pop()
            if work:
                u = work[-1][0]; low[u] = min(low[u], low[v])
            if low[v] == index[v]:
                comp = []
                while True:
                    w = st.pop(); onst.discard(w); comp.append(w)
                    if w == v:
                        break
                out.append(comp)
    return out
