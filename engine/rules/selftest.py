"""Self-tests of the checker (thorough tier):
 (1) fixtures: the shared analyses give the expected verdict on every positive/negative twin of
     engine/fixtures (bad_* reported, ok_* silent);
 (2) seeded changes: every /verif/seeded/<id>/patch.diff that names this property is applied to a
     scratch copy of /repo (outside /repo and /verif), must still compile, and the property's quick
     rules must report a violation that is not reported on the unchanged tree; the scratch copy and
     its build output are removed immediately.
A failing fixture makes the check exit 2 (broken), never 1.  A seeded replay that cannot be
confirmed (patch no longer applies to the tree under analysis, or is not reported) is recorded in
the evidence and printed as SELFTEST-NOTE; it does not change the verdict on the property, because
it depends on the tree being the one the patch was written for.  `python3 selftest.py --seeded`
replays all of them and exits 1 on any that is not confirmed (development use)."""
import json, os, re, shutil, subprocess, sys, tempfile, time
import extract, runner, props
from facts import load_program, callee
from callgraph import CallGraph
from extract import VERIF, REPO

SEEDED = os.path.join(VERIF, "seeded")


class FxCtx:
    def __init__(s):
        d = extract.ensure_fixture_facts()
        s.prog = load_program(os.path.join(d, "verif_fixtures.lib.jsonl"))
        s.cg = CallGraph(s.prog)
        s.cache = {}
        s.tier = "thorough"; s.variant = "dev"; s.target = "fixtures"; s.dir = d

    def memo(s, k, f):
        if k not in s.cache:
            s.cache[k] = f()
        return s.cache[k]


_FX = None


def fixtures():
    """returns (n_checked, failures)"""
    global _FX
    if _FX is not None:
        return _FX
    import taint, shared, cfg
    ctx = FxCtx()
    fails = []; n = 0
    scope = {f for f in ctx.prog.bodies}
    T = taint.Taint(ctx, scope, {"client", "wire", "file"})
    for fn, b in sorted(ctx.prog.bodies.items()):
        short = fn.split("::")[-1]
        if short.startswith(("bad_", "ok_")) and b.kind != "Closure":
            n += 1
            sk = list(taint.sinks(T, fn))
            # interprocedural twins report in the callee
            if short == "bad_param_flow_caller":
                sk = list(taint.sinks(T, "use_offset"))
            unguarded = [s_ for s_ in sk if not s_["guarded"]]
            if short.startswith("bad_") and not unguarded:
                fails.append("fixture %s: expected an unbounded sink, found %d sinks all bounded" % (short, len(sk)))
            if short.startswith("ok_") and unguarded:
                fails.append("fixture %s: expected silence, reported %s" % (short, [(u["kind"], u["what"]) for u in unguarded]))
    # result continuations
    for short in ("rs_question", "rs_match", "rs_if_let_err", "rs_is_ok"):
        b = ctx.prog.bodies.get(short)
        n += 1
        if b is None:
            fails.append("fixture %s missing" % short); continue
        calls = [i for i, t in b.calls() if callee(t) == "may_fail"]
        rs = shared.result_switch(b, calls[0]) if calls else None
        if rs is None or not rs["ok"] or not rs["fail"] or set(rs["ok"]) & set(rs["fail"]):
            fails.append("fixture %s: result continuation not recognised (%s)" % (short, rs))
    # string dispatch tables
    b = ctx.prog.bodies.get("dispatch")
    n += 1
    if b is None:
        fails.append("fixture dispatch missing")
    else:
        tab = shared.str_table(b)
        if set(tab) != {"GET", "SET", "PUT", "NOP"}:
            fails.append("fixture dispatch: table %s" % sorted(tab))
        tests = shared.str_tests(b)
        if not shared.arm_region(b, tests, "SET") or shared.arm_region(b, tests, "SET") != shared.arm_region(b, tests, "PUT"):
            fails.append("fixture dispatch: SET|PUT arm region not shared")
    b = ctx.prog.bodies.get("is_write")
    n += 1
    if b is None or set(shared.str_table(b)) != {"SCRIPT", "SET", "DEL"}:
        fails.append("fixture is_write: table %s" % (sorted(shared.str_table(b)) if b else None))
    # indexed removal loops (R-REMOVE-ITER)
    import rules_coll
    for short, want in (("rm_bad_forward_skip", True), ("rm_ok_forward_else", False), ("rm_ok_backward", False)):
        b = ctx.prog.bodies.get(short)
        n += 1
        if b is None:
            fails.append("fixture %s missing" % short); continue
        sites, issues = rules_coll.remove_iter_issues(b)
        if sites != 1 or bool(issues) != want:
            fails.append("fixture %s: indexed-removal sites %d, issues %s (expected %s)" % (short, sites, issues, want))
    import rules_conn
    for short, want in (("dec_bad_buffer_19", True), ("dec_ok_buffer_20", False)):
        b = ctx.prog.bodies.get(short)
        n += 1
        if b is None:
            fails.append("fixture %s missing" % short); continue
        iss = rules_conn.decimal_buffer_issues(b)
        if bool(iss) != want:
            fails.append("fixture %s: decimal buffer issues %s (expected %s)" % (short, iss, want))
    # rules evaluated as they are on modules of the fixtures crate that mirror ferrous' paths:
    # every bad_ twin must be reported, every ok_ twin must stay silent
    import boolpath, rules_scan, rules_order, rules_rdb, rules_int
    def run_rule(fn_):
        r_ = runner.Report("FX", "", {}, {})
        r_.ctx = ctx
        fn_(ctx, r_)
        return {f.fn for f in r_.findings}, r_
    def expect(label, got, bad, ok):
        nonlocal n
        for x in bad:
            n += 1
            if not any(g.endswith(x) or g.endswith(x + "::{closure}") for g in got):
                fails.append("fixture %s: %s must be reported, was not (reported: %s)" % (label, x, sorted(got)))
        for x in ok:
            n += 1
            if any(g.endswith(x) or g.endswith(x + "::{closure}") for g in got):
                fails.append("fixture %s: %s must be silent, was reported" % (label, x))
    # boolpath through the SCAN MATCH spec
    memo = {}
    got = set()
    for short in ("bp_bad_flag_never_cleared", "bp_ok_flag", "bp_ok_helper", "bp_ok_map_or", "bp_ok_continue", "bp_bad_map_or_wrong_default", "bp_bad_fast_path_forgets_pattern"):
        b = ctx.prog.bodies.get("storage::engine::" + short)
        if b is None:
            fails.append("fixture %s missing" % short); continue
        spec = rules_scan.MatchSpec(ctx.prog, b, rules_scan._param_of_type(b, r"^std::option::Option<&\[u8\]>$"), (), memo)
        ex = boolpath.explore(b, spec)
        pushes = [i for i, t in b.calls() if rules_scan.PUSH.match(t["f"] or "")]
        if any(i in ex.reached for i in pushes):
            got.add("storage::engine::" + short)
    expect("boolpath/MATCH", got, ["bp_bad_flag_never_cleared", "bp_bad_map_or_wrong_default", "bp_bad_fast_path_forgets_pattern"], ["bp_ok_flag", "bp_ok_helper", "bp_ok_map_or", "bp_ok_continue"])
    got, _ = run_rule(rules_order.rule_sorted_search(("so::",)))
    expect("R-SORTED-SEARCH", got, ["sorted_bad_push"], ["sorted_ok_insert_at", "sorted_ok_guarded", "sorted_ok_sorts", "sorted_ok_other_field"])
    got, _ = run_rule(rules_order.rule_whole_view(("so::",)))
    expect("R-SEQ-WHOLE", got, ["seq_bad_first_slice"], ["seq_ok_both", "seq_ok_contiguous"])
    got, _ = run_rule(rules_conn.rule_codec_shorttest)
    expect("R-CODEC-SHORTTEST", got, ["short_bad_starts_with"], ["short_ok_starts_with", "short_ok_negative_is_incomplete"])
    got, _ = run_rule(rules_rdb.rule_carry)
    expect("R-RDB-CARRY", got, ["carry_bad_early_return"], ["carry_ok_reset_everywhere"])
    got, _ = run_rule(rules_int.rule_rdb_text_numbers)
    expect("R-RDB-TEXTNUM", got, ["textnum_bad"], ["textnum_ok"])
    # backward value flow (flow.py) and the rules built on it
    import flow, rules_pubsub, rules_coll, rules_block, rules_stream
    got = set()
    for fn, b in sorted(ctx.prog.bodies.items()):
        if not fn.startswith("fl::fl_"):
            continue
        for i, t in b.calls():
            if callee(t) == "fl::sink":
                if any(rules_pubsub.BYTE_ALTERING.search(c or "") for c, _, _ in flow.flow_calls(ctx, fn, t["a"][0])):
                    got.add(fn)
    expect("flow/bytes", got, ["fl_bad_lossy_helper_closure", "fl_bad_lossy_push"], ["fl_ok_bytes_push", "fl_ok_bytes_collect", "fl_ok_other_value_altered"])
    got = set()
    for fn, b in sorted(ctx.prog.bodies.items()):
        if fn.startswith("fl::idx_"):
            for i, f, nc, clamps, related, recv in rules_coll.single_index_sites(ctx, fn, b):
                if clamps and not related:
                    got.add(fn)
    expect("R-IDX-SINGLE", got, ["idx_bad_clamped"], ["idx_ok_checked", "idx_ok_clamp_behind_range_check"])
    got = set()
    for fn, b in sorted(ctx.prog.bodies.items()):
        if fn.startswith("fl::om_"):
            for i, t in b.calls():
                if re.search(r"OpenOptions::open|File::create", t["f"] or ""):
                    m = rules_rdb.open_mode(ctx, b, i, t)
                    if m is None or m.get("create_new") or m.get("append") or not m.get("truncate"):
                        got.add(fn)
    expect("open-mode", got, ["om_bad_create_new", "om_bad_no_truncate"], ["om_ok_create_truncate", "om_ok_file_create"])
    got = set()
    for fn, b in sorted(ctx.prog.bodies.items()):
        if fn.startswith("fl::bf_"):
            if any(bad for _, _, _, bad, _ in rules_block.forever_sites(b)):
                got.add(fn)
    expect("R-BLK-FOREVER", got, ["bf_bad_zero_only_on_integer_branch"], ["bf_ok_float_pattern", "bf_ok_flag"])
    got, _ = run_rule(rules_conn.rule_sock_write)
    expect("R-SOCK-WRITE", got, ["sock_bad_write_all", "sock_bad_count_dropped"], ["sock_ok_partial"])
    got, _ = run_rule(rules_stream.rule_cg_atomic)
    expect("R-CG-ATOMIC", got, ["cg_bad_insert_then_err"], ["cg_ok_check_then_insert", "cg_ok_remove_none_is_err", "cg_ok_local_copy_mutated"])
    # batch 11 rules
    import rules_zset
    got = set()
    for fn, b in sorted(ctx.prog.bodies.items()):
        if fn.startswith("b11::Eng::bu_") and b.kind != "Closure":
            iss = rules_zset.bounds_used_issues(ctx, fn, b)
            if iss:
                got.add(fn)
    expect("R-BOUNDS-USED", got, ["bu_bad_is_infinite_shortcut", "bu_bad_half_exact"], ["bu_ok_exact_fast_path", "bu_ok_plain"])
    got = set()
    for fn, b in sorted(ctx.prog.bodies.items()):
        if fn.startswith("b11::rs_") and b.kind != "Closure":
            iss = rules_coll.range_stop_issues(ctx, fn, b)
            if iss and iss[0]:
                got.add(fn)
    expect("R-RANGE-STOP", got, ["rs_bad_stop_max0"], ["rs_ok_stop_negative_is_empty"])
    got = set()
    for fn, b in sorted(ctx.prog.bodies.items()):
        if fn.startswith("b11::re_") and b.kind != "Closure":
            if any(hit for _, hit in rules_stream.range_end_sites(ctx, b)):
                got.add(fn)
    expect("R-ST-RANGE-END", got, ["re_bad_saturating"], ["re_ok_empty_when_nothing_le_end"])
    # batch 13
    got = set()
    for fn, b in sorted(ctx.prog.bodies.items()):
        if fn.startswith("b13::Reg::ea_") and b.kind != "Closure":
            if any(bad is not None for _, _, _, bad in rules_block.expiry_selection(ctx, b)):
                got.add(fn)
    import rules_cmd
    got2 = set()
    for fn, b in sorted(ctx.prog.bodies.items()):
        if fn.startswith("b13::ao_") and b.kind != "Closure":
            frames = [k for k in range(1, b.nargs + 1) if "protocol::resp::RespFrame" in b.locals[k]]
            if any(bad for *_, bad in rules_cmd.reorder_sites(ctx, fn, b, frames, False)):
                got2.add(fn)
    expect("R-ARG-ORDER", got2, ["ao_bad_sorted_pairs"], ["ao_ok_in_order", "ao_ok_sorts_something_else"])
    expect("R-BLK-EXPIRE-ALL", got, ["ea_bad_skip_collected", "ea_bad_retain_predicate"], ["ea_ok_report_once"])
    _FX = (n, fails)
    return _FX


def seeded_for(pid):
    out = []
    if not os.path.isdir(SEEDED):
        return out
    for d in sorted(os.listdir(SEEDED)):
        mp = os.path.join(SEEDED, d, "meta.json")
        pp = os.path.join(SEEDED, d, "patch.diff")
        if os.path.exists(mp) and os.path.exists(pp):
            try:
                m = json.load(open(mp))
            except Exception:
                continue
            if pid in m.get("detected_by", []) or (m.get("property") == pid and m.get("expect_detected", False)):
                out.append((d, m, pp))
    return out


def run_seeded(pid, items):
    """apply each patch to a scratch copy, run the property's quick rules against it, compare with
    the finding keys of the unchanged tree"""
    res = {"checked": 0, "detected": [], "failed": []}
    if not items:
        return res
    # keys on the unchanged tree
    rc0, rep0 = runner.run_property(pid, "thorough", props.rules_for(pid), quiet=True, write_evidence=False)
    base = set()
    for r in rep0 or []:
        base |= {f.key for f in r.findings}
    for name, meta, patch in items:
        tmp = tempfile.mkdtemp(prefix="verif_seed_")
        try:
            wt = os.path.join(tmp, "repo")
            subprocess.run(["rsync", "-a", "--exclude", "target", "--exclude", ".git", REPO + "/", wt + "/"], check=True)
            a = subprocess.run(["git", "apply", "--unsafe-paths", "--directory=" + wt, patch], cwd=tmp, stdout=subprocess.PIPE, stderr=subprocess.STDOUT, text=True)
            if a.returncode != 0:
                a = subprocess.run(["patch", "-p1", "-d", wt, "-i", patch], stdout=subprocess.PIPE, stderr=subprocess.STDOUT, text=True)
            if a.returncode != 0:
                res["failed"].append("seeded %s: patch does not apply to the current tree (%s)" % (name, a.stdout.strip()[:200]))
                continue
            env = dict(os.environ, VERIF_REPO=wt, VERIF_CACHE=os.path.join(tmp, "cache"))
            code = ("import sys, json; sys.path.insert(0, %r); import runner, props; "
                    "rc, rep = runner.run_property(%r, 'thorough', props.rules_for(%r), quiet=True, write_evidence=False); "
                    "print('KEYS ' + json.dumps(sorted({f.key for r in (rep or []) for f in r.findings}))); print('RC %%d' %% rc)") % (os.path.dirname(os.path.abspath(__file__)), pid, pid)
            # share the dependency metadata cache: copy the warm target dir
            src_t = os.path.join(extract.CACHE, "target-dev")
            if os.path.isdir(src_t):
                os.makedirs(env["VERIF_CACHE"], exist_ok=True)
                subprocess.run(["cp", "-a", src_t, os.path.join(env["VERIF_CACHE"], "target-dev")])
            p = subprocess.run([sys.executable, "-c", code], env=env, stdout=subprocess.PIPE, stderr=subprocess.STDOUT, text=True)
            m = re.search(r"^KEYS (.*)$", p.stdout, re.M)
            res["checked"] += 1
            if not m:
                res["failed"].append("seeded %s: check did not run on the changed tree (%s)" % (name, p.stdout.strip()[-300:]))
                continue
            keys = set(json.loads(m.group(1)))
            new = sorted(keys - base)
            want = meta.get("expected_keys", {}).get(pid)
            if not new:
                res["failed"].append("seeded %s: change not detected by %s (no new finding)" % (name, pid))
            elif want and not (set(want) & set(new)):
                res["failed"].append("seeded %s: detected, but not with the expected key(s) %s (got %s)" % (name, want, new[:3]))
            else:
                res["detected"].append({"seeded": name, "new_findings": new[:4]})
        finally:
            shutil.rmtree(tmp, ignore_errors=True)
    return res


def run(pid):
    out = {"failed": []}
    n, fails = fixtures()
    out["fixtures"] = {"checked": n, "failures": fails}
    out["failed"] += fails
    items = seeded_for(pid)
    if os.environ.get("VERIF_SKIP_SEEDED"):
        out["seeded"] = {"skipped": len(items)}
    else:
        sr = run_seeded(pid, items)
        out["seeded"] = {"checked": sr["checked"], "detected": sr["detected"], "not_confirmed": sr["failed"]}
        out["seeded_notes"] = sr["failed"]
    out["summary"] = "fixtures %d ok%s, seeded %s" % (n - len(fails), " (%d FAILED)" % len(fails) if fails else "", out["seeded"])
    return out


if __name__ == "__main__":
    n, fails = fixtures()
    print("fixtures checked:", n)
    for f in fails:
        print("FAIL", f)
    bad = list(fails)
    if "--seeded" in sys.argv:
        for pid in sorted(props.REGISTRY):
            items = seeded_for(pid)
            if not items:
                continue
            sr = run_seeded(pid, items)
            print(pid, "seeded checked", sr["checked"], "detected", [d["seeded"] for d in sr["detected"]])
            for f in sr["failed"]:
                print("NOT CONFIRMED", f); bad.append(f)
    sys.exit(1 if bad else 0)
