"""C04 rules: R-NAN (no NaN score reaches the skip list), R-SKIP-PAIR (index, nodes and length
stay in step)."""
import re
from facts import callee, op_local, op_place, op_is_const
import cfg, shared, prov
from shared import ENGINE

SKIP_INSERT = re.compile(r"^storage::skiplist::SkipList::<std::vec::Vec<u8>, f64>::insert$")
NAN_TEST = re.compile(r"^(core|std)::f64::<impl f64>::(is_nan|is_finite|is_infinite)$|^core::num::<impl f64>::(is_nan|is_finite)$|f64.*::(is_nan|is_finite)$")


def nan_tests(b):
    """[(bb, tested_local_roots, nan_target_block, ok_target_block)]"""
    out = []
    for i, t in b.calls():
        f = t["f"] or ""
        m = re.search(r"::(is_nan|is_finite)$", f)
        if not m or "f64" not in f or t["t"] < 0 or not t["a"]:
            continue
        sw = shared._follow_to_switch(b, t["t"], t["d"]["l"])
        if sw is None:
            continue
        zero = dict(sw[1]["ts"]).get(0)
        if zero is None:
            continue
        if m.group(1) == "is_nan":
            nan_t, ok_t = sw[1]["o"], zero
        else:
            nan_t, ok_t = zero, sw[1]["o"]
        roots = value_roots(b, t["a"][0])
        out.append((i, sw[0], roots, nan_t, ok_t))
    return out


def value_roots(b, op):
    """locals an f64 operand is a plain copy of (through moves/copies/refs/derefs)"""
    if op_is_const(op):
        return set()
    seen = set(); st = [op_place(op)["l"]]
    defs = prov.build_defs(b)
    while st:
        l = st.pop()
        if l in seen:
            continue
        seen.add(l)
        for kind, bbi, x in defs.get(l, ()):
            if kind == "stmt" and not x["l"]["p"]:
                r = x["r"]
                if r["k"] == "use" and not op_is_const(r["o"]):
                    st.append(op_place(r["o"])["l"])
                elif r["k"] == "ref":
                    st.append(r["p"]["l"])
    return seen


def rule_nan(ctx, R):
    n = 0
    for fn, b in sorted(shared.engine_bodies(ctx.prog).items()):
        sites = [(i, t) for i, t in b.calls() if SKIP_INSERT.match(t["f"] or "")]
        if not sites:
            continue
        tests = nan_tests(b)
        k = 0
        for i, t in sites:
            n += 1
            score = t["a"][2]
            roots = value_roots(b, score)
            ok = False
            for (tb, swb, troots, nan_t, ok_t) in tests:
                if not (troots & roots):
                    continue
                # the test dominates the insert and the NaN edge does not reach it
                if cfg.dominates(b, tb, i) and i not in cfg.fwd(b, [nan_t], cut=[tb]):
                    ok = True
            # arithmetic result: the tested value must be the result itself, not an input
            R.inst(fn, "skiplist-insert#%d" % k, {"function": fn[len(ENGINE):], "at": b.loc(i), "score_guarded_by_nan_test": ok})
            if not ok:
                R.finding(fn, "skiplist-insert#%d:nan-unguarded" % k,
                          "%s hands a score to SkipList::insert (line %d) that is not dominated by an is_nan()/is_finite() refusal of that value: NaN can be stored and breaks the total order" % (fn.split("::")[-1], b.bb_line(i)), b.loc(i))
            k += 1
    R.floor("skiplist_insert_sites", n)


SL = "storage::skiplist::SkipList::<K, V>::"


def rule_skip_pair(ctx, R):
    ins = ctx.prog.need(SL + "insert")
    rem = ctx.prog.need(SL + "remove")
    def idx_calls(b, meth):
        out = []
        for i, t in b.calls():
            if re.search(r"HashMap::<K, V>::%s(::<.*>)?$" % meth, t["f"] or "") and t["a"]:
                P = prov.operand_origins(b, t["a"][0])
                if any(f.endswith("SkipListInner.key_index") for f in P.fields):
                    out.append(i)
        return out
    def calls_to(b, name):
        return [i for i, t in b.calls() if callee(t) == SL + name]
    # insert: every key_index.insert has an insert_new_node reachable from it
    ki = idx_calls(ins, "insert"); inn = calls_to(ins, "insert_new_node"); rmn = calls_to(ins, "remove_node_by_score")
    R.floor("index_inserts", len(ki))
    for k, i in enumerate(ki):
        ok = any(j in cfg.fwd(ins, [i]) for j in inn)
        R.inst(ins.fn, "index-insert#%d" % k, {"at": ins.loc(i), "insert_new_node_reachable": ok})
        if not ok:
            R.finding(ins.fn, "index-insert#%d:no-node" % k, "key_index updated (line %d) without linking a node: the index and the list disagree" % ins.bb_line(i), ins.loc(i))
    # re-scoring path: on the Some edge of key_index.get the old node is unlinked before the new one is linked
    kg = idx_calls(ins, "get")
    R.floor("index_gets_in_insert", len(kg))
    for g in kg:
        rs = shared.result_switch(ins, g)
        if rs is None:
            R.finding(ins.fn, "rescore:get-not-inspected", "existing-key lookup result not inspected", ins.loc(g)); continue
        some_reg = set()
        for o in rs["ok"]:
            some_reg |= cfg.fwd(ins, [o], cut=rs["fail"])
        links = [j for j in inn if j in some_reg]
        unl = [j for j in rmn if j in some_reg]
        ok = bool(links) and bool(unl) and all(any(cfg.dominates(ins, u, l) for u in unl) for l in links if l in cfg.dom_set(ins, rs["ok"][0]))
        R.inst(ins.fn, "rescore", {"links_on_existing_key_path": len(links), "unlinks_on_existing_key_path": len(unl), "unlink_dominates_link": ok})
        if not ok:
            R.finding(ins.fn, "rescore:no-unlink-before-link", "re-scoring an existing member links a new node without first unlinking the old one: the member appears twice", ins.loc(g))
    # remove: key_index.remove's Some continuation reaches remove_node_by_score
    kr = idx_calls(rem, "remove"); rr = calls_to(rem, "remove_node_by_score")
    R.floor("index_removes", len(kr))
    for k, i in enumerate(kr):
        ok = any(j in cfg.fwd(rem, [i]) for j in rr)
        R.inst(rem.fn, "index-remove#%d" % k, {"at": rem.loc(i), "unlink_reachable": ok})
        if not ok:
            R.finding(rem.fn, "index-remove#%d:no-unlink" % k, "member removed from the index (line %d) but its node is never unlinked" % rem.bb_line(i), rem.loc(i))
    # who writes `length`
    allowed = {SL + "insert_new_node", SL + "remove_node_by_score", SL + "clear", SL + "new"}
    nw = 0
    for fn, b in ctx.prog.bodies.items():
        if not fn.startswith("storage::skiplist::") or "::tests::" in fn:
            continue
        for i, bb in enumerate(b.bbs):
            for st in bb["s"]:
                if st["k"] != "=":
                    continue
                fs = [e["f"] for e in st["l"]["p"] if isinstance(e, dict) and "f" in e]
                isagg = st["r"]["k"] == "agg" and st["r"]["a"].startswith("storage::skiplist::SkipListInner::")
                if (fs and fs[-1] == "storage::skiplist::SkipListInner.length") or isagg:
                    nw += 1
                    R.inst(fn, "writes-length", {"function": fn, "line": st.get("line")})
                    if fn not in allowed:
                        R.finding(fn, "writes-length", "SkipListInner.length written outside the link/unlink functions", "%s:%s" % (b.file, st.get("line")))
    R.floor("length_writes", nw)
    # link/unlink update length on the path that links/unlinks: each of them writes length
    for nm, op in (("insert_new_node", "Add"), ("remove_node_by_score", "Sub")):
        b = ctx.prog.need(SL + nm)
        w = [1 for bb in b.bbs for st in bb["s"] if st["k"] == "=" and [e for e in st["l"]["p"] if isinstance(e, dict) and e.get("f") == "storage::skiplist::SkipListInner.length"]]
        R.inst(b.fn, "length-update", {"writes": len(w)})
        if not w:
            R.finding(b.fn, "length-update:missing", "%s does not update length" % nm, b.loc())
