"""C04 rules: R-NAN (no NaN score reaches the skip list), R-SKIP-PAIR (index, nodes and length
stay in step)."""
import re
from facts import callee, op_local, op_place, op_is_const, promoted_consts
import cfg, shared, prov
from shared import ENGINE

SKIP_INSERT = re.compile(r"^storage::skiplist::SkipList::<std::vec::Vec<u8>, f64>::insert$")
NAN_TEST = re.compile(r"^(core|std)::f64::<impl f64>::(is_nan|is_finite|is_infinite)$|^core::num::<impl f64>::(is_nan|is_finite)$|f64.*::(is_nan|is_finite)$")


def nan_tests(b):
    """[(bb, tested_local_roots, nan_target_block, ok_target_block)]"""
    out = []
    for i, t in b.calls():
        f = t["f"] or ""
        m = re.search(r"::(is_nan|is_finite)$", f)
        if not m or "f64" not in f or t["t"] < 0 or not t["a"]:
            continue
        sw = shared._follow_to_switch(b, t["t"], t["d"]["l"])
        if sw is None:
            continue
        zero = dict(sw[1]["ts"]).get(0)
        if zero is None:
            continue
        if m.group(1) == "is_nan":
            nan_t, ok_t = sw[1]["o"], zero
        else:
            nan_t, ok_t = zero, sw[1]["o"]
        roots = value_roots(b, t["a"][0])
        out.append((i, sw[0], roots, nan_t, ok_t))
    return out


def value_roots(b, op):
    """locals an f64 operand is a plain copy of (through moves/copies/refs/derefs)"""
    if op_is_const(op):
        return set()
    seen = set(); st = [op_place(op)["l"]]
    defs = prov.build_defs(b)
    while st:
        l = st.pop()
        if l in seen:
            continue
        seen.add(l)
        for kind, bbi, x in defs.get(l, ()):
            if kind == "stmt" and not x["l"]["p"]:
                r = x["r"]
                if r["k"] == "use" and not op_is_const(r["o"]):
                    st.append(op_place(r["o"])["l"])
                elif r["k"] == "ref":
                    st.append(r["p"]["l"])
    return seen


def rule_nan(ctx, R):
    n = 0
    for fn, b in sorted(shared.engine_bodies(ctx.prog).items()):
        sites = [(i, t) for i, t in b.calls() if SKIP_INSERT.match(t["f"] or "")]
        if not sites:
            continue
        tests = nan_tests(b)
        k = 0
        for i, t in sites:
            n += 1
            score = t["a"][2]
            roots = value_roots(b, score)
            ok = False
            for (tb, swb, troots, nan_t, ok_t) in tests:
                if not (troots & roots):
                    continue
                # the test dominates the insert and the NaN edge does not reach it
                if cfg.dominates(b, tb, i) and i not in cfg.fwd(b, [nan_t], cut=[tb]):
                    ok = True
            # arithmetic result: the tested value must be the result itself, not an input
            R.inst(fn, "skiplist-insert#%d" % k, {"function": fn[len(ENGINE):], "at": b.loc(i), "score_guarded_by_nan_test": ok})
            if not ok:
                R.finding(fn, "skiplist-insert#%d:nan-unguarded" % k,
                          "%s hands a score to SkipList::insert (line %d) that is not dominated by an is_nan()/is_finite() refusal of that value: NaN can be stored and breaks the total order" % (fn.split("::")[-1], b.bb_line(i)), b.loc(i))
            k += 1
    R.floor("skiplist_insert_sites", n)


SL = "storage::skiplist::SkipList::<K, V>::"


def rule_skip_pair(ctx, R):
    ins = ctx.prog.need(SL + "insert")
    rem = ctx.prog.need(SL + "remove")
    def idx_calls(b, meth):
        out = []
        for i, t in b.calls():
            if re.search(r"HashMap::<K, V>::%s(::<.*>)?$" % meth, t["f"] or "") and t["a"]:
                P = prov.operand_origins(b, t["a"][0])
                if any(f.endswith("SkipListInner.key_index") for f in P.fields):
                    out.append(i)
        return out
    def calls_to(b, name):
        return [i for i, t in b.calls() if callee(t) == SL + name]
    # insert: every key_index.insert has an insert_new_node reachable from it
    ki = idx_calls(ins, "insert"); inn = calls_to(ins, "insert_new_node"); rmn = calls_to(ins, "remove_node_by_score")
    R.floor("index_inserts", len(ki))
    for k, i in enumerate(ki):
        ok = any(j in cfg.fwd(ins, [i]) for j in inn)
        R.inst(ins.fn, "index-insert#%d" % k, {"at": ins.loc(i), "insert_new_node_reachable": ok})
        if not ok:
            R.finding(ins.fn, "index-insert#%d:no-node" % k, "key_index updated (line %d) without linking a node: the index and the list disagree" % ins.bb_line(i), ins.loc(i))
    # re-scoring path: on the Some edge of key_index.get the old node is unlinked before the new one is linked
    # the existing-key test is a key_index.get, or the previous value key_index.insert hands back
    kg = idx_calls(ins, "get") + [i for i in ki if shared.result_switch(ins, i) is not None]
    R.floor("index_gets_in_insert", len(kg))
    for g in kg:
        rs = shared.result_switch(ins, g)
        if rs is None:
            R.finding(ins.fn, "rescore:get-not-inspected", "existing-key lookup result not inspected", ins.loc(g)); continue
        some_reg = set()
        for o in rs["ok"]:
            some_reg |= cfg.fwd(ins, [o])
        links = [j for j in inn if j in some_reg]
        unl = [j for j in rmn if j in some_reg]
        # on the existing-key edge no link is reached without passing an unlink first
        ok = bool(links) and bool(unl) and cfg.path_avoiding(ins, rs["ok"], links, unl) is None
        R.inst(ins.fn, "rescore", {"links_on_existing_key_path": len(links), "unlinks_on_existing_key_path": len(unl), "unlink_dominates_link": ok})
        if not ok:
            R.finding(ins.fn, "rescore:no-unlink-before-link", "re-scoring an existing member links a new node without first unlinking the old one: the member appears twice", ins.loc(g))
    # remove: key_index.remove's Some continuation reaches remove_node_by_score
    kr = idx_calls(rem, "remove"); rr = calls_to(rem, "remove_node_by_score")
    R.floor("index_removes", len(kr))
    for k, i in enumerate(kr):
        ok = any(j in cfg.fwd(rem, [i]) for j in rr)
        R.inst(rem.fn, "index-remove#%d" % k, {"at": rem.loc(i), "unlink_reachable": ok})
        if not ok:
            R.finding(rem.fn, "index-remove#%d:no-unlink" % k, "member removed from the index (line %d) but its node is never unlinked" % rem.bb_line(i), rem.loc(i))
    # who writes `length`
    allowed = {SL + "insert_new_node", SL + "remove_node_by_score", SL + "clear", SL + "new"}
    nw = 0
    for fn, b in ctx.prog.bodies.items():
        if not fn.startswith("storage::skiplist::") or "::tests::" in fn:
            continue
        for i, bb in enumerate(b.bbs):
            for st in bb["s"]:
                if st["k"] != "=":
                    continue
                fs = [e["f"] for e in st["l"]["p"] if isinstance(e, dict) and "f" in e]
                isagg = st["r"]["k"] == "agg" and st["r"]["a"].startswith("storage::skiplist::SkipListInner::")
                if (fs and fs[-1] == "storage::skiplist::SkipListInner.length") or isagg:
                    nw += 1
                    R.inst(fn, "writes-length", {"function": fn, "line": st.get("line")})
                    if fn not in allowed:
                        R.finding(fn, "writes-length", "SkipListInner.length written outside the link/unlink functions", "%s:%s" % (b.file, st.get("line")))
    R.floor("length_writes", nw)
    # link/unlink update length on the path that links/unlinks: each of them writes length
    for nm, op in (("insert_new_node", "Add"), ("remove_node_by_score", "Sub")):
        b = ctx.prog.need(SL + nm)
        w = [1 for bb in b.bbs for st in bb["s"] if st["k"] == "=" and [e for e in st["l"]["p"] if isinstance(e, dict) and e.get("f") == "storage::skiplist::SkipListInner.length"]]
        R.inst(b.fn, "length-update", {"writes": len(w)})
        if not w:
            R.finding(b.fn, "length-update:missing", "%s does not update length" % nm, b.loc())


# ---------------------------------------------------------------------------------------------
# R-SKIP-CMP / R-SKIP-SEARCH / R-SKIP-KEYSTORE: the order itself

COMPARATORS = ("compare_nodes", "compare_with_query")
RAW_CMP = re.compile(r"^<(?P<ty>[^>]+) as std::cmp::PartialOrd(<[^>]*>)?>::(?P<op>lt|le|gt|ge)$")


def param_roots(b, op):
    if op_is_const(op):
        return set()
    P = prov.operand_origins(b, op)
    return {r[1] for r in P.roots if r[0] == "param"}


def rule_skip_cmp(ctx, R):
    """the two comparators are the lexicographic (score, member) order with the arguments in
    order: partial_cmp(first score, second score); its Equal arm returns Ord::cmp(first key,
    second key); every other Some arm returns partial_cmp's own ordering unchanged."""
    n = 0
    for nm in COMPARATORS:
        b = ctx.prog.bodies.get(SL + nm)
        if b is None:
            continue
        n += 1
        pcs = [(i, t) for i, t in b.calls() if re.search(r"PartialOrd(<[^>]*>)?>::partial_cmp$", t["f"] or "")]
        facts = {"partial_cmp_calls": len(pcs)}
        if len(pcs) != 1:
            R.inst(b.fn, "comparator", facts)
            R.finding(b.fn, "comparator:score-compare-shape", "%s does not compare the two scores with exactly one partial_cmp" % nm, b.loc()); continue
        i, t = pcs[0]
        a0, a1 = param_roots(b, t["a"][0]), param_roots(b, t["a"][1])
        facts["score_args"] = [sorted(a0), sorted(a1)]
        if a0 != {2} or a1 != {4}:
            R.finding(b.fn, "comparator:score-args", "%s compares the scores as partial_cmp(param %s, param %s); the order is (first pair, second pair) = (2, 4)" % (nm, sorted(a0), sorted(a1)), b.loc(i))
        rs = shared.result_switch(b, i)
        res = t["d"]["l"]
        osw = None
        if rs:
            for x in rs["ok"]:
                tt = b.term(x)
                if tt["k"] == "switch":
                    dl = op_local(tt["d"])
                    for st in b.stmts(x):
                        if st["k"] == "=" and st["l"]["l"] == dl and st["r"]["k"] == "discr" and st["r"]["p"]["l"] == res and st["r"]["p"]["p"]:
                            osw = (x, tt)
        if osw is None:
            R.inst(b.fn, "comparator", facts)
            R.finding(b.fn, "comparator:no-equal-arm", "%s does not distinguish equal scores (no switch on the ordering inside Some)" % nm, b.loc(i)); continue
        x, tt = osw
        ts = dict(tt["ts"])
        if 0 not in ts:
            R.inst(b.fn, "comparator", facts)
            R.finding(b.fn, "comparator:no-equal-arm", "%s has no arm for equal scores" % nm, b.loc(x)); continue
        eq_reg = cfg.edge_dom_set(b, x, ts[0])
        other = [tb for v, tb in tt["ts"] if v != 0] + [tt["o"]]
        ne_reg = set()
        for tb in other:
            if b.term(tb)["k"] != "unreachable":
                ne_reg |= cfg.edge_dom_set(b, x, tb)
        # equal arm: _0 written only by Ord::cmp(first key, second key)
        eq_ok = False; eq_bad = []
        for y in sorted(eq_reg):
            ty = b.term(y)
            if ty["k"] == "call" and ty["d"]["l"] == 0 and not ty["d"]["p"]:
                if re.search(r"std::cmp::Ord>::cmp$", ty["f"] or ""):
                    k0, k1 = param_roots(b, ty["a"][0]), param_roots(b, ty["a"][1])
                    facts["key_args"] = [sorted(k0), sorted(k1)]
                    if k0 == {3} and k1 == {5}:
                        eq_ok = True
                    else:
                        eq_bad.append("Ord::cmp(param %s, param %s)" % (sorted(k0), sorted(k1)))
                else:
                    eq_bad.append("call " + (ty["f"] or "?"))
            for st in b.stmts(y):
                if st["k"] == "=" and st["l"]["l"] == 0 and not st["l"]["p"]:
                    eq_bad.append("direct assignment")
        if not eq_ok or eq_bad:
            R.finding(b.fn, "comparator:tie-break", "%s: with equal scores the result is not Ord::cmp(first member, second member) [%s]: members with one score are not ordered by their bytes" % (nm, "; ".join(eq_bad) or "no key comparison"), b.loc(x))
        # other arms: _0 is a plain copy of the partial_cmp payload
        ne_bad = []; ne_ok = False
        for y in sorted(ne_reg):
            ty = b.term(y)
            if ty["k"] == "call" and ty["d"]["l"] == 0:
                ne_bad.append("call " + (ty["f"] or "?"))
            for st in b.stmts(y):
                if st["k"] == "=" and st["l"]["l"] == 0 and not st["l"]["p"]:
                    r = st["r"]
                    if r["k"] == "use" and not op_is_const(r["o"]):
                        P = prov.operand_origins(b, r["o"], stop_calls=re.compile(r"partial_cmp$"))
                        if all(q[0] == "call" and q[1].endswith("partial_cmp") for q in P.roots) and P.roots and not [v for v in P.via if re.search(r"reverse|then", v[0])]:
                            ne_ok = True; continue
                    ne_bad.append("assignment not from partial_cmp")
        if not ne_ok or ne_bad:
            R.finding(b.fn, "comparator:score-order", "%s: with different scores the result is not partial_cmp's own ordering [%s]" % (nm, "; ".join(ne_bad) or "no assignment"), b.loc(x))
        facts.update({"equal_arm_blocks": len(eq_reg), "other_arm_blocks": len(ne_reg)})
        R.inst(b.fn, "comparator", facts)
    R.floor("comparators", n)


def cursor_local(b):
    """the search cursor: the named local (a node pointer or an Option of one) that is assigned
    inside a loop from a `forward[..]` link -- whatever it is called"""
    for l, nm in b.names.items():
        if nm == "current":
            return l
    loops = cfg.loops(b)
    inloop = set().union(*loops.values()) if loops else set()
    cands = {}
    for x in inloop:
        for st in b.stmts(x):
            if st["k"] != "=" or st["l"]["p"] or st["l"]["l"] not in b.names:
                continue
            r = st["r"]
            src = op_place(r["o"]) if r["k"] in ("use", "cast") and not op_is_const(r["o"]) else None
            if src is None:
                continue
            P = prov.origins(b, src["l"])
            flds = [e.get("f", "") for e in src["p"] if isinstance(e, dict)] + list(P.fields)
            if any(str(f).endswith("SkipListNode.forward") for f in flds):
                cands[st["l"]["l"]] = cands.get(st["l"]["l"], 0) + 1
    if len(cands) == 1:
        return next(iter(cands))
    # several pointer-typed names are fed from the links (`node = cursor?`): the cursor is the one
    # written in a block that jumps back to a loop head
    heads = set(loops)
    latch = set()
    for x in inloop:
        if any(y in heads for y in b.succs(x)):
            for st in b.stmts(x):
                if st["k"] == "=" and not st["l"]["p"] and st["l"]["l"] in cands:
                    latch.add(st["l"]["l"])
    if len(latch) == 1:
        return next(iter(latch))
    return None


ORD = {255: "Less", 0: "Equal", 1: "Greater", -1: "Less"}


def ordering_edges(b, call_bb):
    """how the Ordering returned by the call at call_bb is inspected: [(src_bb, target_bb,
    {outcomes})] for `match` (discriminant switch) and for `== / != Ordering::X` (PartialEq call
    with a promoted constant, then a bool switch)"""
    t = b.term(call_bb)
    res = t["d"]["l"]
    out = []
    alias = {res}; refs = set()
    cur = t["t"]
    for _ in range(8):
        if cur is None or cur < 0:
            break
        bb = b.bbs[cur]
        discr = set()
        for st in bb["s"]:
            if st["k"] != "=" or st["l"]["p"]:
                continue
            r = st["r"]
            if r["k"] == "use" and op_local(r["o"]) in alias and not op_place(r["o"])["p"]:
                alias.add(st["l"]["l"])
            elif r["k"] == "ref" and r["p"]["l"] in alias and not r["p"]["p"]:
                refs.add(st["l"]["l"])
            elif r["k"] == "ref" and r["p"]["l"] in refs and r["p"]["p"] == ["*"]:
                refs.add(st["l"]["l"])
            elif r["k"] == "discr" and ((r["p"]["l"] in alias and not r["p"]["p"]) or (r["p"]["l"] in refs and r["p"]["p"] == ["*"])):
                discr.add(st["l"]["l"])
        tt = bb["t"]
        if tt["k"] == "switch" and op_local(tt["d"]) in discr:
            seen = set()
            for v, tgt in tt["ts"]:
                nm = ORD.get(v)
                if nm:
                    out.append((cur, tgt, {nm})); seen.add(nm)
            rest = {"Less", "Equal", "Greater"} - seen
            if rest and b.term(tt["o"])["k"] != "unreachable":
                out.append((cur, tt["o"], rest))
            return out
        if tt["k"] == "call" and re.search(r"std::cmp::Ordering as std::cmp::PartialEq>::(eq|ne)$", tt["f"] or "") and len(tt["a"]) == 2:
            which = None
            for a in tt["a"]:
                l = op_local(a)
                if l in refs or l in alias:
                    continue
                # the other side: a reference to a promoted Ordering constant
                for kind, db, d in prov.build_defs(b).get(l, ()):
                    if kind == "stmt" and d["r"]["k"] == "ref":
                        for k2, db2, d2 in prov.build_defs(b).get(d["r"]["p"]["l"], ()):
                            if k2 == "stmt" and d2["r"]["k"] == "use":
                                pc = promoted_consts(b, d2["r"]["o"])
                                for c_ in pc or []:
                                    if isinstance(c_, dict) and str(c_.get("agg", "")).startswith("std::cmp::Ordering::"):
                                        which = c_["agg"].rsplit("::", 1)[-1]
                    if kind == "stmt" and d["r"]["k"] == "use":
                        pc = promoted_consts(b, d["r"]["o"])
                        for c_ in pc or []:
                            if isinstance(c_, dict) and str(c_.get("agg", "")).startswith("std::cmp::Ordering::"):
                                which = c_["agg"].rsplit("::", 1)[-1]
            if which is None:
                return out
            sw = shared._follow_to_switch(b, tt["t"], tt["d"]["l"])
            if sw is None:
                return out
            ts = dict(sw[1]["ts"])
            t_true, t_false = sw[1]["o"], ts.get(0)
            others = {"Less", "Equal", "Greater"} - {which}
            iseq = tt["f"].endswith("::eq")
            if t_true is not None:
                out.append((sw[0], t_true, {which} if iseq else others))
            if t_false is not None:
                out.append((sw[0], t_false, others if iseq else {which}))
            return out
        if tt["k"] == "goto":
            cur = tt["t"]; continue
        break
    return out


def arg_node_field(b, op, depth=4):
    """the node field an argument borrows: `&(*next).value` -> ['value']"""
    if op_is_const(op) or depth == 0:
        return []
    l = op_place(op)["l"]
    out = set()
    for kind, bbi, x in prov.build_defs(b).get(l, ()):
        if kind != "stmt" or x["l"]["p"]:
            continue
        r = x["r"]
        if r["k"] == "ref":
            fs = [e["f"] for e in r["p"]["p"] if isinstance(e, dict) and "f" in e]
            if fs and "SkipListNode." in fs[-1]:
                out.add(fs[-1].rsplit(".", 1)[-1])
            elif not fs:
                out |= set(arg_node_field(b, {"cp": {"l": r["p"]["l"], "p": []}}, depth - 1))
        elif r["k"] == "use":
            out |= set(arg_node_field(b, r["o"], depth - 1))
    return sorted(out)


def rule_skip_search(ctx, R):
    """sibling agreement of the search loops (insert position, unlink position, rank): each
    compares (next.value, next.key) -- in that order -- with the sought (score, member) through a
    full comparator and advances the cursor on the Less arm only."""
    n = 0
    for fn, b in sorted(ctx.prog.bodies.items()):
        if not fn.startswith(SL) or "::tests::" in fn or "{closure" in fn:
            continue
        for i, t in b.calls():
            c = callee(t)
            if c not in (SL + COMPARATORS[0], SL + COMPARATORS[1]):
                continue
            if not any(i in body for body in cfg.loops(b).values()):
                continue
            n += 1
            short = fn.split("::")[-1]
            key = "search:%s" % short
            # arguments: 1,2 from a node (deref of a pointer local, fields value/key); 3,4 from params
            fld = []
            for a in t["a"][1:3]:
                fld.append(arg_node_field(b, a))
            q = [sorted(param_roots(b, a)) for a in t["a"][3:5]]
            edges = ordering_edges(b, i)
            facts = {"function": fn, "at": b.loc(i), "node_fields": fld, "query_params": q}
            if fld != [["value"], ["key"]]:
                R.finding(fn, key + ":node-args", "the search in %s hands the comparator node fields %s (must be value, key of the next node)" % (short, fld), b.loc(i))
            if not q[0] or not q[1] or q[0] == q[1]:
                R.finding(fn, key + ":query-args", "the search in %s does not compare with the sought (score, member) parameters (%s)" % (short, q), b.loc(i))
            if not edges:
                R.inst(fn, key, facts)
                R.finding(fn, key + ":result-not-switched", "comparator result not inspected", b.loc(i)); continue
            cur = cursor_local(b)
            adv = set()
            for src, tgt, outs in edges:
                reg = cfg.edge_dom_set(b, src, tgt)
                wrote = False
                for y in reg:
                    for st in b.stmts(y):
                        if st["k"] == "=" and st["l"]["l"] == cur and not st["l"]["p"]:
                            wrote = True
                if wrote:
                    adv |= outs
            adv = sorted(adv)
            facts["advance_on"] = adv
            R.inst(fn, key, facts)
            if adv != ["Less"]:
                R.finding(fn, key + ":advance-arms", "the search loop of %s moves the cursor on comparator outcome(s) %s; the sibling searches move on Less only, so the three searches no longer stop at the same node" % (short, adv), b.loc(i))
    R.floor("search_loops", n)


NODE_KEY_FIELDS = ("SkipListNode.value", "SkipListNode.key")


def ordering_key_stores(b, fields=NODE_KEY_FIELDS):
    """(bb, line, field) of stores through a pointer into an ordering-key field of a node"""
    out = []
    def hit(pl):
        pr = pl["p"]
        fs = [e["f"] for e in pr if isinstance(e, dict) and "f" in e]
        if "*" in pr and fs and any(fs[-1].endswith(f) for f in fields):
            return fs[-1].rsplit(".", 1)[-1]
        return None
    for i, bb in enumerate(b.bbs):
        if bb.get("cleanup"):
            continue
        for st in bb["s"]:
            if st["k"] == "=":
                h = hit(st["l"])
                if h:
                    out.append((i, st.get("line"), h))
        t = bb["t"]
        if t["k"] == "call" and t.get("d") and t["d"].get("p"):
            h = hit(t["d"])
            if h:
                out.append((t["t"] if t["t"] >= 0 else i, t.get("line"), h))
    return out


def inplace_store_issues(ctx, b, fields=NODE_KEY_FIELDS, comparators=None):
    """an in-place store into the ordering key of a linked node keeps the list sorted only if the
    new key lies strictly between the neighbours in the (score, member) order.  Reported:
    (a) the store is reachable from an edge of a raw score comparison that admits equality
        (`!(a > b)`, `a >= b`): an equal score needs the member tie-break;
    (b) no comparison at all reaches the store."""
    issues = []
    stores = ordering_key_stores(b, fields)
    if not stores:
        return stores, issues
    comparators = comparators or {SL + c for c in COMPARATORS}
    guards = []
    for i, t in b.calls():
        m = RAW_CMP.match(t["f"] or "")
        if m and t["t"] >= 0:
            sw = shared._follow_to_switch(b, t["t"], t["d"]["l"])
            if sw is None:
                continue
            ts = dict(sw[1]["ts"])
            f_t, t_t = ts.get(0), sw[1]["o"]
            eq_edge = f_t if m.group("op") in ("gt", "lt") else t_t
            guards.append(("raw:" + m.group("op"), i, eq_edge))
        elif callee(t) in comparators:
            guards.append(("full", i, None))
    for s, line, fld in stores:
        reaching = [g for g in guards if s in cfg.fwd(b, [g[1]])]
        for kind, i, eq_edge in reaching:
            if eq_edge is not None and s in cfg.fwd(b, [eq_edge]):
                issues.append(("inplace-%s:equal-score-admitted" % fld,
                               "a node's %s is overwritten in place (line %s) on a path where a bare score comparison (%s, line %d) admits an equal score: with a tie the member bytes decide the position, so the list can become unsorted" % (fld, line, kind, b.bb_line(i)), s))
                break
        else:
            if not reaching:
                issues.append(("inplace-%s:unguarded" % fld, "a node's %s is overwritten in place (line %s) without any comparison with its neighbours" % (fld, line), s))
    return stores, issues


def rule_skip_keystore(ctx, R):
    n = 0
    rescorers = set()
    for fn, b in sorted(ctx.prog.bodies.items()):
        if not fn.startswith("storage::skiplist::") or "::tests::" in fn:
            continue
        n += 1
        stores, issues = inplace_store_issues(ctx, b)
        if stores:
            rescorers.add(fn)
            R.inst(fn, "inplace-key-stores", {"function": fn, "stores": len(stores), "issues": len(issues)})
        seen = set()
        for key, msg, s in issues:
            if key in seen:
                continue
            seen.add(key)
            R.finding(fn, key, msg, b.loc(s))
    R.inst("storage::skiplist", "functions-scanned-for-in-place-key-stores", {"functions": n, "with_stores": len(rescorers)})
    R.floor("skiplist_functions_scanned", n)
    # on the re-scoring path of insert every way to the exit links a node (or goes through an
    # in-place re-scorer judged above)
    ins = ctx.prog.need(SL + "insert")
    inn = {i for i, t in ins.calls() if callee(t) == SL + "insert_new_node" or callee(t) in rescorers}
    for i, t in ins.calls():
        if re.search(r"HashMap::<K, V>::insert(::<.*>)?$", t["f"] or "") and t["a"]:
            P = prov.operand_origins(ins, t["a"][0])
            if any(f.endswith("SkipListInner.key_index") for f in P.fields):
                p = cfg.path_avoiding(ins, [i], set(ins.exits()), inn)
                R.inst(ins.fn, "index-insert-must-link", {"at": ins.loc(i), "path_without_link": p is not None})
                if p is not None:
                    R.finding(ins.fn, "index-insert:path-without-link", "after key_index is updated (line %d) a path reaches the exit without linking a node for the new score" % ins.bb_line(i), ins.loc(i),
                              witness=["bb%d %s" % (x, ins.loc(x)) for x in p][:8])


class _ExactEq(__import__("boolpath").Spec):
    """evidence: two scores were compared for exact equality (==, total_cmp/partial_cmp == Equal is
    not recognised on purpose: only the plain IEEE test is the accepted no-op shortcut)"""

    def stmt(s, b, bbi, st):
        import boolpath
        r = st["r"]
        if r["k"] == "bin" and r.get("op") in ("Eq", "Ne") and r.get("ty") == "f64" and not op_is_const(r["a"]) and not op_is_const(r["b"]):
            return boolpath.A if r["op"] == "Eq" else boolpath.N
        return None


def ok_blocks(b):
    """blocks that build the function's `Ok(..)` result"""
    out = []
    for i, bb in enumerate(b.bbs):
        for st in bb["s"]:
            if st["k"] == "=" and st["l"]["l"] == 0 and not st["l"]["p"] and st["r"]["k"] == "agg" and st["r"]["a"].endswith("Result::Ok"):
                out.append(i)
    return out


def rule_latest(ctx, R):
    """`each member once with its latest score`: an engine method that writes scores (it calls
    SkipList::insert with a caller-supplied score) returns success only after such a call -- or
    after an exact `==` between the stored and the new score (nothing to change)"""
    import boolpath
    n = 0
    for fn, b in sorted(shared.engine_bodies(ctx.prog).items()):
        sites = [i for i, t in b.calls() if SKIP_INSERT.match(t["f"] or "")]
        if not sites or b.kind == "Closure":
            continue
        oks = ok_blocks(b)
        try:
            ex = boolpath.explore(b, _ExactEq(), stop=sites)
        except boolpath.TooManyStates as e:
            R.broken.append(str(e)); continue
        for k, i in enumerate(oks):
            n += 1
            bad = i in ex.reached
            R.inst(fn, "success-return#%d" % k, {"function": fn[len(ENGINE):], "at": b.loc(i), "only_after_score_stored_or_exactly_equal": not bad})
            if bad:
                R.finding(fn, "success-return#%d:score-not-stored" % k,
                          "%s can return success (line %d) on a path that neither hands the score to SkipList::insert nor established by an exact `==` that the stored score already equals it: the member keeps a stale score and position" % (fn.split("::")[-1], b.bb_line(i)), b.loc(i),
                          ["bb%d line %d" % (x, b.bb_line(x)) for x in ex.witness(b, i)][-10:])
    R.floor("score_writer_success_returns", n)


def rule_nan_frontends(ctx, R):
    """`a refused multi-member ZADD adds nothing`: the engine refuses NaN per call, i.e. after the
    earlier pairs of the same command were written.  So each front end (direct handler, script-side
    parser) must refuse NaN itself, for every score it parses, before anything is handed to the
    engine: every `str::parse::<f64>` in a function that builds a ZADD/ZINCRBY command or calls
    zadd/zincrby is followed by an is_nan()/is_finite() test of that very value"""
    PARSE_F64 = re.compile(r"^core::str::<impl str>::parse::<f64>$")
    n = 0
    for fn, b in sorted(ctx.prog.bodies.items()):
        if "::tests::" in fn or not fn.startswith(("network::server::", "storage::commands::")):
            continue
        parses = [i for i, t in b.calls() if PARSE_F64.match(t["f"] or "")]
        if not parses:
            continue
        tree = shared.closure_tree(ctx, ctx.prog.bodies.get(b.encl) or b) if b.kind == "Closure" else shared.closure_tree(ctx, b)
        # ZADD only: it is the multi-member command (a single-score ZINCRBY is refused by the engine whole)
        front = any(callee(t) == ENGINE + "zadd" for body in tree for _, t in body.calls()) or \
            any(st["k"] == "=" and st["r"]["k"] == "agg" and re.search(r"::ZAdd$", st["r"]["a"]) for body in tree for bb in body.bbs for st in bb["s"])
        if not front:
            continue
        tests = []
        for body in tree:
            for j, tj in body.calls():
                if NAN_TEST.search(tj["f"] or "") and tj["a"] and not op_is_const(tj["a"][0]):
                    tests.append((body, j, prov.operand_origins(body, tj["a"][0], deep=True)))
        for k, i in enumerate(parses):
            n += 1
            ok = any(body is b and any(r[0] == "call" and r[2] == i for r in P.roots) for body, j, P in tests)
            if not ok:
                # the test as a predicate closure on the parsed value:
                # `s.parse::<f64>().ok().filter(|x| !x.is_nan()).ok_or(..)`
                for j, tj in b.calls():
                    if tj.get("clos") and re.search(r"^std::option::Option::<f64>::(filter|is_some_and|is_none_or|take_if)(::<.*>)?$|^std::result::Result::<f64, .*>::(is_ok_and|and_then)(::<.*>)?$", tj["f"] or "") and tj["a"] and not op_is_const(tj["a"][0]):
                        Pj = prov.operand_origins(b, tj["a"][0], deep=True)
                        if any(r[0] == "call" and r[2] == i for r in Pj.roots) or any(bb_ == i for _, bb_ in Pj.via):
                            if any(NAN_TEST.search(tt["f"] or "") for c in tj["clos"] if c in ctx.prog.bodies for _, _, tt in shared.deep_calls(ctx, ctx.prog.bodies[c])):
                                ok = True
            R.inst(fn, "parsed-score#%d" % k, {"function": fn, "at": b.loc(i), "nan_tested_here": ok})
            if not ok:
                R.finding(fn, "parsed-score#%d:nan-not-refused-before-the-engine" % k,
                          "%s parses a score (line %d) and passes it on without an is_nan() test of that value: the engine refuses NaN only when it reaches that pair, after the earlier pairs of the same ZADD were written -- a refused multi-member ZADD adds members" % (fn.split("::")[-1], b.bb_line(i)), b.loc(i))
    R.floor("score_parses_in_zadd_front_ends", n)


# ---- R-BOUNDS-USED ------------------------------------------------------------------------------
def bounds_used_issues(ctx, fn, b):
    """for a function with exactly two f64 parameters (the score bounds of a range query):
    [(block, description)] of answers that do not come from a call that was handed both bounds.
    An answer is a call whose result becomes the function's result, or the payload of an `Ok(..)`
    result.  Accepted: the value derives from a call that receives both bounds; a value made
    from no parameter at all (the empty answer for a missing key); or the answer is reachable
    only through an exact comparison (`==` with a constant) of EACH bound (a fast path for
    `-inf .. +inf` that tests both signs)."""
    import boolpath
    fps = [l for l in range(1, b.nargs + 1) if (b.locals[l] or "") == "f64"]
    if len(fps) != 2:
        return None
    out = []

    def uses_both(t):
        got = set()
        for a in t["a"]:
            if not op_is_const(a):
                got |= prov.operand_origins(b, a, deep=True).params() & set(fps)
        return got == set(fps)

    def covered(op, depth=0):
        """does the operand derive from a call that received both bounds (or from no parameter)?"""
        if op_is_const(op):
            return True
        P = prov.operand_origins(b, op, deep=True)
        calls = [r for r in P.roots if r[0] == "call"] + [("call", c, bb) for c, bb in P.via]
        if any(uses_both(b.term(r[2])) for r in calls if b.term(r[2])["k"] == "call"):
            return True
        # made from nothing the caller passed except (possibly) nothing: the empty answer
        return not P.params()

    answers = []
    for i, bb in enumerate(b.bbs):
        if bb["cleanup"]:
            continue
        for st in bb["s"]:
            if st["k"] == "=" and st["l"]["l"] == 0 and not st["l"]["p"]:
                r = st["r"]
                if r["k"] == "agg" and r["a"].endswith("Result::Ok") and r["o"]:
                    answers.append((i, r["o"][0], "Ok(..)"))
                elif r["k"] == "use" and not op_is_const(r["o"]):
                    answers.append((i, r["o"], "result"))
        t = bb["t"]
        if t["k"] == "call" and t["d"]["l"] == 0 and not t["d"]["p"] and not re.search(r"from_residual|::from$|::into$", t["f"] or ""):
            if not uses_both(t):
                answers.append((i, None, "call:" + shared.short_callee(t["f"] or "?")))
    for i, op, what in answers:
        if op is not None and covered(op):
            continue
        if op is None:
            t = b.term(i)
            if not any(not op_is_const(a) and prov.operand_origins(b, a, deep=True).params() for a in t["a"]):
                continue
        # guarded by exact tests of both bounds?
        ok = True
        for p in fps:
            class E(boolpath.Spec):
                def stmt(self, b_, bbi, st, p=p):
                    r = st["r"]
                    if r["k"] != "bin" or r.get("op") not in ("Eq", "Ne"):
                        return None
                    ops = (r["a"], r["b"])
                    if sum(1 for o in ops if op_is_const(o)) != 1:
                        return None
                    v = [o for o in ops if not op_is_const(o)][0]
                    if p in prov.operand_origins(b, v).params():
                        return boolpath.A if r["op"] == "Eq" else boolpath.N
                    return None
            ex = boolpath.explore(b, E(), cap=60000)
            if i in ex.reached:
                ok = False
        if not ok:
            out.append((i, what))
    return out


def rule_bounds_used(ctx, R):
    """ZCOUNT = |ZRANGEBYSCORE| for every pair of bounds, infinite and reversed ones included:
    an engine method that takes the two score bounds answers from a call that received both of
    them (or with the empty answer, or behind exact tests of both bounds)."""
    import boolpath
    n = 0
    for fn, b in sorted(shared.engine_bodies(ctx.prog).items()):
        if b.kind == "Closure" or "::tests::" in fn:
            continue
        try:
            iss = bounds_used_issues(ctx, fn, b)
        except boolpath.TooManyStates as e:
            R.broken.append(str(e)); continue
        if iss is None:
            continue
        n += 1
        R.inst(fn, "score-range-method", {"function": fn, "answers_not_from_both_bounds": len(iss)})
        for i, what in iss[:1]:
            R.finding(fn, "answer-not-from-bounds:%s" % what,
                      "%s answers (%s, line %d) with a value that does not come from a call that received both score bounds, on a path with no exact test of both: bound pairs other than the intended one (+inf +inf, -inf -inf, a reversed +inf -inf) get that answer too" % (fn.split("::")[-1], what, b.bb_line(i)), b.loc(i))
    R.floor("score_range_methods", n)


# ---- R-SCORE-EXTREMES -----------------------------------------------------------------------------
_F64_EXTREME = re.compile(r"(^|::)(MAX|MIN)$|1\.7976931348623157[eE]\+?308")


def score_extreme_sites(ctx, b):
    """[(block, callee, arg index, constant)] call sites that hand the finite extremes f64::MIN /
    f64::MAX to an f64 parameter of a range function (anything named *range* / *count* / *rank*
    / *score*)"""
    out = []
    for i, t in b.calls():
        f = t["f"] or ""
        if b.bbs[i]["cleanup"] or not re.search(r"(range|count|between|by_score|score)", f.split("::")[-1] if "::" in f else f, re.I):
            continue
        if not f.startswith(("storage::", "<storage::")):
            continue
        for k, a in enumerate(t["a"]):
            c = None
            if op_is_const(a) and a.get("ty") == "f64":
                c = a["c"]
            elif not op_is_const(a) and (b.locals[op_place(a)["l"]] or "") == "f64":
                P = prov.operand_origins(b, a)
                cs = [r[1] for r in P.roots if r[0] == "const"]
                if cs and not P.params() and not any(r[0] == "call" for r in P.roots):
                    c = cs[0]
            if c is not None and _F64_EXTREME.search(c.replace("const ", "")):
                out.append((i, f, k, c))
    return out


def rule_score_extremes(ctx, R):
    """infinities are scores: `everything` is -inf..+inf (or an unfiltered walk), never
    f64::MIN..f64::MAX -- the finite extremes leave out the members scored -inf / +inf.  No call
    of a score-range function receives a finite-extreme constant as a bound."""
    n = 0
    for fn, b in sorted(ctx.prog.bodies.items()):
        if not fn.startswith(("storage::", "network::")) or "::tests::" in fn:
            continue
        for i, t in b.calls():
            f = t["f"] or ""
            if f.startswith("storage::skiplist::SkipList") and any((not op_is_const(a) and (b.locals[op_place(a)["l"]] or "") == "f64") or (op_is_const(a) and a.get("ty") == "f64") for a in t["a"]):
                n += 1
        for i, f, k, c in score_extreme_sites(ctx, b):
            R.inst(fn, "extreme-bound:%s#%d" % (shared.short_callee(f), k), {"function": fn, "at": b.loc(i), "constant": c})
            R.finding(fn, "extreme-bound:%s#%d" % (shared.short_callee(f).split("::")[-1], k),
                      "%s passes the finite extreme %s as a score bound to %s (line %d): members scored -inf / +inf lie outside that range and are left out (a snapshot written from it loses them)" % (fn.split("::")[-1], c, shared.short_callee(f), b.bb_line(i)), b.loc(i))
    R.inst("storage", "score-range-calls", {"skiplist_calls_with_score_arguments": n})
    R.floor("skiplist_calls_with_score_arguments", n)
