"""C09 / C10 rules over storage/rdb.rs: writer/reader table agreement and save discipline."""
import re
from facts import callee, op_local, op_place, op_is_const, const_int, const_bytes, AnchorMissing
import cfg, shared, prov
from shared import ENGINE

W = "storage::rdb::RdbWriter::<W>::"
RD = "storage::rdb::RdbReader::<R>::"
EN = "storage::rdb::RdbEngine::"
VALUE = "storage::value::Value"
VARIANTS = ["String", "List", "Set", "Hash", "SortedSet", "Stream"]


def discr_switch_on(ctx, b, adt, want_param=None):
    """switches in b on the discriminant of a place of type `adt` (or reference to it):
    [(bb, {variant_name: target}, otherwise, place)]"""
    out = []
    for i, bb in enumerate(b.bbs):
        t = bb["t"]
        if t["k"] != "switch":
            continue
        dl = op_local(t["d"])
        for st in bb["s"]:
            if st["k"] == "=" and st["l"]["l"] == dl and st["r"]["k"] == "discr":
                p = st["r"]["p"]
                ty = b.locals[p["l"]]
                base = ty.replace("&mut ", "").replace("&", "")
                flds = [e for e in p["p"] if isinstance(e, dict) and "f" in e]
                if flds and not [e for e in p["p"] if isinstance(e, dict) and "f" not in e]:
                    # discriminant of a field: the field's declared type must be the ADT
                    f = flds[-1]["f"]
                    if "." not in f or "::" not in f:
                        continue
                    a_, n_ = f.rsplit(".", 1)
                    ad = ctx.prog.adts.get(a_)
                    fty = None
                    if ad:
                        for v_ in ad["variants"]:
                            for fn_, ft_ in v_["f"]:
                                if fn_ == n_:
                                    fty = ft_
                    if fty != adt:
                        continue
                elif base != adt or [e for e in p["p"] if e != "*"]:
                    continue
                names = {}
                for v, tb in t["ts"]:
                    n = ctx.prog.variant_name(adt, v)
                    names[n] = tb
                out.append((i, names, t["o"], p))
    return out


def first_opcode_in(ctx, b, region, calls_rx):
    """constant byte handed to write_byte / Vec::push in the region, earliest in RPO"""
    order = [x for x in cfg.rpo(b) if x in region]
    for x in order:
        t = b.term(x)
        if t["k"] == "call" and calls_rx.search(t["f"] or "") and len(t["a"]) >= 2:
            v = byte_const(b, x, t["a"][1])
            if v is not None:
                return v, x
    return None, None


def byte_const(b, bbi, op):
    """value of a u8 operand that is a constant or a cast of a named-discriminant constant
    computed in the same block (`RdbOpcode::X as u8`)"""
    v = const_int(op)
    if v is not None:
        return v
    l = op_local(op)
    if l is None:
        return None
    cur = l
    for _ in range(6):
        hit = None
        for st in b.stmts(bbi):
            if st["k"] == "=" and st["l"]["l"] == cur and not st["l"]["p"]:
                hit = st
        if hit is None:
            # look in predecessors with a single def
            defs = prov.build_defs(b).get(cur, [])
            if len(defs) == 1 and defs[0][0] == "stmt":
                hit = defs[0][2]
            else:
                return None
        r = hit["r"]
        if r["k"] in ("use", "cast"):
            v = const_int(r["o"])
            if v is not None:
                return v
            nl = op_local(r["o"])
            if nl is None:
                return None
            cur = nl
            continue
        if r["k"] == "bin" and r["op"] in ("AddWithOverflow", "Add"):
            va = const_int(r["a"]); vb = const_int(r["b"])
            if va is not None and vb is not None:
                return va + vb
            return None
        return None
    return None


PUSH_OR_WB = re.compile(r"^(storage::rdb::RdbWriter::<W>::write_byte|std::vec::Vec::<u8>::push)$")


def writer_opcode_table(ctx, fn):
    """variant -> opcode of that variant.  Two shapes: the opcode is written first in the variant's
    arm of the Value match, or a separate match selects the opcode (`let op = match value {..}`)
    and one write_byte(op) follows.  Returns (body, [(switch_bb, {variant: (opcode, bb)})]) with the
    merged table first."""
    b = ctx.prog.need(fn)
    tabs = []
    merged = {}
    for (i, names, other, p) in discr_switch_on(ctx, b, VALUE):
        tab = {}
        for v, tgt in names.items():
            reg = cfg.edge_dom_set(b, i, tgt)
            op, at = first_opcode_in(ctx, b, reg, PUSH_OR_WB)
            if op is None:
                # `match value { Value::X => RdbOpcode::X, .. }` followed by one `write_byte(op as u8)`
                for x in sorted(reg):
                    for st in b.stmts(x):
                        if st["k"] == "=" and st["r"]["k"] == "agg" and st["r"]["a"].startswith("storage::rdb::RdbOpcode::"):
                            try:
                                op, at = ctx.prog.variant_discr("storage::rdb::RdbOpcode", st["r"]["a"].rsplit("::", 1)[-1]), x
                            except Exception:
                                pass
            if op is None:
                # a byte constant assigned in the arm to a local that a write_byte takes later
                for x in sorted(reg):
                    for st in b.stmts(x):
                        if st["k"] == "=" and not st["l"]["p"] and b.locals[st["l"]["l"]] == "u8":
                            val = byte_const(b, x, {"cp": {"l": st["l"]["l"], "p": []}})
                            if val is not None and _flows_to_write_byte(b, st["l"]["l"]):
                                op, at = val, x
            if op is not None:
                tab[v] = (op, at)
        if tab:
            tabs.append((i, tab))
            for v, oa in tab.items():
                merged.setdefault(v, oa)
    if merged:
        tabs.insert(0, (tabs[0][0], merged))
    return b, tabs


def _flows_to_write_byte(b, l, depth=6):
    seen = set(); st_ = [l]
    while st_ and depth:
        depth -= 1
        cur = st_.pop()
        if cur in seen:
            continue
        seen.add(cur)
        for i, t in b.calls():
            if PUSH_OR_WB.search(t["f"] or "") and len(t["a"]) > 1 and op_local(t["a"][1]) == cur:
                return True
        for bb in b.bbs:
            for st in bb["s"]:
                if st["k"] == "=" and not st["l"]["p"] and st["r"]["k"] in ("use", "cast") and op_local(st["r"].get("o")) == cur:
                    st_.append(st["l"]["l"])
    return False


def payload_switch(ctx, b, prims, prefix):
    """the Value match whose arms write the payload (most write primitives inside its arms)"""
    best = None
    for sw in discr_switch_on(ctx, b, VALUE):
        i, names, other, p = sw
        n = 0
        for v, tgt in names.items():
            for x in cfg.edge_dom_set(b, i, tgt):
                t = b.term(x)
                if t["k"] == "call" and callee(t).startswith(prefix) and prims.get(callee(t)[len(prefix):]):
                    n += 1
        if best is None or n > best[0]:
            best = (n, sw)
    return best[1] if best else None


def same_shape_modulo_key(wseq, rseq):
    """the key string may be written/read inside the variant's arm or once before the match"""
    if wseq == rseq:
        return True
    if rseq and rseq[0] == "string" and wseq == rseq[1:]:
        return True
    if wseq and wseq[0] == "string" and wseq[1:] == rseq:
        return True
    return False


def reader_opcode_arms(ctx, fn=None):
    """opcode value -> arm region in read_key_value_with_type (or fn): comparisons `op == CONST`"""
    b = ctx.prog.need(fn or (RD + "read_key_value_with_type"))
    arms = {}
    for i, bb in enumerate(b.bbs):
        for st in bb["s"]:
            if st["k"] == "=" and st["r"]["k"] == "bin" and st["r"]["op"] == "Eq":
                va = byte_const(b, i, st["r"]["a"]); vb = byte_const(b, i, st["r"]["b"])
                v = va if va is not None else vb
                if v is None:
                    continue
                t = bb["t"]
                if t["k"] == "switch" and op_local(t["d"]) == st["l"]["l"]:
                    arms.setdefault(v, []).append((i, t["o"]))
    return b, arms


def arm_blocks(b, sw, tgt):
    """blocks of the arm entered through the true edge sw->tgt. With `a == X || a == Y` the
    true edges pass through empty goto blocks into the shared arm: skip those and take the
    blocks dominated by the first real block."""
    cur = tgt
    for _ in range(4):
        bb = b.bbs[cur]
        if not [s_ for s_ in bb["s"] if s_["k"] == "="] and bb["t"]["k"] == "goto":
            cur = bb["t"]["t"]
        else:
            break
    if cur == tgt:
        return cfg.edge_dom_set(b, sw, tgt)
    return cfg.dom_set(b, cur)


def constructed_variants(ctx, fn):
    """Value variants constructed by an engine method (in it or in the value-module / engine
    helpers it calls)"""
    out = set()
    for f in ctx.cg.reach([fn]):
        if not (f.startswith("storage::engine::") or f.startswith("storage::value::")):
            continue
        fb = ctx.prog.bodies.get(f)
        if fb is None:
            continue
        for bb in fb.bbs:
            for st in bb["s"]:
                if st["k"] == "=" and st["r"]["k"] == "agg" and st["r"]["a"].startswith(VALUE + "::"):
                    out.add(st["r"]["a"].rsplit("::", 1)[-1])
    return out


def rule_opc(ctx, R):
    wb, wtabs = writer_opcode_table(ctx, W + "write_key_value")
    gb, gtabs = writer_opcode_table(ctx, EN + "generate_rdb_bytes")
    if not wtabs or not gtabs:
        R.broken.append("writer opcode tables not found (file: %d, replication: %d)" % (len(wtabs), len(gtabs))); return
    wt = wtabs[0][1]; gt = gtabs[0][1]
    R.floor("file_writer_variants", len(wt)); R.floor("replication_writer_variants", len(gt))
    rb, arms = reader_opcode_arms(ctx)
    R.floor("reader_opcode_arms", len(arms))
    if not arms:
        R.broken.append("the reader's opcode dispatch is not recognised (no `byte == CONST` comparison in read_key_value_with_type: a typed opcode match?): the tables cannot be composed"); return
    api = shared.engine_api(ctx.prog)
    for v in VARIANTS:
        a = wt.get(v); g = gt.get(v)
        if a is None:
            R.inst(wb.fn, "variant:" + v); R.finding(wb.fn, "variant:%s:no-opcode" % v, "the file writer has no arm writing an opcode for Value::%s" % v, wb.loc()); continue
        opc = a[0]
        if g is None or g[0] != opc:
            R.finding(gb.fn, "variant:%s:writers-disagree" % v, "the replication writer uses opcode %s for Value::%s, the file writer %s" % (g and g[0], v, opc), gb.loc(g[1]) if g else gb.loc())
        regions = arms.get(opc)
        made = set(); calls = []
        if regions:
            for (sw, tgt) in regions:
                reg = arm_blocks(rb, sw, tgt)
                for x in reg:
                    t = rb.term(x)
                    if t["k"] == "call" and callee(t) in api:
                        calls.append(callee(t).split("::")[-1])
                        made |= constructed_variants(ctx, callee(t))
        R.inst(wb.fn, "variant:" + v, {"variant": v, "opcode_written": opc, "reader_arm_calls": sorted(set(calls)), "reader_constructs": sorted(made)})
        if not regions:
            R.finding(rb.fn, "opcode:%d:no-reader-arm" % opc, "opcode %d written for Value::%s has no arm in the reader" % (opc, v), rb.loc())
        elif v not in made:
            R.finding(rb.fn, "variant:%s:reader-builds-other-type" % v,
                      "Value::%s is written with opcode %d but the reader's arm for that opcode builds %s: the value comes back as a different type" % (v, opc, sorted(made)), rb.loc(regions[0][0]))


def int_consts_in(b, ops=None):
    """{(binop, const_value)} for comparisons / bit operations with a constant operand, and
    the constants of switchInt targets"""
    out = []
    for i, bb in enumerate(b.bbs):
        for st in bb["s"]:
            if st["k"] == "=" and st["r"]["k"] == "bin":
                r = st["r"]
                va = const_int(r["a"]); vb = const_int(r["b"])
                if va is not None and vb is None:
                    out.append((r["op"], "L", va, i))
                elif vb is not None and va is None:
                    out.append((r["op"], "R", vb, i))
    return out


def length_params(ctx, R, wfn, label):
    """extract the writer's length-class constants: upper bounds, tags, masks"""
    b = ctx.prog.need(wfn)
    cs = int_consts_in(b)
    ub = set()
    for (op, side, v, i) in cs:
        if op == "Le" and side == "R":
            ub.add(v)            # len <= v
        elif op == "Lt" and side == "R":
            ub.add(v - 1)        # len < v
        elif op == "Ge" and side == "L":
            ub.add(v)            # v >= len
        elif op == "Gt" and side == "L":
            ub.add(v - 1)
    tags = {v for (op, side, v, i) in cs if op == "BitOr"}
    masks = {v for (op, side, v, i) in cs if op == "BitAnd"}
    shifts = {v for (op, side, v, i) in cs if op == "Shr" and side == "R"}
    bytes_ = set()
    for i, t in b.calls():
        if PUSH_OR_WB.search(t["f"] or "") or re.search(r"RdbWriter::<W>::write_byte$|Vec::<u8>::push$", t["f"] or ""):
            if len(t["a"]) >= 2:
                v = const_int(t["a"][1])
                if v is not None:
                    bytes_.add(v)
    be = any(re.search(r"u32>::to_be_bytes$|impl u32>::to_be_bytes$", t["f"] or "") for f in ctx.cg.reach([wfn]) if ctx.prog.bodies.get(f) for _, t in ctx.prog.bodies[f].calls())
    le = any(re.search(r"impl u32>::to_le_bytes$", t["f"] or "") for f in ctx.cg.reach([wfn]) if ctx.prog.bodies.get(f) for _, t in ctx.prog.bodies[f].calls())
    trunc = []
    for i, bb in enumerate(b.bbs):
        for st in bb["s"]:
            if st["k"] == "=" and st["r"]["k"] == "cast" and st["r"]["ty"] == "u32" and st["r"].get("from") == "usize":
                trunc.append(i)
    return {"b": b, "ub": sorted(ub), "tags": tags, "masks": masks, "shifts": shifts, "bytes": bytes_, "be": be, "le": le, "trunc": trunc}


def rule_len(ctx, R):
    rb = ctx.prog.need(RD + "read_length")
    rcs = int_consts_in(rb)
    rshift = sorted({v for (op, side, v, i) in rcs if op == "Shr" and side == "R"})
    rmask = sorted({v for (op, side, v, i) in rcs if op == "BitAnd"})
    rshl = sorted({v for (op, side, v, i) in rcs if op == "Shl" and side == "R"})
    classes = set()
    for i, bb in enumerate(rb.bbs):
        t = bb["t"]
        if t["k"] == "switch" and t.get("dty") == "u8" and len(t["ts"]) >= 2:
            classes |= {v for v, _ in t["ts"]}
    rbe = any(re.search(r"impl u32>::from_be_bytes$", t["f"] or "") for f in ctx.cg.reach([rb.fn]) if ctx.prog.bodies.get(f) for _, t in ctx.prog.bodies[f].calls())
    if len(rshift) != 1 or not rmask:
        R.broken.append("reader length decoding not recognised (shift %s mask %s)" % (rshift, rmask)); return
    S = rshift[0]; M = rmask[0]
    R.inst(rb.fn, "decoder", {"class_shift": S, "class_values": sorted(classes), "mask": M, "shl": rshl, "u32_big_endian": rbe})
    n = 0
    for wfn, label in ((W + "write_length", "file"), (EN + "write_length", "replication")):
        p = length_params(ctx, R, wfn, label)
        b = p["b"]; n += 1
        R.inst(wfn, "encoder", {"upper_bounds": p["ub"], "tags": sorted(p["tags"]), "masks": sorted(p["masks"]), "tag_bytes": sorted(p["bytes"]), "u32_big_endian": p["be"]})
        ub = [u for u in p["ub"] if u > 0]
        if len(ub) < 2:
            R.finding(wfn, "classes:not-found", "could not find two class boundaries in the length encoder", b.loc()); continue
        U1, U2 = ub[0], ub[1]
        if not (U1 <= (1 << S) - 1):
            R.finding(wfn, "class1:bound", "one-byte lengths go up to %d but the reader takes the top bits (>> %d) of that byte as the class: %d would be read as a longer encoding" % (U1, S, U1), b.loc())
        t1 = [t for t in p["tags"] if t >> S == 1 and (t & M) == 0]
        if not t1:
            R.finding(wfn, "class2:tag", "the two-byte class tag %s does not decode to class 1 under the reader's `first >> %d` (mask %d)" % (sorted(p["tags"]), S, M), b.loc())
        if M not in p["masks"]:
            R.finding(wfn, "class2:mask", "the encoder masks the high byte with %s, the reader with %d" % (sorted(p["masks"]), M), b.loc())
        if U2 > ((M << 8) | 0xFF):
            R.finding(wfn, "class2:bound", "two-byte lengths go up to %d but only %d fits the %d-bit payload" % (U2, (M << 8) | 0xFF, 8 + bin(M).count("1")), b.loc())
        if 8 not in p["shifts"] or 8 not in rshl:
            R.finding(wfn, "class2:shift", "high/low byte split (>> %s) does not mirror the reader's (<< %s)" % (sorted(p["shifts"]), rshl), b.loc())
        t2 = [t for t in p["bytes"] if t >> S == 2]
        if not t2:
            R.finding(wfn, "class3:tag", "no tag byte decoding to class 2 (32-bit length) is written", b.loc())
        if not p["be"] or not rbe:
            R.finding(wfn, "class3:endianness", "32-bit length: encoder big-endian=%s, decoder big-endian=%s" % (p["be"], rbe), b.loc())
        for x in p["trunc"]:
            # a length that does not fit the widest class must be refused, not truncated
            guarded = False
            for (op, side, v, i) in int_consts_in(b):
                if v in (0xFFFFFFFF, 0x100000000) and cfg.dominates(b, i, x):
                    guarded = True
            R.inst(wfn, "u32-cast", {"at": b.loc(x), "guarded": guarded})
            if not guarded:
                R.finding(wfn, "class3:truncation", "a length above u32::MAX is silently truncated by `as u32` (line %d): the record's payload no longer matches its length" % b.bb_line(x), b.loc(x))
    R.floor("encoders", n)
    # scalar endianness pairs used for expiry and scores
    pairs = (("write_u64_le", "to_le_bytes", "read_u64_le", "from_le_bytes", "u64"), ("write_f64", "to_le_bytes", "read_f64", "from_le_bytes", "f64"),
             ("write_u32_be", "to_be_bytes", "read_u32_be", "from_be_bytes", "u32"))
    for wn, wm, rn, rm, ty in pairs:
        wbod = ctx.prog.need(W + wn); rbod = ctx.prog.need(RD + rn)
        wok = any(re.search(r"impl %s>::%s$" % (ty, wm), t["f"] or "") for _, t in wbod.calls())
        rok = any(re.search(r"impl %s>::%s$" % (ty, rm), t["f"] or "") for _, t in rbod.calls())
        R.inst(wbod.fn, "endianness:" + ty, {"writer": wn, "reader": rn, "writer_ok": wok, "reader_ok": rok})
        if not (wok and rok):
            R.finding(wbod.fn, "endianness:%s" % ty, "%s/%s do not use the mirrored byte order (%s / %s)" % (wn, rn, wm, rm), wbod.loc())


PRIM_W = {"write_byte": "byte", "write_string": "string", "write_length": "length", "write_f64": "f64", "write_u64_le": "u64", "write_u32_be": "u32"}
PRIM_R = {"read_byte": "byte", "read_string": "string", "read_length": "length", "read_f64": "f64", "read_u64_le": "u64", "read_u32_be": "u32", "read_u32_le": "u32le"}


_PROG = None


def shape_of(b, region, prims, prefix):
    """(straight-line primitive sequence, set of per-loop primitive sequences) inside region, in
    reverse post-order; loops are natural loops inside the region"""
    lps = {h: body for h, body in cfg.loops(b).items() if h in region}
    inloop = {}
    for h, body in lps.items():
        for x in body:
            if x in region:
                # innermost
                if x not in inloop or len(body) < len(lps[inloop[x]]):
                    inloop[x] = h
    seq = []; loops = {}
    for x in cfg.rpo(b):
        if x not in region:
            continue
        t = b.term(x)
        if t["k"] != "call":
            continue
        # a closure handed to an iterator adaptor (`(0..n).map(|_| self.read_string())`) is a loop
        # body: its primitives form one per-element sequence
        for ci, cl in enumerate(t.get("clos") or []):
            cb = _PROG.bodies.get(cl) if _PROG is not None else None
            if cb is None:
                continue
            cseq = []
            for y in cfg.rpo(cb):
                ty = cb.term(y)
                if ty["k"] == "call" and callee(ty).startswith(prefix):
                    kk = prims.get(callee(ty)[len(prefix):])
                    if kk is not None:
                        cseq.append(kk)
            if cseq and ("clos", cl) not in loops:
                loops[("clos", cl)] = cseq
        c = callee(t)
        if not c.startswith(prefix):
            continue
        k = prims.get(c[len(prefix):])
        if k is None:
            continue
        if x in inloop:
            loops.setdefault(inloop[x], []).append(k)
        else:
            seq.append(k)
    return seq, sorted(tuple(v) for v in loops.values())


def rule_shape(ctx, R):
    global _PROG
    _PROG = ctx.prog
    wb = ctx.prog.need(W + "write_key_value")
    sw0 = payload_switch(ctx, wb, PRIM_W, W)
    if not sw0:
        R.broken.append("Value switch not found in write_key_value"); return
    i, names, other, p = sw0
    rb, arms = reader_opcode_arms(ctx)
    wtabs = writer_opcode_table(ctx, W + "write_key_value")[1]
    if not wtabs:
        R.broken.append("writer opcode table not found"); return
    wt = wtabs[0][1]
    n = 0
    for v in VARIANTS:
        if v not in names or v not in wt:
            continue
        wreg = cfg.edge_dom_set(wb, i, names[v])
        wseq, wloops = shape_of(wb, wreg, PRIM_W, W)
        opc = wt[v][0]
        regs = arms.get(opc)
        if not regs:
            continue
        rreg = set()
        for (s_, tgt) in regs:
            rreg |= arm_blocks(rb, s_, tgt)
        rseq, rloops = shape_of(rb, rreg, PRIM_R, RD)
        n += 1
        wseq2 = wseq[1:] if wseq and wseq[0] == "byte" else wseq
        R.inst(wb.fn, "shape:" + v, {"variant": v, "writer": {"seq": wseq2, "loops": wloops}, "reader": {"seq": rseq, "loops": rloops}})
        if v in ("Stream", "List"):
            # the List opcode is shared with the stream encoding (in-band marker, see R-RDB-TYPE):
            # compare only that the reader has a loop for each writer loop shape
            if v == "List" and not all(l in rloops for l in wloops):
                R.finding(wb.fn, "shape:%s:loop-mismatch" % v, "list elements are written as %s per element but no reader loop reads that" % (wloops,), wb.loc(names[v]))
            continue
        if not same_shape_modulo_key(wseq2, rseq) or wloops != rloops:
            R.finding(wb.fn, "shape:%s:mismatch" % v,
                      "Value::%s is written as %s + loops %s but read as %s + loops %s: the record cannot be read back" % (v, wseq2, wloops, rseq, rloops), wb.loc(names[v]))
    R.floor("variants_compared", n)
    # expiry prefix: writer ExpireTimeMs + u64 ; reader ExpireTimeMs arm reads u64
    lb = ctx.prog.need(RD + "load_into")
    exp_ok = False
    for x, bb in enumerate(lb.bbs):
        for st in bb["s"]:
            if st["k"] == "=" and st["r"]["k"] == "bin" and st["r"]["op"] == "Eq":
                v = byte_const(lb, x, st["r"]["a"]) or byte_const(lb, x, st["r"]["b"])
                if v == 0xFC and bb["t"]["k"] == "switch":
                    reg = cfg.edge_dom_set(lb, x, bb["t"]["o"])
                    if any(lb.term(y)["k"] == "call" and callee(lb.term(y)) == RD + "read_u64_le" for y in reg):
                        exp_ok = True
    wexp = False
    for x, t in wb.calls():
        if callee(t) == W + "write_byte" and byte_const(wb, x, t["a"][1]) == 0xFC:
            if any(callee(tt) == W + "write_u64_le" for y, tt in wb.calls() if y in cfg.fwd(wb, [x])):
                wexp = True
    R.inst(wb.fn, "expiry-prefix", {"writer_0xFC_then_u64": wexp, "reader_0xFC_reads_u64": exp_ok})
    if wexp and not exp_ok and not any(st["k"] == "=" and st["r"]["k"] == "bin" and st["r"]["op"] == "Eq" and 0xFC in (byte_const(lb, x, st["r"]["a"]), byte_const(lb, x, st["r"]["b"])) for x, bb in enumerate(lb.bbs) for st in bb["s"]):
        R.broken.append("the loader's dispatch on the expiry opcode is not recognised (no comparison with 0xFC in load_into)")
    elif not (wexp and exp_ok):
        R.finding(wb.fn, "expiry-prefix:mismatch", "expiry record (opcode 0xFC + u64 LE ms) not mirrored between writer (%s) and reader (%s)" % (wexp, exp_ok), wb.loc())


def rule_count(ctx, R):
    """the count written before a collection is len() of the very collection iterated"""
    n = 0
    for wfn, lenfn, prefix in ((W + "write_key_value", W + "write_length", W), (EN + "generate_rdb_bytes", EN + "write_length", EN)):
        b = ctx.prog.need(wfn)
        sw = discr_switch_on(ctx, b, VALUE)
        # the arm switch that contains write_length calls
        for (i, names, other, p) in sw:
            for v, tgt in names.items():
                if v in ("String", "Stream"):
                    continue
                reg = cfg.edge_dom_set(b, i, tgt)
                lens = [(x, b.term(x)) for x in sorted(reg) if b.term(x)["k"] == "call" and callee(b.term(x)) == lenfn]
                lps = [(h, body) for h, body in cfg.loops(b).items() if h in reg]
                if not lens or not lps:
                    continue
                # the count: first write_length in the arm not inside a loop
                inloop = set()
                for h, body in lps:
                    inloop |= body
                cnt = [(x, t) for x, t in lens if x not in inloop]
                if not cnt:
                    continue
                x, t = cnt[0]
                arg = t["a"][-1]
                P = prov.operand_origins(b, arg, deep=True)
                len_calls = [r for r in P.roots if r[0] == "call" and re.search(r"::len$", re.sub(r"::<[^>]*>$", "", r[1]))]
                # iterated object: the into_iter/iter call feeding the arm's outer loop
                iters = []
                for h, body in lps:
                    for y in sorted(cfg.bwd(b, [h]) & reg):
                        tt = b.term(y)
                        if tt["k"] == "call" and re.search(r"IntoIterator>::into_iter$|::iter$", tt["f"] or "") and y not in inloop:
                            iters.append((y, tt))
                n += 1
                same = False; detail = None
                for r in len_calls:
                    lt = b.term(r[2])
                    lroot = root_locals(b, lt["a"][0])
                    for (y, tt) in iters:
                        iroot = root_locals(b, tt["a"][0])
                        if lroot & iroot:
                            same = True
                        detail = (shared.short_callee(r[1]), shared.short_callee(tt["f"]))
                R.inst(wfn, "count:" + v, {"variant": v, "count_from": [shared.short_callee(r[1]) for r in len_calls], "iterates": [shared.short_callee(tt["f"]) for _, tt in iters][:2], "same_object": same})
                if not same:
                    R.finding(wfn, "count:%s:not-len-of-iterated" % v,
                              "the element count written for Value::%s (line %d) is not len() of the collection that is then iterated (%s): if the two are read at different instants the file declares more/fewer elements than it holds and cannot be loaded" % (v, b.bb_line(x), detail), b.loc(x))
    R.floor("count_sites", n)


def root_locals(b, op):
    """locals an operand derives from through refs/derefs/copies and the std pass-through calls
    (the owning variable of a collection)"""
    if op_is_const(op):
        return set()
    seen = set(); st = [op_place(op)["l"]]
    defs = prov.build_defs(b)
    while st:
        l = st.pop()
        if l in seen:
            continue
        seen.add(l)
        for kind, bbi, x in defs.get(l, ()):
            if kind == "stmt" and not x["l"]["p"]:
                r = x["r"]
                if r["k"] in ("use", "cast") and not op_is_const(r["o"]):
                    st.append(op_place(r["o"])["l"])
                elif r["k"] == "ref":
                    st.append(r["p"]["l"])
            elif kind == "call" and prov.PASS_THROUGH.search(x["f"] or "") and x["a"] and not op_is_const(x["a"][0]):
                st.append(op_place(x["a"][0])["l"])
    return seen


def rule_type(ctx, R):
    """the reader decides the value type from the opcode only: no branch on a comparison between
    payload bytes (read_string results) and a constant"""
    n = 0
    for fn, b in ctx.prog.bodies.items():
        if not fn.startswith(RD):
            continue
        for i, t in b.calls():
            d = t["def"] or ""
            if not (d.endswith("::eq") or d.endswith("::ne")) or len(t["a"]) != 2:
                continue
            srcs = [prov.operand_origins(b, a) for a in t["a"]]
            from_payload = any(P.has_call(r"RdbReader::<R>::read_string$") for P in srcs)
            consts = []
            for a in t["a"]:
                pc = shared._promoted_through_ref(b, i, a)
                if pc:
                    consts += [c for c in pc if const_bytes(c) is not None or c.get("ty", "").startswith("&[u8")]
                if const_bytes(a) is not None:
                    consts.append(a)
            if from_payload:
                n += 1
                R.inst(fn, "payload-compare", {"at": b.loc(i), "constant": [c.get("c") for c in consts][:1]})
                if consts:
                    R.finding(fn, "payload-compare:in-band-marker",
                              "the loader decides the value type by comparing payload bytes with a constant (%s, line %d): a list whose first element equals the marker is loaded as a stream" % (consts[0].get("c"), b.bb_line(i)), b.loc(i))
    R.note("payload comparisons in the reader: %d" % n)


def rule_expired_on_load(ctx, R):
    """a record that carries an expiry is never loaded as persistent: the TTL handed on by
    read_key_value_with_expiry is never None"""
    # the sites are found by what they do, wherever they live (a dedicated helper, or the opcode
    # loop itself): calls of the record loader whose TTL operand derives from a deadline read from
    # the file (read_u64_le / read_u32_le)
    sites = []
    for fn_, b_ in sorted(ctx.prog.bodies.items()):
        if not fn_.startswith(RD) or b_.kind == "Closure":
            continue
        for i_, t_ in b_.calls():
            if callee(t_) == RD + "read_key_value_with_type" and t_["a"] and not op_is_const(t_["a"][-1]):
                P_ = prov.operand_origins(b_, t_["a"][-1], deep=True)
                if P_.has_call(r"RdbReader::<R>::read_u(64|32)_le$") or any(b_.locals[p_] == "u64" for p_ in P_.params()):
                    sites.append((b_, i_, t_))
    R.floor("expiry_load_sites", len(sites))
    for b, i, t in sites:
        P = prov.operand_origins(b, t["a"][-1])
        none = any(r[0] == "agg" and r[1] == "std::option::Option::None" for r in P.roots)
        R.inst(b.fn, "ttl-operand", {"at": b.loc(i), "can_be_None": none})
        if none:
            R.finding(b.fn, "expired-record-loaded-persistent",
                      "a record whose deadline already passed is handed on with ttl = None, i.e. loaded as a key WITHOUT expiry: keys that expired while the server was down come back and never expire", b.loc(i))


def rule_rdb_db(ctx, R):
    """reader: every engine call uses the database of the last SelectDb record; writer: the
    selector written and the database read from are the same loop variable"""
    import rules_db
    b = ctx.prog.need(RD + "read_key_value_with_type")
    dbp, dbfields, dbup = rules_db.db_flow(ctx)
    n = 0
    for (i, a, why) in rules_db.db_positions(ctx, b, dbp, dbfields, dbup):
        n += 1
        cl, det = rules_db.classify_db_operand(ctx, b, a)
        if "param" not in cl:
            R.finding(b.fn, "db:%s:not-from-selector" % why, "the loader stores into a database that is not the one handed down from the SelectDb record (%s)" % sorted(cl), b.loc(i))
    R.inst(b.fn, "reader-db", {"db_uses": n})
    R.floor("reader_db_uses", n)
    lb = ctx.prog.need(RD + "load_into")
    sel = None
    # current_db is assigned from read_length in the SelectDb arm and passed to the loaders
    uses = [(i, t) for i, t in lb.calls() if callee(t) in (RD + "read_key_value_with_type", RD + "read_key_value_with_expiry")]
    for i, t in uses:
        a = t["a"][2]
        P = prov.operand_origins(lb, a)
        ok = P.has_call(r"RdbReader::<R>::read_length$")
        R.inst(lb.fn, "selector-flow", {"at": lb.loc(i), "db_from_read_length": ok})
        if not ok:
            R.finding(lb.fn, "selector-flow:lost", "the database handed to the record loader does not come from the SelectDb record", lb.loc(i))
    wb = ctx.prog.need(EN + "write_snapshot")
    sels = [(i, t) for i, t in wb.calls() if callee(t) == W + "write_db_selector"]
    R.floor("writer_selectors", len(sels))
    for i, t in sels:
        r1 = root_locals(wb, t["a"][1])
        ok = True
        for (j, a, why) in rules_db.db_positions(ctx, wb, dbp, dbfields, dbup):
            if not (root_locals(wb, a) & r1):
                ok = False
        R.inst(wb.fn, "selector", {"at": wb.loc(i), "same_variable_as_reads": ok})
        if not ok:
            R.finding(wb.fn, "selector:other-db", "the database selector written is not the database the keys are read from", wb.loc(i))


# ---------------------------------------------------------------------------------------
# C10

def _up_prov(ctx, body, op, depth=0):
    """(fields, call names) on the provenance of an operand, following closure captures up into
    the enclosing functions"""
    fields = set(); calls = set()
    if op_is_const(op):
        return fields, calls
    P = prov.operand_origins(body, op)
    fields |= set(P.fields)
    calls |= {c for c, _ in P.via} | {r[1] for r in P.roots if r[0] == "call"}
    if depth < 4:
        for r in P.roots:
            if r[0] == "upvar":
                cap = shared.capture_operand(ctx, body, r)
                if cap:
                    f2, c2 = _up_prov(ctx, cap[0], cap[1], depth + 1)
                    fields |= f2; calls |= c2
    return fields, calls


_TMP_DERIV = r"Path(Buf)?::with_extension|with_file_name|PathBuf::push|Path(Buf)?::join"


def _attached_after_success_of(ctx, top, holder_body, site_body, earlier):
    """is `site_body` (a closure) attached by Result::and_then / Option::and_then / map to a
    value that exists only when one of the `earlier` (body, block) calls succeeded?  The
    receiver of the attaching adaptor derives from the earlier call's result, or from another
    adaptor whose closure contains the earlier call (a success chain)."""
    parent = ctx.prog.bodies.get(site_body.encl) if site_body.encl else None
    if parent is None:
        return False
    for i, t in parent.calls():
        if site_body.fn not in (t.get("clos") or ()) or not re.search(r"(Result|Option)::<.*>::(and_then|map)(::<.*>)?$", t["f"] or "") or not t["a"] or op_is_const(t["a"][0]):
            continue
        P = prov.operand_origins(parent, t["a"][0], deep=True)
        blocks = {r[2] for r in P.roots if r[0] == "call"} | {bb for _, bb in P.via}
        for (eb, ei) in earlier:
            if eb is parent and ei in blocks:
                return True
            # earlier call sits in a closure attached to an adaptor on the receiver chain
            for x in blocks:
                tt = parent.term(x)
                if tt["k"] == "call" and eb.fn in (tt.get("clos") or ()) and re.search(r"(Result|Option)::<.*>::(and_then|map)(::<.*>)?$", tt["f"] or ""):
                    return True
    return False


def rule_save_tmp(ctx, R):
    b = ctx.prog.need(EN + "save")
    tree = shared.closure_tree(ctx, b)
    ws = [(body, i, t) for body in tree for i, t in body.calls() if callee(t) == EN + "write_snapshot"]
    ren = [(body, i, t) for body in tree for i, t in body.calls() if re.search(r"^std::fs::rename", t["f"] or "")]
    R.floor("write_snapshot_calls", len(ws)); R.floor("rename_calls", len(ren))
    if not ws or not ren:
        R.broken.append("save() is not recognised as write_snapshot(temp) followed by rename(temp, final): write_snapshot calls %d, rename calls %d in its closure tree" % (len(ws), len(ren))); return
    wb, wi, wt = ws[0]; rb, ri, rt = ren[0]
    w = ctx.prog.need(EN + "write_snapshot")
    # files opened for writing: in save's closure tree and in write_snapshot
    opens = [(body, i, t) for body in tree + [w] for i, t in body.calls() if re.search(r"OpenOptions::open|File::create|File::options", t["f"] or "") and not re.search(r"File::options", t["f"] or "")]
    # temp path: what is written (the path handed to write_snapshot, or the file opened in save and
    # handed to it) derives from file_path through with_extension / a different name
    tmp_ok = False; via = []
    for body, i, t in opens:
        if body is w:
            continue
        f_, c_ = _up_prov(ctx, body, t["a"][-1])
        if any(re.search(_TMP_DERIV, c) for c in c_):
            tmp_ok = True; via = [shared.short_callee(c) for c in c_ if re.search(_TMP_DERIV, c)][:2]
    f_, c_ = _up_prov(ctx, wb, wt["a"][-1])
    if any(re.search(_TMP_DERIV, c) for c in c_):
        tmp_ok = True; via = [shared.short_callee(c) for c in c_ if re.search(_TMP_DERIV, c)][:2]
    R.inst(b.fn, "temp-path", {"write_target_derived_by": via, "is_temp": tmp_ok})
    if not tmp_ok:
        R.finding(b.fn, "write-target-is-final", "write_snapshot is handed the dump path itself, not a temporary path: a failed or interrupted save destroys the previous dump", wb.loc(wi))
    # rename(from=temp, to=final)
    ff, fc = _up_prov(ctx, rb, rt["a"][0]); tf, tc = _up_prov(ctx, rb, rt["a"][1])
    from_tmp = any(re.search(_TMP_DERIV, c) for c in fc)
    to_final = not any(re.search(_TMP_DERIV, c) for c in tc) and any(f.endswith("RdbEngine.file_path") for f in tf)
    R.inst(b.fn, "rename-direction", {"from_temp": from_tmp, "to_final": to_final})
    if not (from_tmp and to_final):
        R.finding(b.fn, "rename-direction", "rename does not move the temporary file onto the dump path", rb.loc(ri))
    # rename only on the success continuation of write_snapshot
    if rb is wb:
        rs = shared.result_switch(wb, wi)
        ok = rs is not None and all(ri in cfg.fwd(wb, [o]) for o in rs["ok"]) and not any(ri in cfg.fwd(wb, [f]) for f in rs["fail"]) and cfg.dominates(wb, wi, ri)
    else:
        ok = rb.kind == "Closure" and _attached_after_success_of(ctx, b, b, rb, [(wb, wi)])
    R.inst(b.fn, "rename-after-success", {"ok": ok})
    if not ok:
        R.finding(b.fn, "rename-not-gated-on-write-success", "the rename onto the dump path is reachable without write_snapshot having succeeded", rb.loc(ri))
    # write_snapshot: every success return passes flush()'s success edge
    fl = [(i, t) for i, t in w.calls() if callee(t) == W + "flush" or re.search(r"<std::io::BufWriter<.*> as std::io::Write>::flush$|<W as std::io::Write>::flush$", t["f"] or "")]
    okret = [i for i, bb in enumerate(w.bbs) for st in bb["s"] if st["k"] == "=" and st["l"]["l"] == 0 and st["r"]["k"] == "agg" and st["r"]["a"] == "std::result::Result::Ok"]
    R.note("flush calls in write_snapshot: %d" % len(fl))
    good = False
    for i, t in fl:
        rs = shared.result_switch(w, i)
        if rs is None:
            continue
        okedge = set()
        for o in rs["ok"]:
            okedge |= cfg.dom_set(w, o)
        if okret and all(x in okedge for x in okret):
            good = True
    R.inst(w.fn, "flush-before-ok", {"success_returns": len(okret), "dominated_by_flush_success": good})
    if not good:
        R.finding(w.fn, "ok-without-flush", "write_snapshot can return Ok without a successful flush of the buffered writer: a truncated temp file would be renamed over the dump", w.loc())
    for body, i, t in opens:
        if body is w:
            P = prov.operand_origins(w, t["a"][-1])
            ok = bool(P.params() - {1, 2})
        else:
            f_, c_ = _up_prov(ctx, body, t["a"][-1])
            ok = any(re.search(_TMP_DERIV, c) for c in c_)
        R.inst(body.fn, "open-target", {"at": body.loc(i), "is_the_temp_path": ok})
        if not ok:
            R.finding(body.fn, "open-target:not-parameter", "the save path opens a file other than the temporary dump", body.loc(i))
        # open mode: the temp file of an earlier failed / interrupted save may still be there
        mode = open_mode(ctx, body, i, t)
        R.inst(body.fn, "open-mode", {"at": body.loc(i), "mode": mode})
        if mode is None:
            R.broken.append("open mode of the temp dump at %s not recognised" % body.loc(i))
        elif mode.get("create_new"):
            R.finding(w.fn, "open-mode:create_new", "the temporary dump is opened with create_new(true): the leftover of one failed or interrupted save (save() does not remove it) makes every later SAVE / BGSAVE fail with `File exists` -- a later save no longer works", body.loc(i))
        elif mode.get("append") or not mode.get("truncate"):
            R.finding(w.fn, "open-mode:no-truncate", "the temporary dump is opened without truncation: the leftover of an earlier, longer attempt stays behind the new snapshot's end (or the new snapshot is appended to it) and the renamed dump is not a complete, loadable snapshot", body.loc(i))
    if not opens:
        R.broken.append("no file is opened for writing in save() or write_snapshot")
    # who else writes files in the rdb module / renames onto file_path
    mine = {body.fn for body in tree} | {w.fn}
    for fn, fb in ctx.prog.bodies.items():
        if not fn.startswith("storage::rdb::") or fn in mine or "::tests::" in fn:
            continue
        for i, t in fb.calls():
            if re.search(r"OpenOptions::(open|write)|File::create|std::fs::write", t["f"] or ""):
                R.inst(fn, "other-writer")
                R.finding(fn, "other-file-writer", "%s opens a file for writing outside the save path" % fn, fb.loc(i))


def open_mode(ctx, b, i, t):
    """{option: bool} with which a file is opened at call site i: File::create = create+truncate;
    OpenOptions::open = the builder calls on the value flow of its receiver with their constant
    arguments.  None when an argument is not a constant."""
    import flow
    f = t["f"] or ""
    if re.search(r"File::create(::<.*>)?$", f):
        return {"write": True, "create": True, "truncate": True}
    if re.search(r"File::create_new(::<.*>)?$", f):
        return {"write": True, "create_new": True}
    if not re.search(r"OpenOptions::open(::<.*>)?$", f):
        return None
    mode = {}
    for (c, fn, bb) in flow.flow_calls(ctx, b.fn, t["a"][0]):
        m = re.search(r"OpenOptions::(read|write|append|truncate|create|create_new)$", c or "")
        if not m:
            continue
        tt = ctx.prog.bodies[fn].term(bb)
        if len(tt["a"]) < 2 or not op_is_const(tt["a"][1]):
            return None
        mode[m.group(1)] = mode.get(m.group(1), False) or "true" in tt["a"][1]["c"]
    return mode


def rule_bgsave_flag(ctx, R):
    """every exit of the BGSAVE thread -- return and, with unwind edges, resume -- passes the
    store that clears bgsave_in_progress (or the flag is cleared by a Drop impl of a guard)"""
    bg = ctx.prog.need(EN + "bgsave")
    clos = [c for i, t in bg.calls() for c in t["clos"] if t["def"] in ("std::thread::spawn", "std::thread::Builder::spawn")]
    R.floor("bgsave_thread_closures", len(clos))
    for cl in clos:
        b = ctx.prog.need(cl)
        stores = set()
        for i, bb in enumerate(b.bbs):
            for st in bb["s"]:
                if st["k"] == "=" and st["r"]["k"] == "use" and op_is_const(st["r"]["o"]) and st["r"]["o"]["c"] == "false" and "*" in st["l"]["p"]:
                    ty = b.locals[st["l"]["l"]]
                    if "bool" in ty:
                        stores.add(i)
        # the flag as an AtomicBool: `flag.store(false, ..)`
        stores |= {i for i, t in b.calls() if _atomic_clear(t)}
        # Drop-guard idiom: a local whose type has a local Drop impl that stores false into the flag
        guards = drop_guard_locals(ctx, b)
        # the guard must exist before the save starts
        saves = [i for i, t in b.calls() if callee(t) == EN + "save"]
        if guards and saves:
            inits = [i for i, bb in enumerate(b.bbs) for st in bb["s"] if st["k"] == "=" and st["l"]["l"] in guards and not st["l"]["p"]]
            if not any(all(cfg.dominates(b, i, s_) for s_ in saves) for i in inits):
                guards = []
        for unwind in (False, True):
            exits = b.exits(unwind)
            bad = []
            for e in exits:
                p = cfg.path_avoiding(b, [0], [e], stores, unwind=unwind)
                if p is not None and not guards:
                    bad.append((e, p))
            R.inst(cl, "exits:" + ("unwind" if unwind else "normal"), {"exits": len(exits), "clearing_stores": len(stores), "drop_guard": bool(guards), "exits_without_clear": len(bad)})
            if bad:
                e, p = bad[0]
                calls = [callee(b.term(x)).split("::")[-1] for x in p if b.term(x)["k"] == "call" and b.term(x)["u"] >= 0 and b.term(x)["u"] in p]
                R.finding(bg.fn, "flag-not-cleared:" + ("unwind" if unwind else "return"),
                          "the BGSAVE thread can end (%s) without clearing bgsave_in_progress%s: every later BGSAVE and auto-save is refused forever" % ("panic/unwind" if unwind else "return", (" (panic in %s)" % calls[-1]) if calls else ""),
                          b.loc(e), witness=["bb%d %s" % (x, b.loc(x)) for x in p][-6:])


def _atomic_clear(t):
    return bool(re.search(r"atomic::Atomic(Bool|::<bool>)::(store|swap)$", t["f"] or "")) and len(t["a"]) > 1 and op_is_const(t["a"][1]) and t["a"][1]["c"].replace("const ", "") == "false"


def drop_guard_locals(ctx, b):
    out = []
    for im in ctx.prog.impls:
        if im["trait"] != "std::ops::Drop":
            continue
        for m in im["methods"]:
            mb = ctx.prog.bodies.get(m)
            if mb is None:
                continue
            clears = any(st["k"] == "=" and st["r"]["k"] == "use" and op_is_const(st["r"]["o"]) and st["r"]["o"]["c"] == "false" and "*" in st["l"]["p"]
                         for bb in mb.bbs for st in bb["s"]) or any(_atomic_clear(t) for _, t in mb.calls())
            if clears:
                for l, ty in enumerate(b.locals):
                    if ty == im["self"] or ty.startswith(im["self"] + "<"):
                        out.append(l)
    return out


def rule_save_excl(ctx, R):
    """single-writer: every call of write_snapshot happens while one common lock/flag is held"""
    sv = ctx.prog.need(EN + "save")
    # lock acquisitions (Mutex::lock / try_lock on an RdbEngine field) that dominate write_snapshot
    wi = [i for i, t in sv.calls() if callee(t) == EN + "write_snapshot"]
    locks = []
    for i, t in sv.calls():
        if re.search(r"std::sync::Mutex::<.*>::(lock|try_lock)$", t["f"] or "") and t["a"]:
            P = prov.operand_origins(sv, t["a"][0])
            flds = [f for f in P.fields if f.startswith("storage::rdb::RdbEngine.")]
            if flds:
                locks.append((i, flds[-1], t))
    held = []
    for (i, f, t) in locks:
        # the guard must be live across write_snapshot: no drop of the guard local between
        g = guard_local(sv, i)
        if all(cfg.dominates(sv, i, w) for w in wi) and g is not None and not dropped_between(sv, g, i, wi):
            held.append(f)
    R.inst(sv.fn, "single-writer", {"write_snapshot_calls": len(wi), "locks_held_across": held})
    if not held:
        R.finding(sv.fn, "no-single-writer-guard",
                  "save() writes `<dump>.tmp` without holding any lock: SAVE on the command thread, the BGSAVE thread, auto-save, SHUTDOWN and replication can write the same temp file at once and rename an interleaved file over the dump", sv.loc())


def guard_local(b, call_bb):
    t = b.term(call_bb)
    cur = t["d"]["l"]; bb = t["t"]
    for _ in range(6):
        if bb < 0:
            return None
        tt = b.term(bb)
        if tt["k"] == "call" and tt["a"] and op_local(tt["a"][0]) == cur and re.search(r"::(unwrap|expect|unwrap_or_else)(::<.*>)?$", tt["f"] or ""):
            cur = tt["d"]["l"]; bb = tt["t"]; continue
        moved = None
        for st in b.stmts(bb):
            if st["k"] == "=" and st["r"]["k"] == "use" and op_local(st["r"]["o"]) == cur and not st["l"]["p"]:
                moved = st["l"]["l"]
        if moved is not None:
            cur = moved
        return cur
    return cur


def dropped_between(b, g, start, targets):
    reach = cfg.fwd(b, [start]) & cfg.bwd(b, targets)
    for x in reach:
        t = b.term(x)
        if t["k"] == "drop" and t["p"]["l"] == g and not t["p"]["p"] and x not in targets:
            return True
        if t["k"] == "call" and re.search(r"^std::mem::drop::<", t["f"] or "") and t["a"] and op_local(t["a"][0]) == g:
            return True
    return False


def rule_load_err(ctx, R):
    """no result of a read primitive is discarded in the reader; unknown opcodes are refused"""
    n = 0
    for fn, b in ctx.prog.bodies.items():
        if not fn.startswith(RD) or b.kind == "Closure":
            continue
        for i, t in b.calls():
            c = callee(t)
            if not c.startswith(RD + "read_"):
                continue
            n += 1
            rs = shared.result_switch(b, i)
            ok = rs is not None
            if (t["d"]["l"] == 0 and not t["d"]["p"]) or _mapped_to_return(b, t):
                R.inst(fn, "read:" + c[len(RD):], None)
                continue          # the call's result IS this function's result (tail call, possibly `.map(..)`-ed)
            if ok:
                # the failure edge must reach an Err return of this function, not be swallowed
                fails = set()
                for f0 in rs["fail"]:
                    fails |= cfg.fwd(b, [f0])
                ok = any(b.term(x)["k"] == "call" and "from_residual" in (b.term(x)["def"] or "") for x in fails) or \
                    any(st["k"] == "=" and st["r"]["k"] == "agg" and st["r"]["a"] == "std::result::Result::Err" for x in fails for st in b.stmts(x))
            R.inst(fn, "read:" + c[len(RD):], None)
            if not ok:
                R.finding(fn, "read-result-dropped:" + c[len(RD):], "the result of %s (line %d) is not propagated: a truncated file is treated as data" % (c[len(RD):], b.bb_line(i)), b.loc(i))
    R.floor("read_primitive_calls", n)
    b, arms = reader_opcode_arms(ctx)
    # default arm: reaches an Err construction
    errs = [i for i, bb in enumerate(b.bbs) for st in bb["s"] if st["k"] == "=" and st["r"]["k"] == "agg" and st["r"]["a"] in ("error::FerrousError::Io", "std::result::Result::Err")]
    R.inst(b.fn, "unknown-opcode", {"err_constructions": len(errs)})
    if not errs:
        R.finding(b.fn, "unknown-opcode:accepted", "an unknown value-type opcode is not refused", b.loc())
    # storage results discarded on load (let _ = storage.xxx): silent data loss
    api = shared.engine_api(ctx.prog)
    for i, t in b.calls():
        if callee(t) in api:
            rs = shared.result_switch(b, i)
            R.inst(b.fn, "store:" + callee(t).split("::")[-1], None)
            returned = (t["d"]["l"] == 0 and not t["d"]["p"]) or _flows_to_return(b, t["d"]["l"])
            if rs is None and not returned:
                R.finding(b.fn, "store-result-dropped:" + callee(t).split("::")[-1],
                          "the result of %s is discarded while loading (line %d): entries that fail to load are silently lost" % (callee(t).split("::")[-1], b.bb_line(i)), b.loc(i))


def _mapped_to_return(b, t, depth=3):
    """the Result is handed to Result::map / map_err / and_then whose result is this function's result"""
    cur = t
    for _ in range(depth):
        nxt = b.term(cur["t"]) if cur["t"] >= 0 else None
        if not nxt or nxt["k"] != "call" or not nxt["a"] or op_local(nxt["a"][0]) != cur["d"]["l"]:
            return False
        if not re.search(r"^std::result::Result::<.*>::(map|map_err|and_then)(::<.*>)?$", nxt["f"] or ""):
            return False
        if (nxt["d"]["l"] == 0 and not nxt["d"]["p"]) or _flows_to_return(b, nxt["d"]["l"]):
            return True
        cur = nxt
    return False


def _flows_to_return(b, l, depth=6):
    """is local l (a whole Result) copied/moved into _0?"""
    seen = set(); st_ = [l]
    while st_ and depth:
        depth -= 1
        cur = st_.pop()
        if cur in seen:
            continue
        seen.add(cur)
        for bb in b.bbs:
            for st in bb["s"]:
                if st["k"] == "=" and not st["l"]["p"] and st["r"]["k"] == "use" and op_local(st["r"]["o"]) == cur and not op_place(st["r"]["o"])["p"]:
                    if st["l"]["l"] == 0:
                        return True
                    st_.append(st["l"]["l"])
    return False


def rule_snap_one(ctx, R):
    """per key, value and TTL come from one engine call (one shard-lock acquisition)"""
    for wfn in (EN + "write_snapshot", EN + "generate_rdb_bytes"):
        b = ctx.prog.need(wfn)
        api = shared.engine_api(ctx.prog)
        # per-key loop: the innermost loop around the place where a key's value is encoded
        anchors = [i for i, t in b.calls() if callee(t) == W + "write_key_value"] + [i for (i, names, o, p) in discr_switch_on(ctx, b, VALUE)]
        if not anchors:
            R.broken.append("no per-key encoding site in %s" % wfn); continue
        lp = None
        for h, body in cfg.loops(b).items():
            if anchors[0] in body and (lp is None or len(body) < len(lp)):
                lp = body
        if lp is None:
            R.broken.append("per-key loop not found in %s" % wfn); continue
        keyed = []
        for i, t in b.calls():
            if i in lp and callee(t) in api and len(t["a"]) >= 3:
                keyed.append((i, callee(t).split("::")[-1]))
        percall = sorted({n for _, n in keyed})
        R.inst(wfn, "per-key-engine-calls", {"calls": percall})
        if not keyed:
            R.finding(wfn, "per-key:no-engine-read", "the per-key loop reads nothing from the engine", b.loc(anchors[0]))
        if len(keyed) > 1:
            R.finding(wfn, "per-key:multiple-acquisitions",
                      "for each key the snapshot reads %s in separate engine calls (separate lock acquisitions): value and TTL of one key can come from different instants (e.g. value before SET, TTL after)" % percall, b.loc(keyed[0][0]))


NOW = re.compile(r"^std::time::SystemTime::now$|^std::time::Instant::now$")


def rule_deadline_clock(ctx, R):
    """relative <-> absolute time: a remaining TTL read from a key is turned into the absolute
    deadline written to the dump (and back at load time) with a clock value read in the same
    function invocation -- not one cached earlier (snapshot start, struct field, parameter): the
    TTL was measured when the key was visited, so an older clock value shortens every deadline by
    the time the snapshot had been running."""
    sites = 0
    for fn, b in sorted(ctx.prog.bodies.items()):
        if not fn.startswith("storage::rdb::") or "::tests::" in fn:
            continue
        # the 8-byte write / the Duration built right after the ExpireTimeMs opcode
        for i, t in b.calls():
            c = callee(t)
            val = None; what = None
            if c == W + "write_u64_le" and len(t["a"]) > 1:
                val, what = t["a"][1], "deadline written to the dump"
            elif re.search(r"^std::time::Duration::from_millis$", t["f"] or "") and fn.endswith("read_key_value_with_expiry") and t["a"]:
                val, what = t["a"][0], "remaining TTL computed at load time"
            elif re.search(r"^std::vec::Vec::<u8>::extend_from_slice$", t["f"] or "") and fn == EN + "generate_rdb_bytes" and len(t["a"]) > 1:
                P = prov.operand_origins(b, t["a"][1], deep=True)
                if P.has_call(r"to_le_bytes$") and (P.has_call(r"SystemTime") or P.has_call(r"as_millis$")):
                    val, what = t["a"][1], "deadline written to the replication payload"
            if val is None or op_is_const(val):
                continue
            P = prov.operand_origins(b, val, deep=True)
            if not (P.has_call(r"as_millis$") or P.has_call(r"duration_since$") or P.has_call(NOW.pattern)) and what != "remaining TTL computed at load time":
                continue
            sites += 1
            fresh = P.has_call(NOW.pattern)
            if not fresh:
                # `ttl.map(|ttl| SystemTime::now() + ttl)`: the clock is read in a closure that
                # produces the value
                for bbi in [r[2] for r in P.roots if r[0] == "call"] + [v[1] for v in P.via]:
                    for cl in b.term(bbi).get("clos") or []:
                        cb = ctx.prog.bodies.get(cl)
                        if cb is not None and any(NOW.search(tc["f"] or "") for _, tc in cb.calls()):
                            fresh = True
            cached = sorted(f for f in P.fields if f.startswith("storage::rdb::Rdb") and not f.endswith(".writer") and not f.endswith(".reader"))
            R.inst(fn, "deadline-clock", {"function": fn, "what": what, "at": b.loc(i), "clock_read_in_this_function": fresh, "cached_fields_involved": cached})
            if not fresh:
                R.finding(fn, "deadline-clock:not-read-here",
                          "the %s (line %d) is computed without reading the clock in %s itself%s: the key's remaining TTL was measured when the key was visited, so a clock value taken earlier moves every deadline by the time elapsed in between" % (
                              what, b.bb_line(i), fn.split("::")[-1], (" (uses %s)" % ", ".join(c_.rsplit(".", 1)[-1] for c_ in cached)) if cached else ""), b.loc(i))
    R.floor("deadline_conversions", sites)



def rule_shape_siblings(ctx, R):
    global _PROG
    _PROG = ctx.prog
    """every other function of the reader that dispatches on the value-type byte (a skipper, a
    validator, a second loader) consumes, per type, exactly what the writer emits for that type:
    same straight-line primitives, same per-element loop bodies (a hash is count x TWO strings)"""
    wb = ctx.prog.need(W + "write_key_value")
    sw0 = payload_switch(ctx, wb, PRIM_W, W)
    if not sw0:
        R.broken.append("Value switch not found in write_key_value"); return
    i, names, other, p = sw0
    wtabs = writer_opcode_table(ctx, W + "write_key_value")[1]
    if not wtabs:
        R.broken.append("writer opcode table not found"); return
    wt = wtabs[0][1]
    type_opcodes = {wt[v][0]: v for v in VARIANTS if v in wt}
    main = RD + "read_key_value_with_type"
    n = 0; nf = 0
    for fn, b in sorted(ctx.prog.bodies.items()):
        if not fn.startswith(RD) or fn == main or "::tests::" in fn or b.kind == "Closure":
            continue
        nf += 1
        _, arms = reader_opcode_arms(ctx, fn)
        typed = {opc: regs for opc, regs in arms.items() if opc in type_opcodes}
        if len(typed) < 2:
            continue
        for opc, regs in sorted(typed.items()):
            v = type_opcodes[opc]
            if v in ("Stream", "List"):
                continue          # the List opcode is shared with the in-band stream encoding
            wreg = cfg.edge_dom_set(wb, i, names[v])
            wseq, wloops = shape_of(wb, wreg, PRIM_W, W)
            wseq2 = wseq[1:] if wseq and wseq[0] == "byte" else wseq
            # the writer's arm includes the key string; a sibling may read the key before its dispatch
            rreg = set()
            for (s_, tgt) in regs:
                rreg |= arm_blocks(b, s_, tgt)
            rseq, rloops = shape_of(b, rreg, PRIM_R, RD)
            n += 1
            wcore = [k for k in wseq2]
            ok_loops = (wloops == rloops)
            ok_seq = (rseq == wcore) or (wcore and wcore[0] == "string" and rseq == wcore[1:])
            R.inst(fn, "sibling-shape:" + v, {"function": fn.split("::")[-1], "variant": v, "writer": {"seq": wseq2, "loops": wloops}, "this_reader": {"seq": rseq, "loops": rloops}})
            if not (ok_loops and ok_seq):
                R.finding(fn, "sibling-shape:%s:mismatch" % v,
                          "%s consumes a %s record as %s + loops %s but the writer emits %s + loops %s: after such a record the rest of the file is read out of step (every later key and database is lost)" % (
                              fn.split("::")[-1], v, rseq, rloops, wseq2, wloops), b.loc(regs[0][0]))
    R.inst("storage::rdb::RdbReader", "reader-functions-scanned-for-type-dispatch", {"functions": nf, "typed_arms_compared": n})
    R.floor("reader_functions_scanned", nf)


# ---- R-RDB-CARRY ------------------------------------------------------------------------------------
def rule_carry(ctx, R):
    """per-record state of the loader must not leak into the next record: a field of the reader
    that carries a value from one record of the file to the code that consumes it (an expiry
    waiting for its key) is reset on every successful exit of the function that consumes it"""
    adt = ctx.prog.adts.get("storage::rdb::RdbReader")
    if adt is None:
        raise AnchorMissing("ADT not found: storage::rdb::RdbReader")
    fields = {f[0]: f[1] for f in adt["variants"][0]["f"]}
    carried = {n for n, ty in fields.items() if re.search(r"^(std::option::Option<|u8$|u16$|u32$|u64$|usize$|i64$|bool$|std::time::)", ty)}
    n = 0
    bodies = {fn: b for fn, b in ctx.prog.bodies.items() if fn.startswith(RD) and "::tests::" not in fn}
    for f in sorted(carried):
        fq = "storage::rdb::RdbReader." + f
        def has_f(pl):
            return pl is not None and any(isinstance(e, dict) and e.get("f") == fq for e in pl["p"])
        setters = {}; readers = {}; resets = {}
        for fn, b in bodies.items():
            for i, bb in enumerate(b.bbs):
                if bb.get("cleanup"):
                    continue
                for st in bb["s"]:
                    if st["k"] != "=":
                        continue
                    r = st["r"]
                    if has_f(st["l"]):
                        const_reset = (r["k"] == "use" and op_is_const(r["o"])) or (r["k"] == "agg" and r["a"].endswith("Option::None"))
                        if not const_reset and r["k"] == "use":
                            Pv = prov.operand_origins(b, r["o"])
                            const_reset = bool(Pv.roots) and all(rt[0] == "const" or (rt[0] == "agg" and rt[1].endswith("Option::None")) for rt in Pv.roots)
                        (resets if const_reset else setters).setdefault(fn, []).append(i)
                    else:
                        pls = []
                        if r["k"] in ("use", "cast") and not op_is_const(r["o"]):
                            pls.append(op_place(r["o"]))
                        elif r["k"] in ("ref", "discr"):
                            pls.append(r["p"])
                        if any(has_f(pl) for pl in pls):
                            # a `&mut self.f` handed to take()/replace() is a reset, not a read
                            readers.setdefault(fn, []).append(i)
                t = bb["t"]
                if t["k"] == "call" and re.search(r"Option::<.*>::take$|^std::mem::(take|replace)::<", t["f"] or "") and t["a"] and not op_is_const(t["a"][0]):
                    P = prov.operand_origins(b, t["a"][0])
                    if fq in P.fields:
                        resets.setdefault(fn, []).append(i)
        if not setters or not readers:
            continue
        for fn in sorted(readers):
            b = bodies[fn]
            if b.kind == "Closure":
                continue
            n += 1
            oks = [x for x, bb in enumerate(b.bbs) if any(st["k"] == "=" and st["l"]["l"] == 0 and not st["l"]["p"] and st["r"]["k"] == "agg" and st["r"]["a"].endswith("Result::Ok") for st in bb["s"])]
            targets = oks or b.exits()
            rs = set(resets.get(fn, []))
            # a reset that only feeds the read (take) counts; reads that ARE resets are fine
            p = cfg.path_avoiding(b, [0], targets, rs)
            leaks = p is not None and any(x in cfg.fwd(b, [0]) for x in readers[fn])
            R.inst(fn, "carried:" + f, {"field": f, "consumer": fn, "set_in": sorted(s_.split("::")[-1] for s_ in setters), "reset_on_every_successful_exit": not leaks})
            if leaks:
                R.finding(fn, "carried:%s:not-reset-on-every-exit" % f,
                          "%s consumes the loader's per-record state `%s` (set in %s) but can return successfully (line %d) without resetting it: the next record of the file inherits it -- a key without TTL gets the previous key's deadline" % (
                              fn.split("::")[-1], f, ", ".join(sorted(s_.split("::")[-1] for s_ in setters)), b.bb_line(p[-1])), b.loc(p[-1]),
                          ["bb%d line %d" % (x, b.bb_line(x)) for x in p][-8:])
    R.note("reader fields carrying per-record state between functions: %d consumer(s) (0 while expiries are passed as arguments)" % n)
    R.trivial()


def rule_ttl_applied(ctx, R):
    """a record that carries an expiry is loaded with it: in the record loader every successful
    exit is reached either where the TTL handed down from the expiry opcode is known to be None,
    or after a storage call that receives it (path-sensitive).  An early return inside one type's
    branch (the stream encoding) that skips a TTL application shared by all branches loads that
    type without its TTL"""
    import boolpath
    b = ctx.prog.need(RD + "read_key_value_with_type")
    ttl = [p for p in range(1, b.nargs + 1) if re.match(r"^std::option::Option<std::time::Duration>$", b.locals[p])]
    if not ttl:
        raise AnchorMissing("read_key_value_with_type has no Option<Duration> TTL parameter")

    def is_ttl(b_, o):
        if op_is_const(o):
            return False
        pl = op_place(o)
        return "Option<" in b_.locals[pl["l"]] and bool(prov.origins(b_, pl["l"]).params() & set(ttl))

    class Spec(boolpath.Spec):
        def edges(s, b_, bbi, t):
            return boolpath.none_edge(b_, bbi, t, is_ttl)

        def call(s, b_, bbi, t):
            m = boolpath.OPTION_TEST.match(t["f"] or "")
            if m and t["a"] and is_ttl(b_, t["a"][0]):
                return {"is_none": boolpath.A, "is_some": boolpath.N}.get(m.group(1))
            return None
    # storage calls that receive (something derived from) the TTL
    applies = set()
    for i, t in b.calls():
        if callee(t).startswith("storage::engine::StorageEngine::"):
            for a in t["a"]:
                if not op_is_const(a) and (prov.operand_origins(b, a, deep=True).params() & set(ttl)) and "Duration" in b.locals[op_place(a)["l"]]:
                    applies.add(i)
    R.floor("ttl_applying_storage_calls", len(applies))
    ex = boolpath.explore(b, Spec(), stop=applies)
    import rules_zset
    oks = rules_zset.ok_blocks(b)
    bad = [e for e in oks if e in ex.reached]
    R.inst(b.fn, "ttl-applied", {"ok_returns": len(oks), "reachable_with_a_ttl_that_was_not_applied": len(bad)})
    if bad:
        e = bad[0]
        R.finding(b.fn, "ok-return:ttl-not-applied",
                  "the record loader can return successfully (line %d) on a path that neither applied the record's TTL nor found it to be None: that value type is loaded as a persistent key although the dump carries its deadline" % b.bb_line(e), b.loc(e),
                  ["bb%d line %d" % (x, b.bb_line(x)) for x in ex.witness(b, e)][-8:])


# ---- R-RDB-READEXACT ------------------------------------------------------------------------------
def rule_read_exact(ctx, R):
    """end of file is an error for the loader, never a value: the reader's primitives fill their
    buffers with read_exact (a short read is Err(UnexpectedEof)).  A plain `Read::read` reports end
    of file as Ok(0); where its count is not looked at, a truncated dump yields zero bytes -- opcode
    0, length 0 -- and the record loop never ends."""
    n = 0
    for fn, b in sorted(ctx.prog.bodies.items()):
        if not fn.startswith("storage::rdb::RdbReader") or "::tests::" in fn:
            continue
        for i, t in b.calls():
            f = t["f"] or ""
            if b.bbs[i]["cleanup"] or not re.search(r" as std::io::Read>::(read|read_exact|read_to_end|read_buf|read_vectored)$", f):
                continue
            n += 1
            kind = f.rsplit("::", 1)[-1]
            if kind == "read_exact":
                continue
            # the count is compared somewhere after the call?
            looked = False
            for x in cfg.fwd(b, [i]):
                for st in b.bbs[x]["s"]:
                    if st["k"] == "=" and st["r"]["k"] == "bin" and st["r"].get("op") in ("Eq", "Ne", "Lt", "Le", "Gt", "Ge"):
                        for o in (st["r"]["a"], st["r"]["b"]):
                            if not op_is_const(o) and any(r[0] == "call" and r[2] == i for r in prov.operand_origins(b, o, deep=True).roots):
                                looked = True
                tt = b.bbs[x]["t"]
                if tt["k"] == "switch" and not op_is_const(tt["d"]) and any(r[0] == "call" and r[2] == i for r in prov.operand_origins(b, tt["d"], deep=True).roots) and tt.get("dty") not in ("isize",):
                    looked = True
            R.inst(fn, "read-primitive:%s" % kind, {"function": fn, "at": b.loc(i), "count_examined": looked})
            if not looked and kind == "read":
                R.finding(fn, "read-primitive:short-read-not-an-error",
                          "%s fills its buffer with Read::read (line %d) and never looks at the count: at end of file it succeeds with zero bytes, so a dump truncated where this primitive reads next is loaded as an endless run of empty records (the server hangs at start-up)" % (fn.split("::")[-1], b.bb_line(i)), b.loc(i))
    R.floor("reader_io_calls", n)
