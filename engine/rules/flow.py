"""Backward value flow: which calls take part in producing a value?

flow_calls(ctx, fn, operand) -> set of (callee_full, function, block): every call on the backward,
interprocedural data flow that produces `operand` in `fn`:
  * definitions of the locals involved, through every rvalue operand;
  * results of calls: the call itself, then all its arguments (a method result is computed from
    its receiver and arguments), the returned value of a callee whose body we have, and the
    returned value of closures handed to it (`iter().map(|x| ..)`);
  * containers filled in place: when a local on the flow is borrowed mutably for a call that adds
    to it (push / insert / extend / ...), the added operands are on the flow;
  * parameters: the matching argument at every call site of the function (bounded depth).
The result over-approximates (index computations are included); rules using it look for calls
that can only be there to transform the bytes (lossy decoding, case mapping, cutting)."""
import re
from facts import op_place, op_is_const, callee
import prov

ADDS = re.compile(r"::(push|push_back|push_front|insert|extend|extend_from_slice|append|push_str|entry|or_insert|or_insert_with|resize|write_all|put_slice)(::<.*>)?$")
MAXDEPTH = 6


def _body_flow(ctx, b, starts, memo, depth, out, params_out):
    """flow inside one body from the given start locals; records calls into `out`, parameters
    reached into params_out"""
    defs = prov.build_defs(b)
    # locals that are `&mut X` borrows: borrow local -> X
    seen = set()
    work = [x if isinstance(x, tuple) else (x, None) for x in starts]

    def push_op(o, idx=None):
        """queue the local an operand reads; a tuple-field projection selects that field of the
        tuple the local was built from (field-sensitive through `(a, b)` aggregates)"""
        if op_is_const(o):
            return
        push_place(op_place(o), idx)

    def push_place(pl, idx=None):
        k = idx
        for e in pl["p"]:
            if isinstance(e, dict) and "f" in e and re.match(r"^\d+$", str(e["f"])):
                k = int(str(e["f"]))
        work.append((pl["l"], k))
    # index: container local -> [(bb, t)] calls adding to it through a &mut borrow
    cache = ctx.memo("flow_adders", dict)
    adders = cache.get(b.fn)
    if adders is None:
        adders = {}
        mutref = {}
        for i, bb in enumerate(b.bbs):
            for st in bb["s"]:
                if st["k"] == "=" and st["r"]["k"] == "ref" and st["r"].get("m") and not st["l"]["p"]:
                    mutref.setdefault(st["l"]["l"], set()).add(st["r"]["p"]["l"])
        for i, t in b.calls():
            if ADDS.search(t["f"] or "") and t["a"] and not op_is_const(t["a"][0]):
                r = op_place(t["a"][0])["l"]
                roots = set(); stack = [r]; sn = set()
                while stack:
                    x = stack.pop()
                    if x in sn:
                        continue
                    sn.add(x)
                    if x in mutref:
                        stack.extend(mutref[x])
                    else:
                        # pass-through of &mut (deref_mut, reborrow by use)
                        ds = defs.get(x, [])
                        moved = False
                        for kind, bbi, d in ds:
                            if kind == "stmt" and d["r"]["k"] in ("use", "cast") and not op_is_const(d["r"]["o"]) and not d["l"]["p"]:
                                stack.append(op_place(d["r"]["o"])["l"]); moved = True
                            elif kind == "call" and re.search(r"DerefMut>::deref_mut$|::as_mut$|::get_mut|::or_insert|::or_default|::entry", d["f"] or "") and d["a"] and not op_is_const(d["a"][0]):
                                stack.append(op_place(d["a"][0])["l"]); moved = True
                        if not moved:
                            roots.add(x)
                    roots.add(x)
                for x in roots:
                    adders.setdefault(x, []).append((i, t))
        cache[b.fn] = adders
    while work:
        l, idx = work.pop()
        if (l, idx) in seen or (l, None) in seen:
            continue
        seen.add((l, idx))
        if 1 <= l <= b.nargs:
            params_out.add(l)
        for i, t in adders.get(l, ()):
            out.add((t["f"], b.fn, i))
            for a in t["a"][1:]:
                push_op(a, idx)
            for cl in t.get("clos") or ():
                _ret_flow(ctx, cl, memo, depth + 1, out)
        for kind, bbi, x in defs.get(l, ()):
            if kind == "call":
                out.add((x["f"], b.fn, bbi))
                keep = idx if re.search(r"Iterator>::(next|next_back)$|IntoIterator>::into_iter$|::iter(_mut)?$|::unwrap$|::expect$|Deref(Mut)?>::deref(_mut)?$|::as_ref$|::clone$|::drain|::into_iter", x["f"] or "") else None
                for a in x["a"]:
                    push_op(a, keep)
                c = callee(x)
                if c in ctx.prog.bodies and c != b.fn:
                    _ret_flow(ctx, c, memo, depth + 1, out)
                for cl in x.get("clos") or ():
                    _ret_flow(ctx, cl, memo, depth + 1, out)
            else:
                r = x["r"]; k = r["k"]
                if x["l"]["p"]:
                    # partial assignment `l.k = v`: relevant only for that field
                    fk = None
                    for e in x["l"]["p"]:
                        if isinstance(e, dict) and "f" in e and re.match(r"^\d+$", str(e["f"])):
                            fk = int(str(e["f"]))
                    if idx is not None and fk is not None and fk != idx:
                        continue
                if k in ("use", "cast", "un", "repeat"):
                    push_op(r["o"], idx)
                elif k == "bin":
                    push_op(r["a"]); push_op(r["b"])
                elif k == "agg":
                    if idx is not None and r["a"] == "tuple" and idx < len(r["o"]):
                        push_op(r["o"][idx])
                    else:
                        for o in r["o"]:
                            push_op(o)
                elif k in ("ref", "rawptr", "discr", "len"):
                    push_place(r["p"], idx)


def _ret_flow(ctx, fn, memo, depth, out):
    """calls on the flow into fn's returned value (memoised; parameters are not followed upward:
    the caller traces the arguments itself)"""
    if fn in memo:
        out |= memo[fn]; return
    if depth > MAXDEPTH:
        return
    b = ctx.prog.bodies.get(fn)
    if b is None:
        return
    memo[fn] = set()      # recursion guard
    mine = set()
    _body_flow(ctx, b, [0], memo, depth, mine, set())
    memo[fn] = mine
    out |= mine


def flow_calls(ctx, fn, operand, seen=None, depth=0, memo=None):
    out = set()
    if op_is_const(operand):
        return out
    b = ctx.prog.bodies.get(fn)
    if b is None or depth > MAXDEPTH:
        return out
    seen = set() if seen is None else seen
    memo = {} if memo is None else memo
    params = set()
    pl0 = op_place(operand)
    k0 = None
    for e in pl0["p"]:
        if isinstance(e, dict) and "f" in e and re.match(r"^\d+$", str(e["f"])):
            k0 = int(str(e["f"]))
    _body_flow(ctx, b, [(pl0["l"], k0)], memo, depth, out, params)
    for p in params:
        if (fn, p) in seen:
            continue
        seen.add((fn, p))
        if b.kind == "Closure":
            continue
        for caller in ctx.cg.callers.get(fn, ()):
            cb = ctx.prog.bodies.get(caller)
            if cb is None:
                continue
            for i, t in cb.calls():
                if callee(t) == fn and len(t["a"]) >= p:
                    out |= flow_calls(ctx, caller, t["a"][p - 1], seen, depth + 1, memo)
    return out
