"""R-SORTED-SEARCH: a sequence that is binary-searched is kept sorted by every function that grows it."""
import re
from facts import callee, op_place, op_is_const
import cfg, prov, shared

BSEARCH = re.compile(r"^(core|std|alloc)::slice::<impl \[.*\]>::(binary_search|binary_search_by|binary_search_by_key|partition_point)(::<.*>)?$"
                     r"|^std::collections::VecDeque::<.*>::(binary_search|binary_search_by|binary_search_by_key|partition_point)(::<.*>)?$")
GROW = re.compile(r"^std::vec::Vec::<.*>::(push|insert|extend_from_slice|append)$|^std::collections::VecDeque::<.*>::(push_back|push_front|insert|append)$"
                  r"|^<std::(vec::Vec|collections::VecDeque)<.*> as std::iter::Extend<.*>>::extend::<.*>$")
SORT = re.compile(r"::(sort|sort_by|sort_by_key|sort_unstable|sort_unstable_by|sort_unstable_by_key|make_contiguous)(::<.*>)?$")
ORDCMP = re.compile(r"as std::cmp::PartialOrd(<.*>)?>::(lt|le|gt|ge|partial_cmp)$|as std::cmp::Ord>::(cmp|max|min)$")


def _local_fields(P):
    return {f for f in P.fields if "::" in f and not f.startswith(("std::", "core::", "alloc::"))}


def recv_field(b, o, depth=0):
    """the field of a local type the operand points into: nearest field projection on the chain
    of refs, copies and pass-through calls (Deref, get_mut, entry().or_insert_with(), unwrap ...)"""
    if op_is_const(o) or depth > 14:
        return None
    pl = op_place(o)
    fs = [e["f"] for e in pl["p"] if isinstance(e, dict) and "f" in e and "::" in e["f"] and not e["f"].startswith(("std::", "core::", "alloc::"))]
    if fs:
        return fs[-1]
    for kind, bbi, x in prov.build_defs(b).get(pl["l"], ()):
        if kind == "call":
            if prov.PASS_THROUGH.search(x["f"] or "") and x["a"]:
                r = recv_field(b, x["a"][0], depth + 1)
                if r:
                    return r
        else:
            r_ = x["r"]
            if r_["k"] in ("ref", "rawptr"):
                r = recv_field(b, {"cp": r_["p"]}, depth + 1)
            elif r_["k"] in ("use", "cast"):
                r = recv_field(b, r_["o"], depth + 1)
            else:
                r = None
            if r:
                return r
    return None


def searched_fields(prog, scope):
    """{field: [(fn, block)]} for every binary search whose receiver is (inside) a field of a local type"""
    out = {}
    for fn, b in prog.bodies.items():
        if not scope(fn):
            continue
        for i, t in b.calls():
            if BSEARCH.match(t["f"] or "") and t["a"] and not op_is_const(t["a"][0]):
                f = recv_field(b, t["a"][0])
                if f:
                    out.setdefault(f, []).append((fn, i))
    return out


def rule_sorted_search(prefixes):
    def scope(fn):
        return fn.startswith(prefixes) and "::tests::" not in fn and "stream_integration_tests" not in fn

    def rule(ctx, R):
        sf = searched_fields(ctx.prog, scope)
        R.floor("binary_search_sites", sum(len(v) for v in sf.values()))
        ng = 0
        for fn, b in sorted(ctx.prog.bodies.items()):
            if not scope(fn):
                continue
            k = 0
            for i, t in b.calls():
                f = t["f"] or ""
                if not GROW.match(f) or not t["a"] or op_is_const(t["a"][0]):
                    continue
                rf = recv_field(b, t["a"][0])
                hit = [rf] if rf in sf else []
                if not hit:
                    continue
                ng += 1
                m = re.search(r"::(push|insert|extend_from_slice|append|push_back|push_front|extend)(::<.*>)?$", f)
                how = m.group(1) if m else "grow"
                ok, why = _order_kept(ctx, b, i, t, how)
                R.inst(fn, "grow:%s#%d" % (how, k), {"function": fn, "field": hit[-1].split("::")[-1], "at": b.loc(i), "order_kept": why})
                if not ok:
                    srch = sf[hit[-1]][0]
                    R.finding(fn, "grow:%s#%d:order-not-kept:%s" % (how, k, hit[-1].split("::")[-1]),
                              "%s adds to `%s` with %s (line %d) without an order test, a sorted-position insert or a sort, but %s looks elements up in it by binary search: once an element arrives out of order the search misses entries that are present"
                              % (fn.split("::")[-1], hit[-1].split("::")[-1], how, b.bb_line(i), srch[0].split("::")[-1]), b.loc(i))
                k += 1
        R.floor("growth_sites_of_searched_sequences", ng)
    return rule


def _order_kept(ctx, b, i, t, how):
    # (a) insert at a position that came from a binary search
    if how == "insert" and len(t["a"]) >= 2 and not op_is_const(t["a"][1]):
        P = prov.origins(b, op_place(t["a"][1])["l"], deep=True)
        if any(r[0] == "call" and BSEARCH.match(r[1]) for r in P.roots) or P.has_call(BSEARCH):
            return True, "insert at binary-search position"
    # (b) a sort of the sequence is reached on every path to the function's exits
    sorts = [j for j, tj in b.calls() if SORT.search(tj["f"] or "")]
    if sorts:
        exits = b.exits()
        if all(cfg.path_avoiding(b, [i], [e], sorts) is None for e in exits if e in cfg.fwd(b, [i])):
            return True, "sorted afterwards on every path"
    # (c) the growth is dominated by an order comparison of the element (or of the key it carries)
    elem = t["a"][-1]
    eroots = set()
    if not op_is_const(elem):
        Pe = prov.origins(b, op_place(elem)["l"], deep=True)
        eroots = {r for r in Pe.roots if r[0] in ("param", "call", "agg")}
    for j, tj in b.calls():
        if j != i and ORDCMP.search(tj["f"] or "") and cfg.dominates(b, j, i):
            for a in tj["a"]:
                if op_is_const(a):
                    continue
                Pa = prov.origins(b, op_place(a)["l"], deep=True)
                if {r for r in Pa.roots if r[0] in ("param", "call", "agg")} & eroots:
                    return True, "dominated by an order comparison of the element"
    for x, bb in enumerate(b.bbs):
        if x == i or not cfg.dominates(b, x, i):
            continue
        for st in bb["s"]:
            if st["k"] == "=" and st["r"]["k"] == "bin" and st["r"].get("op") in ("Lt", "Le", "Gt", "Ge"):
                for a in (st["r"]["a"], st["r"]["b"]):
                    if op_is_const(a):
                        continue
                    Pa = prov.origins(b, op_place(a)["l"], deep=True)
                    if {r for r in Pa.roots if r[0] in ("param", "call", "agg")} & eroots:
                        return True, "dominated by an order comparison of the element"
    # (d) the element's key is generated to exceed the last one (monotone generator): a call that
    # itself compares with / increments the last key -- accepted only when the function has an
    # order comparison at all and the element derives from its result
    if not op_is_const(elem):
        for r in prov.origins(b, op_place(elem)["l"], deep=True).roots:
            if r[0] == "call":
                cb = ctx.prog.bodies.get(r[1])
                if cb is None:
                    for _, tj in b.calls():
                        if tj["f"] == r[1]:
                            cb = ctx.prog.bodies.get(callee(tj)); break
                if cb is not None and _compares(cb):
                    return True, "element key generated by %s under a comparison with the previous key" % cb.fn.split("::")[-1]
    return False, "no order test, sorted insert or sort"


def _compares(cb):
    for bb in cb.bbs:
        for st in bb["s"]:
            if st["k"] == "=" and st["r"]["k"] == "bin" and st["r"].get("op") in ("Lt", "Le", "Gt", "Ge"):
                return True
        t = bb["t"]
        if t["k"] == "call" and ORDCMP.search(t["f"] or ""):
            return True
    return False


AS_SLICES = re.compile(r"^std::collections::VecDeque::<.*>::(as_slices|as_mut_slices)$")


def rule_whole_view(prefixes):
    """a ring buffer is two slices: code that reads `as_slices()` must look at both halves (after a
    wrap the second half holds the newest elements), or make the deque contiguous first on every path"""
    def rule(ctx, R):
        n = 0
        for fn, b in sorted(ctx.prog.bodies.items()):
            if not fn.startswith(prefixes) or "::tests::" in fn:
                continue
            k = 0
            for i, t in b.calls():
                if not AS_SLICES.match(t["f"] or ""):
                    continue
                n += 1
                d = t["d"]["l"]
                holders = {d} | _copies(b, d)
                second = False
                for bb in b.bbs:
                    for st in bb["s"]:
                        if st["k"] != "=":
                            continue
                        r = st["r"]
                        pls = []
                        if r["k"] in ("use", "cast") and not op_is_const(r["o"]):
                            pls.append(op_place(r["o"]))
                        elif r["k"] in ("ref", "rawptr", "discr"):
                            pls.append(r["p"])
                        for pl in pls:
                            if pl["l"] in holders and any(isinstance(e, dict) and str(e.get("f")) == "1" for e in pl["p"]):
                                second = True
                # whole tuple handed on (returned / passed to a call): the consumer is responsible
                escapes = any(tt["k"] == "call" and any((not op_is_const(a)) and op_place(a)["l"] in holders and not op_place(a)["p"] for a in tt["a"]) for _, tt in b.calls()) or 0 in holders
                contiguous = any(re.search(r"VecDeque::<.*>::make_contiguous$", tj["f"] or "") and cfg.dominates(b, j, i) for j, tj in b.calls())
                ok = second or escapes or contiguous
                R.inst(fn, "as_slices#%d" % k, {"function": fn, "at": b.loc(i), "second_half_used": second, "made_contiguous_first": contiguous, "pair_handed_on": bool(escapes)})
                if not ok:
                    R.finding(fn, "as_slices#%d:second-half-ignored" % k,
                              "%s reads only the first of the two slices of a ring buffer (line %d): once appends wrap around the end of the allocation the newest elements live in the second slice and become invisible to this reader" % (fn.split("::")[-1], b.bb_line(i)), b.loc(i))
                k += 1
        R.note("as_slices sites examined: %d (0 on a tree that stores sequences in Vec)" % n)
        R.trivial()
    return rule


def _copies(b, l, depth=0):
    out = set()
    if depth > 5:
        return out
    for bb in b.bbs:
        for st in bb["s"]:
            if st["k"] == "=" and st["r"]["k"] == "use" and not op_is_const(st["r"]["o"]) and not st["l"]["p"]:
                pl = op_place(st["r"]["o"])
                if pl["l"] == l and not pl["p"] and st["l"]["l"] not in out:
                    out.add(st["l"]["l"]); out |= _copies(b, st["l"]["l"], depth + 1)
    return out
