"""C11 rules: R-AOF-SET, R-AOF-PATH, R-AOF-DB, R-AOF-RAND, R-AOF-FRAME."""
import re
from facts import callee, op_local, op_place, op_is_const
import cfg, shared, prov, rules_cmd
from shared import SERVER, ENGINE

PNC = SERVER + "process_normal_command"
APPEND = "storage::aof::AofEngine::append_command"


def write_set(ctx):
    b = ctx.prog.need(SERVER + "is_write_command")
    tests = shared.str_tests(b)
    # names whose true edge reaches `return true`: exclude names compared only to return false
    names = set()
    for t in tests:
        reg = cfg.fwd(b, [t["true"]])
        sets_true = any(st["k"] == "=" and st["l"]["l"] == 0 and st["r"]["k"] == "use" and op_is_const(st["r"]["o"]) and st["r"]["o"]["c"] == "true"
                        for x in cfg.dom_set(b, t["true"]) for st in b.stmts(x))
        sets_false_only = all(not (st["k"] == "=" and st["l"]["l"] == 0 and st["r"]["k"] == "use" and op_is_const(st["r"]["o"]) and st["r"]["o"]["c"] == "true")
                              for x in cfg.dom_set(b, t["true"]) for st in b.stmts(x))
        if sets_true:
            names.add(t["name"])
    # the table form: `WRITE_COMMANDS.contains(&command)` over a constant slice of strings whose
    # contents the fact extractor exports; the lookup's result is what the function returns
    for i, t in b.calls():
        if re.search(r"slice::<impl \[&str\]>::contains$", t["f"] or "") and t["a"] and not op_is_const(t["a"][0]):
            tbl = _const_strs(b, t["a"][0])
            if tbl is None:
                continue
            d = t["d"]["l"]
            returned = d == 0 or any(st["k"] == "=" and st["l"]["l"] == 0 and not st["l"]["p"] and st["r"]["k"] == "use" and not op_is_const(st["r"]["o"]) and op_place(st["r"]["o"])["l"] == d
                                     for x in cfg.fwd(b, [i]) for st in b.stmts(x))
            if returned:
                names |= set(tbl)
    return names


def _const_strs(b, o, depth=6):
    """the exported strings of the constant table an operand is a copy / reborrow of"""
    if depth == 0:
        return None
    if op_is_const(o):
        return o.get("strs")
    pl = op_place(o)
    defs = prov.build_defs(b).get(pl["l"], ())
    if len(defs) != 1:
        return None
    kind, _, d = defs[0]
    if kind != "stmt" or d["l"]["p"]:
        return None
    r = d["r"]
    if r["k"] in ("use", "cast"):
        return _const_strs(b, r["o"], depth - 1)
    if r["k"] == "ref":
        return _const_strs(b, {"cp": {"l": r["p"]["l"], "p": []}}, depth - 1)
    return None


def rule_set(ctx, R):
    arms = rules_cmd.dispatch_arms(ctx)
    muts = set(shared.mutators(ctx))
    ws = write_set(ctx)
    R.floor("write_set_names", len(ws))
    R.floor("dispatcher_arms", len(arms))
    if not ws:
        R.broken.append("the write set of is_write_command is not recognised (no string comparison whose true edge returns true: a table lookup?): the rule cannot be evaluated")
        return
    pb = ctx.prog.need(PNC)
    n = 0
    for name, a in sorted(arms.items()):
        rm = sorted(a["reach"] & muts)
        if not rm:
            R.trivial(); continue
        n += 1
        R.inst(PNC, "arm:" + name, {"command": name, "mutators": [x[len(ENGINE):] for x in rm][:5], "in_write_set": name in ws})
        if name not in ws:
            R.finding(PNC, "arm:%s:mutates-but-not-logged" % name,
                      "%s can change the dataset (reaches %s) but is not in the write set: it is neither appended to the AOF nor propagated to replicas nor counted for auto-save" % (name, [x[len(ENGINE):] for x in rm][:3]),
                      "%s:%d" % (pb.file, pb.bb_line(min(a["region"]))))
    R.floor("mutating_arms", n)
    extra = sorted(x for x in ws if x in arms and not (arms[x]["reach"] & muts))
    R.note("write-set members whose arm reaches no dataset mutator (informational): %s" % extra)
    missing = sorted(x for x in ws if x not in arms)
    for x in missing:
        R.inst(PNC, "write-set:" + x)
        R.finding(PNC, "write-set:%s:no-arm" % x, "%s is in the write set but has no dispatcher arm" % x, pb.loc())


def rule_path(ctx, R):
    """every mutator call site reachable from the event loop lies under process_normal_command
    (where the append hook is)"""
    roots = [SERVER + "run"]
    ctx.prog.need(roots[0])
    muts = set(shared.mutators(ctx))
    outside = ctx.cg.reach(roots, stop={PNC})
    n = 0
    for fn in sorted(outside):
        if fn == PNC or fn in muts or fn.startswith(ENGINE):
            continue
        b = ctx.prog.bodies.get(fn)
        if b is None:
            continue
        sites = [(i, callee(t)) for i, t in b.calls() if callee(t) in muts]
        if not sites:
            R.trivial(); continue
        # does the function append by itself?
        appends = any(callee(t) == APPEND for _, t in b.calls())
        for i, c in sites:
            # compensation: pushing back an element this very function popped (delivery failed)
            if c in (ENGINE + "lpush", ENGINE + "rpush") and any(cc in (ENGINE + "lpop", ENGINE + "rpop") for _, cc in sites) and in_delivery_failure(b, i):
                R.note("%s: push-back of a popped element (not a new effect)" % fn)
                continue
            n += 1
            R.inst(fn, "mut:" + c[len(ENGINE):], {"function": fn, "mutator": c[len(ENGINE):], "at": b.loc(i), "appends_itself": appends})
            if not appends:
                R.finding(fn, "out-of-band-mutation:" + c[len(ENGINE):],
                          "%s changes the dataset (%s, line %d) outside process_normal_command's append hook: the effect is never written to the AOF (nor propagated to replicas)" % (fn.split("::")[-1], c[len(ENGINE):], b.bb_line(i)), b.loc(i))
    R.floor("functions_outside_dispatcher", len(outside))
    # the hook itself: in PNC the append call is guarded only by is_write_command/aof presence
    pb = ctx.prog.need(PNC)
    ap = [i for i, t in pb.calls() if callee(t) == APPEND]
    if not ap:
        # the hook in adaptor form: `self.aof_engine.as_ref().filter(|_| is_write).and_then(|aof|
        # aof.append_command(parts).err())` -- the adaptor call stands for the append (its
        # closure runs exactly when the engine is there and the filter let it through)
        for i, t in pb.calls():
            if t.get("clos") and re.search(r"Option::<.*>::(and_then|map|inspect|is_some_and|map_or|map_or_else)(::<.*>)?$", t["f"] or "") and t["a"] and not op_is_const(t["a"][0]):
                if any(callee(tt) == APPEND for c in t["clos"] if c in ctx.prog.bodies for _, _, tt in shared.deep_calls(ctx, ctx.prog.bodies[c])):
                    P = prov.operand_origins(pb, t["a"][0], deep=True)
                    if any(f.endswith("Server.aof_engine") for f in P.fields):
                        ap.append(i)
                        R.note("append hook in adaptor form at %s" % pb.loc(i))
    R.floor("append_hooks", len(ap))
    iw = [i for i, t in pb.calls() if callee(t) == SERVER + "is_write_command"]
    for a in ap:
        ok = any(cfg.dominates(pb, w, a) for w in iw)
        R.inst(PNC, "append-hook", {"at": pb.loc(a), "dominated_by_is_write_command": ok})
        if not ok:
            R.finding(PNC, "append-hook:not-gated", "the AOF append is not decided by is_write_command", pb.loc(a))
    # the hook is on every path to the dispatch: a dispatcher arm that can reach a mutator is entered
    # only after the append, or where the command is not a write command, or where the AOF is off
    import boolpath

    class HookSpec(boolpath.Spec):
        def call(s, b, bbi, t):
            if callee(t) == SERVER + "is_write_command":
                return boolpath.N
            return None

        def edges(s, b, bbi, t):
            def is_aof(b_, o):
                pl = op_place(o)
                fl = [e.get("f", "") for e in pl["p"] if isinstance(e, dict)] + prov.origins(b_, pl["l"]).fields
                return any(f.endswith("Server.aof_engine") for f in fl)
            return boolpath.none_edge(b, bbi, t, is_aof)
    try:
        ex = boolpath.explore(pb, HookSpec(), stop=ap)
    except boolpath.TooManyStates as e:
        R.broken.append(str(e)); return
    muts = set(shared.mutators(ctx))
    arms = [i for i, t in pb.calls() if i not in ap and (ctx.cg.reach([callee(t)] + list(t.get("clos") or [])) & muts)]
    open_ = [i for i in arms if i in ex.reached]
    ok = bool(ap) and bool(arms) and not open_
    R.inst(PNC, "hook-before-dispatch", {"append_calls": len(ap), "mutating_arm_calls": len(arms), "reachable_without_hook": len(open_), "ok": ok})
    if not ok:
        x = open_[0] if open_ else None
        R.finding(PNC, "hook-before-dispatch", "some dispatcher arm that can change the dataset%s can be reached without passing the AOF hook (and without `not a write command` / `AOF off`)" % ((" (%s, line %d)" % (callee(pb.term(x)).split("::")[-1], pb.bb_line(x))) if x is not None else ""),
                  pb.loc(x) if x is not None else (pb.loc(ap[0]) if ap else pb.loc()),
                  ["bb%d line %d" % (y, pb.bb_line(y)) for y in ex.witness(pb, x)][-10:] if x is not None else None)


def in_delivery_failure(b, i):
    """is block i on the failure edge of a send_frame call (and not on its success edge)?"""
    for j, t in b.calls():
        if callee(t) == "network::connection::Connection::send_frame":
            rs = shared.result_switch(b, j)
            if rs:
                fail = set()
                for f0 in rs["fail"]:
                    fail |= cfg.dom_set(b, f0)
                if i in fail:
                    return True
    return False


def rule_db(ctx, R):
    pb = ctx.prog.need(PNC)
    import rules_db
    dbp = rules_db.db_params(ctx)
    own = dbp.get(PNC, set())
    ap = [(i, t) for i, t in pb.calls() if callee(t) == APPEND]
    for i, t in ap:
        has_db = False
        for a in t["a"]:
            if not op_is_const(a) and (prov.operand_origins(pb, a).params() & own):
                has_db = True
        sel = False   # a SELECT record appended before it
        R.inst(PNC, "append-db", {"at": pb.loc(i), "record_carries_db": has_db})
        if not has_db:
            R.finding(PNC, "append-hook:no-database",
                      "the appended record does not determine the database (neither a db operand nor a SELECT record reaches append_command): a write made after SELECT n replays into database 0", pb.loc(i))


def rule_rand(ctx, R):
    arms = rules_cmd.dispatch_arms(ctx)
    muts = set(shared.mutators(ctx))
    ws = write_set(ctx)
    n = 0
    for name, a in sorted(arms.items()):
        if name not in ws or not (a["reach"] & muts):
            continue
        n += 1
        rnd = sorted(f for f in a["reach"] if f.startswith("rand::") or "rand::" in f)
        # only randomness inside the storage engine methods this arm uses decides the outcome
        eng = sorted(f for f in a["reach"] & set(shared.engine_api(ctx.prog)) if any(("rand::" in callee(t)) or callee(t).startswith("rand::") or "SliceRandom" in (t["f"] or "") for _, t in ctx.prog.bodies[f].calls()))
        R.inst(PNC, "rand:" + name, {"command": name, "engine_methods_using_rand": [e[len(ENGINE):] for e in eng]})
        if eng and name not in ("EVAL", "EVALSHA"):
            R.finding(PNC, "arm:%s:random-logged-verbatim" % name,
                      "%s has a random outcome (%s uses rand) and is appended verbatim: replay picks different members" % (name, [e[len(ENGINE):] for e in eng]),
                      "%s:%d" % (ctx.prog.bodies[PNC].file, ctx.prog.bodies[PNC].bb_line(min(a["region"]))))
    R.floor("logged_mutating_arms", n)


def rule_frame(ctx, R):
    b = ctx.prog.need(APPEND)
    ser = [(i, t) for i, t in b.calls() if callee(t) == "protocol::serializer::serialize_resp_frame"]
    R.floor("serialize_calls", len(ser))
    for i, t in ser:
        P = prov.operand_origins(b, t["a"][0], deep=True)
        arr = any(r[0] == "agg" and r[1] == "protocol::resp::RespFrame::Array" for r in P.roots)
        from_cmd = 2 in P.params()
        R.inst(APPEND, "frame", {"is_array": arr, "built_from_command_parts": from_cmd})
        if not (arr and from_cmd):
            R.finding(APPEND, "frame:not-one-array-of-parts", "append_command does not serialise one Array frame of the command parts", b.loc(i))
    if len(ser) != 1:
        R.finding(APPEND, "frame:count", "append_command serialises %d frames per command (must be exactly one)" % len(ser), b.loc())
    # every fsync policy arm flushes
    import rules_rdb
    sw = rules_rdb.discr_switch_on(ctx, b, "storage::aof::FsyncPolicy")
    R.floor("policy_switches", len(sw))
    for (i, names, other, p) in sw:
        # a flush hoisted in front of the policy switch (after the serialisation) serves every arm
        hoisted = any(t_["k"] == "call" and re.search(r"::flush$", t_["f"] or "") and cfg.dominates(b, x_, i) and all(x_ in cfg.fwd(b, [s_]) for s_, _ in ser)
                      for x_, t_ in ((x_, b.term(x_)) for x_ in range(len(b.bbs))))
        for v, tgt in names.items():
            reg = cfg.edge_dom_set(b, i, tgt)
            fl = hoisted or any(b.term(x)["k"] == "call" and re.search(r"BufWriter<.*> as std::io::Write>::flush$|::flush$", b.term(x)["f"] or "") for x in reg)
            R.inst(APPEND, "policy:" + str(v), {"flushes": fl})
            if not fl:
                R.finding(APPEND, "policy:%s:no-flush" % v, "fsync policy %s does not flush the buffered writer: the file ends in a partial frame" % v, b.loc(tgt))
        if other is not None and len(names) < 3:
            reg = cfg.edge_dom_set(b, i, other)
            fl = hoisted or any(b.term(x)["k"] == "call" and re.search(r"::flush$", b.term(x)["f"] or "") for x in reg)
            R.inst(APPEND, "policy:default", {"flushes": fl})
            if not fl and b.term(other)["k"] != "unreachable":
                R.finding(APPEND, "policy:default:no-flush", "a fsync policy arm does not flush the buffered writer", b.loc(other))



def rule_flush_all_paths(ctx, R):
    """a command that took effect is in the file when append_command returns Ok: every path from
    the serialisation of the frame to a normal return passes a flush of the buffered writer (the
    Err exits -- `?` on a failed write/flush/sync -- are excepted).  A flush that happens only on
    some branch (e.g. only when the fsync interval has elapsed) leaves commands in process
    memory, and a buffer that spills on its own ends the file in the middle of a frame."""
    b = ctx.prog.need(APPEND)
    ser = [i for i, t in b.calls() if callee(t) == "protocol::serializer::serialize_resp_frame"]
    fl = {i for i, t in b.calls() if re.search(r"as std::io::Write>::flush$|BufWriter::<.*>::flush$", t["f"] or "")}
    R.floor("flush_sites", len(fl))
    # blocks that only lead to an Err return: regions of the Break edge of `?`
    err_reg = set()
    for i, t in b.calls():
        if re.search(r"std::ops::Try>::branch$", t["f"] or ""):
            rs = shared.result_switch(b, i) if False else None
    for x, bb in enumerate(b.bbs):
        t = bb["t"]
        if t["k"] == "call" and re.search(r"FromResidual<.*>>::from_residual$", t["f"] or "") and t["d"]["l"] == 0:
            err_reg |= cfg.bwd_dom_region(b, x) if hasattr(cfg, "bwd_dom_region") else {x}
    exits = set(b.exits())
    for k, i in enumerate(ser):
        # search a path ser -> exit avoiding flush blocks and avoiding from_residual blocks
        p_ = cfg.path_avoiding(b, [b.term(i)["t"]], exits, fl | err_reg)
        R.inst(APPEND, "flush-on-every-ok-path#%d" % k, {"serialised_at": b.loc(i), "ok_path_without_flush": p_ is not None})
        if p_ is not None:
            R.finding(APPEND, "flush:not-on-every-path",
                      "append_command can return Ok after serialising the command without flushing the buffered writer (a branch skips the flush): the command stays in process memory until some later write, and is lost -- or the file ends mid-frame -- if the server stops first",
                      b.loc(i), witness=["bb%d %s" % (x, b.loc(x)) for x in p_][:8])


def rule_once(ctx, R):
    """`represented once`: the append hook lives in process_normal_command.  A function that
    appends to the AOF itself must not also hand the command to process_normal_command (whose
    hook would log it a second time), and nothing else on the command path appends"""
    n = 0
    for fn, b in sorted(ctx.prog.bodies.items()):
        if "::tests::" in fn or fn.startswith("storage::aof::"):
            continue
        ap = [i for body, i, t in shared.deep_calls(ctx, b) if body is b and callee(t) == APPEND]
        if not ap:
            continue
        n += 1
        if fn == PNC:
            R.inst(fn, "append-site", {"function": fn, "is_the_hook": True}); continue
        redispatch = PNC in ctx.cg.reach([fn])
        R.inst(fn, "append-site", {"function": fn, "is_the_hook": False, "also_reaches_the_dispatcher_hook": redispatch})
        if redispatch:
            R.finding(fn, "append-outside-hook:and-redispatch",
                      "%s appends commands to the AOF itself (line %d) and also runs them through process_normal_command, whose hook appends them again: the commands appear twice in the log and a non-idempotent one (INCR, APPEND, RPUSH) replays to a different dataset" % (fn.split("::")[-1], b.bb_line(ap[0])), b.loc(ap[0]))
    R.floor("functions_appending_to_the_aof", n)


# ---- R-AOF-REOPEN ---------------------------------------------------------------------------------
LOG_PATH = "storage::aof::AofEngine.file_path"
WRITER = "storage::aof::AofEngine.writer"
_CREATES = re.compile(r"^std::fs::(copy|write|File::create|File::create_new|OpenOptions::open|hard_link)(::<.*>)?$")
_REPLACES = re.compile(r"^std::fs::(rename|remove_file|copy|write|File::create|hard_link)(::<.*>)?$")


def _writer_stores(b):
    """blocks that store a new value into the engine's writer slot (`*guard = Some(..)`)"""
    out = []
    for i, bb in enumerate(b.bbs):
        if bb["cleanup"]:
            continue
        for st in bb["s"]:
            if st["k"] == "=" and "*" in st["l"]["p"]:
                P = prov.origins(b, st["l"]["l"])
                if WRITER in P.fields:
                    out.append(i); break
    for i, t in b.calls():
        if re.search(r"Option::<.*>::(replace|insert|take)$|std::mem::(replace|swap)", t["f"] or "") and t["a"] and not op_is_const(t["a"][0]):
            if WRITER in prov.operand_origins(b, t["a"][0]).fields:
                out.append(i)
    return out


def rule_reopen(ctx, R):
    """the log the server appends to IS the file at the log path: a function that puts another
    file at that path (rename / copy / create onto AofEngine.file_path -- a rewrite) re-opens the
    writer before it returns successfully; otherwise every later command is appended to the
    unlinked old file and is missing from the log at the next start.  A rename whose source no
    call of the function creates cannot succeed and is not counted."""
    n = 0
    reopeners = {fn for fn, b in ctx.prog.bodies.items() if fn.startswith("storage::aof::") and "::tests::" not in fn and _writer_stores(b)}
    for fn, b in sorted(ctx.prog.bodies.items()):
        if not fn.startswith("storage::aof::") or "::tests::" in fn:
            continue
        sites = []
        for i, t in b.calls():
            f = t["f"] or ""
            if not _REPLACES.match(f) or not t["a"]:
                continue
            dst = t["a"][-1] if re.search(r"::(rename|copy|hard_link)", f) else t["a"][0]
            if op_is_const(dst):
                continue
            P = prov.operand_origins(b, dst)
            derived = P.has_call(r"with_extension|with_file_name|PathBuf::push|join")
            if LOG_PATH in P.fields and not derived:
                sites.append((i, t))
        for i, t in sites:
            f = t["f"] or ""
            creates = [j for j, tt in b.calls() if j != i and _CREATES.match(tt["f"] or "") and i in cfg.fwd(b, [j])]
            feasible = bool(creates) or not re.search(r"::rename", f)
            n += 1
            rs = shared.result_switch(b, i)
            succ = rs["ok"] if rs else ([t["t"]] if t["t"] >= 0 else [])
            re_blocks = set(_writer_stores(b)) | {j for j, tt in b.calls() if callee(tt) in reopeners and callee(tt) != fn}
            rets = [j for j, bb in enumerate(b.bbs) if bb["t"]["k"] == "return"]
            p = cfg.path_avoiding(b, succ, rets, re_blocks) if feasible else None
            R.inst(fn, "replace:%s" % shared.short_callee(f), {"function": fn, "at": b.loc(i), "source_created_here": bool(creates), "writer_reopened_on_every_path": p is None})
            if p is not None:
                R.finding(fn, "log-replaced:writer-not-reopened",
                          "%s puts another file at the log path (%s, line %d) and can return without re-opening the writer: the engine keeps appending to the replaced (unlinked) file, so every command logged after the rewrite is missing from the AOF at the next start"
                          % (fn.split("::")[-1], shared.short_callee(f), b.bb_line(i)), b.loc(i), ["bb%d line %d" % (x, b.bb_line(x)) for x in p][-8:])
    R.floor("log_path_replacement_sites", n)


# ---- R-AOF-APPENDED-RUNS --------------------------------------------------------------------------
def rule_appended_runs(ctx, R):
    """what is in the log took effect: once process_normal_command has appended the command, it
    is dispatched -- no refusal that does not come from the command's own execution lies between
    the append and the dispatch.  After the append hook, no bool test other than the comparisons of
    the command name (a pause / limit / mode gate) leads to an error reply built in
    process_normal_command itself without a handler having run; such gates belong in front of the
    append (the refused write would be applied at replay)."""
    b = ctx.prog.need(PNC)
    apps = [i for i, t in b.calls() if callee(t) == APPEND or APPEND in ctx.cg.reach([callee(t)]) and callee(t).startswith(SERVER)
            or (t.get("clos") and APPEND in ctx.cg.reach(list(t["clos"])))]
    if not apps:
        R.broken.append("no append hook found in process_normal_command"); return
    after = set()
    for a in apps:
        after |= cfg.fwd_strict(b, a) if hasattr(cfg, "fwd_strict") else cfg.fwd(b, [a])
    errs = {i for i, t in b.calls() if t["def"].endswith("RespFrame::error")}
    rets = [x for x, bb in enumerate(b.bbs) if bb["t"]["k"] == "return"]
    n = 0
    for i, t in b.calls():
        if i not in after or b.bbs[i]["cleanup"] or (b.locals[t["d"]["l"]] or "") != "bool":
            continue
        f = t["f"] or ""
        if re.search(r"PartialEq|::eq$|::ne$|eq_ignore_ascii_case|is_write_command|starts_with|ends_with|contains|is_empty|is_some|is_none|is_ok|is_err", f):
            continue
        n += 1
        sw = None
        x = t["t"]; alias = {t["d"]["l"]}; steps = 0
        while x is not None and x >= 0 and steps < 30:
            steps += 1
            for st in b.bbs[x]["s"]:
                if st["k"] == "=" and not st["l"]["p"] and st["r"]["k"] == "use" and not op_is_const(st["r"]["o"]) and op_place(st["r"]["o"])["l"] in alias and not op_place(st["r"]["o"])["p"]:
                    alias.add(st["l"]["l"])
            tt = b.bbs[x]["t"]
            if tt["k"] == "switch":
                if not op_is_const(tt["d"]) and op_place(tt["d"])["l"] in alias:
                    sw = (x, tt)
                break
            if tt["k"] in ("goto", "drop", "assert", "falseedge", "falseunwind"):
                x = tt.get("t")
            else:
                break
        bad = None
        if sw:
            # handler calls = calls into the server / storage layer (anything that can execute)
            handlers = {x for x, tt in b.calls() if x != i and callee(tt).startswith(("network::server::Server::handle_", "storage::", "network::server::Server::process_")) }
            for tgt in set([v for _, v in sw[1]["ts"]] + [sw[1]["o"]]):
                # a path from this edge to a return through an error construction with no handler call
                for e in errs:
                    p1 = cfg.path_avoiding(b, [tgt], [e], handlers)
                    if p1 is not None and len(p1) <= 16:
                        p2 = cfg.path_avoiding(b, [e], rets, handlers)
                        if p2 is not None:
                            bad = e
        R.inst(b.fn, "gate-after-append:%s" % shared.short_callee(f), {"at": b.loc(i), "refuses_without_running_a_handler": bad is not None})
        if bad is not None:
            R.finding(b.fn, "gate-after-append:%s" % shared.short_callee(f).split("::")[-1],
                      "process_normal_command tests %s (line %d) after the command was appended to the AOF and refuses with an error reply (line %d) without running it: every write refused by this gate is already in the log and is applied when the log is replayed" % (shared.short_callee(f), b.bb_line(i), b.bb_line(bad)), b.loc(i))
    R.inst(b.fn, "gates-after-append", {"bool_tests_after_the_append_other_than_name_comparisons": n})


# ---- R-AOF-OPENMODE -------------------------------------------------------------------------------
def rule_openmode(ctx, R):
    """the log grows at its end across restarts: every function of the AOF engine that opens the
    file at the log path itself (not a derived temporary) and stores it as the writer opens it
    in append mode.  `write(true)` alone starts at offset 0 of the existing log: the next session
    overwrites the head of the previous one and leaves its tail behind, mid-frame."""
    import rules_rdb
    n = 0
    for fn, b in sorted(ctx.prog.bodies.items()):
        if not fn.startswith("storage::aof::") or "::tests::" in fn or b.kind == "Closure":
            continue
        if not _writer_stores(b):
            continue
        for i, t in b.calls():
            f = t["f"] or ""
            if not re.search(r"OpenOptions::open(::<.*>)?$|File::create(_new)?(::<.*>)?$|File::options$", f) or not t["a"]:
                continue
            path = t["a"][-1]
            if op_is_const(path):
                continue
            P = prov.operand_origins(b, path)
            if LOG_PATH not in P.fields or P.has_call(r"with_extension|with_file_name|PathBuf::push|join"):
                continue
            m = rules_rdb.open_mode(ctx, b, i, t)
            n += 1
            if m is None:
                R.broken.append("%s: the open mode of the log at %s is not constant" % (fn, b.loc(i))); continue
            ok = bool(m.get("append")) and not m.get("truncate")
            R.inst(fn, "log-open-mode", {"function": fn, "at": b.loc(i), "mode": {k: v for k, v in sorted(m.items())}, "append_without_truncate": ok})
            if not ok:
                R.finding(fn, "log-open:not-append",
                          "%s opens the log at the log path with %s: an existing log is %s when the server starts on it again" % (fn.split("::")[-1], sorted(k for k, v in m.items() if v), "truncated" if m.get("truncate") else "overwritten from offset 0 (head replaced, old tail left behind mid-frame)"), b.loc(i))
    R.floor("log_opens", n)
