#!/usr/bin/env python3
"""debug helper: pretty-print the MIR facts of bodies whose path matches a regex"""
import sys, os, re
sys.path.insert(0, os.path.dirname(os.path.abspath(__file__)))
import extract
from facts import load_program, callee


def pl(p, b=None):
    s = "_%d" % p["l"]
    if b is not None and p["l"] in b.names:
        s += "(%s)" % b.names[p["l"]]
    for e in p["p"]:
        if e == "*":
            s = "(*%s)" % s
        elif isinstance(e, dict):
            if "f" in e:
                s += "." + e["f"].rsplit("::", 1)[-1]
            elif "v" in e:
                s += " as " + e["v"]
            elif "ix" in e:
                s += "[_%d]" % e["ix"]
            elif "cix" in e:
                s += "[%d]" % e["cix"]
            else:
                s += str(e)
        else:
            s += str(e)
    return s


def op(o, b=None):
    if "cp" in o:
        return pl(o["cp"], b)
    if "mv" in o:
        return "move " + pl(o["mv"], b)
    if "fn" in o:
        return "fn " + o["fn"]
    c = o.get("c", "?")
    if "v" in o and o["v"] not in c:
        c += "{=%s}" % o["v"]
    return c


def rv(r, b=None):
    k = r["k"]
    if k == "use":
        return op(r["o"], b)
    if k == "ref":
        return ("&mut " if r["m"] else "&") + pl(r["p"], b)
    if k == "rawptr":
        return "&raw " + pl(r["p"], b)
    if k == "cast":
        return "%s as %s (%s)" % (op(r["o"], b), r["ty"], r["ck"])
    if k == "bin":
        return "%s(%s, %s)" % (r["op"], op(r["a"], b), op(r["b"], b))
    if k == "un":
        return "%s(%s)" % (r["op"], op(r["o"], b))
    if k == "discr":
        return "discriminant(%s)" % pl(r["p"], b)
    if k == "agg":
        return "%s{%s}" % (r["a"], ", ".join(op(x, b) for x in r["o"]))
    if k == "repeat":
        return "[%s; %s]" % (op(r["o"], b), r["n"])
    return r.get("d", "?")


def dump(b, out=sys.stdout):
    out.write("fn %s  [%s:%d] nargs=%d vis=%s\n" % (b.fn, b.file, b.line, b.nargs, b.vis))
    for i, t in enumerate(b.locals):
        out.write("    let _%d%s: %s\n" % (i, "(%s)" % b.names[i] if i in b.names else "", t))
    for i, bb in enumerate(b.bbs):
        out.write("  bb%d%s:\n" % (i, " (cleanup)" if bb["cleanup"] else ""))
        for st in bb["s"]:
            if st["k"] == "=":
                out.write("      %s = %s   // L%s\n" % (pl(st["l"], b), rv(st["r"], b), st.get("line")))
            elif st["k"] == "setd":
                out.write("      discriminant(%s) = %d\n" % (pl(st["l"], b), st["v"]))
        t = bb["t"]; k = t["k"]
        if k == "call":
            out.write("      %s = %s(%s) -> bb%d unwind bb%d   // L%d%s\n" % (
                pl(t["d"], b), callee(t) if t["res"] else t["f"], ", ".join(op(a, b) for a in t["a"]),
                t["t"], t["u"], t["line"], " clos=%s" % t["clos"] if t["clos"] else ""))
        elif k == "switch":
            out.write("      switch(%s) %s otherwise bb%d\n" % (op(t["d"], b), ["%d:bb%d" % (v, x) for v, x in t["ts"]], t["o"]))
        elif k == "goto":
            out.write("      goto bb%d\n" % t["t"])
        elif k == "drop":
            out.write("      drop(%s) -> bb%d unwind bb%d\n" % (pl(t["p"], b), t["t"], t["u"]))
        elif k == "assert":
            out.write("      assert(%s == %s, %s %s) -> bb%d   // L%d\n" % (op(t["c"], b), t["e"], t["m"], [op(x, b) for x in t["mo"]], t["t"], t["line"]))
        else:
            out.write("      %s\n" % k)


if __name__ == "__main__":
    variant = os.environ.get("VARIANT", "dev")
    d = extract.ensure_facts(variant) if not os.environ.get("FACTS") else os.environ["FACTS"]
    tgt = os.environ.get("TARGET", "ferrous.bin.jsonl")
    prog = load_program(os.path.join(d, tgt))
    rx = re.compile(sys.argv[1])
    for fn, b in sorted(prog.bodies.items()):
        if rx.search(fn):
            if len(sys.argv) > 2 and sys.argv[2] == "-l":
                print(fn, b.file, b.line, len(b.bbs))
            else:
                dump(b)
