#!/usr/bin/env python3
import argparse, json, os, sys
sys.path.insert(0, os.path.dirname(os.path.abspath(__file__)))
import runner, props


def main():
    ap = argparse.ArgumentParser()
    ap.add_argument("property")
    ap.add_argument("--tier", default=os.environ.get("VERIF_TIER", "quick"), choices=["quick", "thorough"])
    ap.add_argument("--replay")
    ap.add_argument("--record-floors", action="store_true")
    a = ap.parse_args()
    seed = int(os.environ.get("VERIF_SEED", "0") or 0)
    pid = a.property
    if pid not in props.REGISTRY:
        print("CHECK-BROKEN property=%s no rules registered" % pid)
        return 2
    replay_key = None
    if a.replay:
        replay_key = json.load(open(a.replay))["key"]
    if a.tier == "thorough" and not a.replay and not a.record_floors:
        import thorough
        return thorough.run(pid, seed)
    rc, _ = runner.run_property(pid, a.tier, props.rules_for(pid), seed=seed, record_floors=a.record_floors,
                                replay_key=replay_key)
    if not a.replay:
        # the shared analyses (taint/bounds, boolpath, result continuations, dispatch tables) and the
        # rules whose expected count on ferrous is zero have positive/negative twins in
        # engine/fixtures; they are re-checked on every run: a mismatch means the check is broken
        try:
            import selftest
            n, fails = selftest.fixtures()
            for f in fails:
                print("CHECK-BROKEN property=%s %s" % (pid, f))
            if fails:
                return 2
            print("%s fixtures: %d twins of the shared analyses give the expected verdict" % (pid, n))
        except Exception as e:
            print("CHECK-BROKEN property=%s fixture self-test could not run: %s" % (pid, e))
            return 2
    return rc


if __name__ == "__main__":
    sys.exit(main())
