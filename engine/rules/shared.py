"""Shared analyses A3 (success continuation), A6 (effect tables), A7 (dispatch tables)."""
import re
from facts import callee, op_local, op_place, op_is_const, const_str, const_int, const_bytes, promoted_consts, AnchorMissing
import cfg

ENGINE = "storage::engine::StorageEngine::"
SERVER = "network::server::Server::"

STR_EQ = ("core::str::traits::<impl std::cmp::PartialEq for str>::eq",)
REF_EQ = ("std::cmp::impls::<impl std::cmp::PartialEq<&B> for &A>::eq",
          "std::cmp::impls::<impl std::cmp::PartialEq<&B> for &A>::ne")


# ---------------------------------------------------------------------------------------
# A7: string dispatch tables

def str_tests(b):
    """all string-equality tests against a literal in body b:
    list of dict(bb, name, true, false, subj) where true/false are the successor blocks
    taken when the subject equals / differs from the literal."""
    out = []
    for i, t in b.calls():
        c = callee(t)
        name = None; neg = False; subj = None
        if c in STR_EQ or t["def"] in STR_EQ:
            for k, a in enumerate(t["a"]):
                s = const_str(a)
                if s is not None:
                    name = s; subj = t["a"][1 - k] if len(t["a"]) == 2 else None
        elif t["def"] in REF_EQ or c in REF_EQ:
            neg = t["def"].endswith("::ne") or c.endswith("::ne")
            # &str == &"LIT": literal is in a promoted, reached through a ref local
            for k, a in enumerate(t["a"]):
                pc = _promoted_through_ref(b, i, a)
                if pc and len(pc) == 1 and const_str(pc[0]) is not None and pc[0].get("ty", "").endswith("str"):
                    name = const_str(pc[0]); subj = t["a"][1 - k] if len(t["a"]) == 2 else None
        elif ("PartialEq" in t["f"] and ("String" in t["f"] or "str" in t["f"]) and
              (t["def"].endswith("::eq") or t["def"].endswith("::ne"))):
            neg = t["def"].endswith("::ne")
            for k, a in enumerate(t["a"]):
                s = const_str(a)
                if s is None:
                    pc = _promoted_through_ref(b, i, a)
                    if pc and len(pc) == 1:
                        s = const_str(pc[0])
                if s is not None:
                    name = s; subj = t["a"][1 - k] if len(t["a"]) == 2 else None
        if name is None or t["t"] < 0:
            continue
        sw = _follow_to_switch(b, t["t"], t["d"]["l"])
        if sw is None:
            continue
        sbb, st = sw
        zero = None
        for v, tb in st["ts"]:
            if v == 0:
                zero = tb
        if zero is None:
            continue
        tru, fal = st["o"], zero
        if neg:
            tru, fal = fal, tru
        out.append({"bb": i, "name": name, "true": tru, "false": fal, "subj": subj, "sw": sbb, "line": t["line"]})
    return out


def _promoted_through_ref(b, bb, a):
    """operand a is a local assigned `&(*_p)` where `_p = promoted[k]` in the same block"""
    pc = promoted_consts(b, a)
    if pc is not None:
        return pc
    l = op_local(a)
    if l is None:
        return None
    seen = 0
    cur = l
    for st in reversed(b.stmts(bb)):
        if st["k"] != "=" or st["l"]["l"] != cur or st["l"]["p"]:
            continue
        r = st["r"]
        if r["k"] == "ref":
            cur = r["p"]["l"]; seen += 1
        elif r["k"] == "use":
            pc = promoted_consts(b, r["o"])
            if pc is not None:
                return pc
            nl = op_local(r["o"])
            if nl is None:
                return None
            cur = nl
        else:
            return None
    return None


def _follow_to_switch(b, bb, local, maxsteps=12):
    """from block bb follow gotos to the switch on `local` (a bool result), through plain copies
    (`_25 = _18`, also across blocks: inlined helpers return through a copy chain) and `!x`
    (targets swapped).  Returns (bb, switch-terminator-like) or None."""
    alias = {local: False}       # local -> negated?
    for _ in range(maxsteps):
        for st in b.stmts(bb):
            if st["k"] != "=" or st["l"]["p"]:
                continue
            r = st["r"]
            if r["k"] == "use" and op_local(r["o"]) in alias and not op_place(r["o"])["p"]:
                alias[st["l"]["l"]] = alias[op_local(r["o"])]
            elif r["k"] == "un" and r.get("op") == "Not" and op_local(r["o"]) in alias and not op_place(r["o"])["p"]:
                alias[st["l"]["l"]] = not alias[op_local(r["o"])]
        t = b.term(bb)
        if t["k"] == "switch":
            dl = op_local(t["d"])
            if dl in alias and not (op_place(t["d"]) or {}).get("p"):
                if not alias[dl]:
                    return bb, t
                ts = dict(t["ts"])
                if 0 in ts:
                    return bb, {"k": "switch", "d": t["d"], "ts": [[0, t["o"]]], "o": ts[0]}
            return None
        if t["k"] == "goto":
            bb = t["t"]; continue
        return None
    return None


def str_table(b):
    """NAME -> list of arm entry blocks (true targets) for every literal compared in b"""
    tab = {}
    for t in str_tests(b):
        tab.setdefault(t["name"], []).append(t["true"])
    return tab


def arm_region(b, tests, name):
    """blocks executed only when the dispatched string equals `name`: for each test of
    `name`, the blocks dominated by its true target -- provided that target is entered only
    from string tests (an empty arm jumps straight to the join block, which is not an arm)."""
    test_sw = {t["sw"] for t in tests}
    preds = b.preds()
    region = set()
    for t in tests:
        if t["name"] != name:
            continue
        tgt = t["true"]
        if any(p not in test_sw for p in preds[tgt]):
            # join block or shared with non-test predecessors: follow trivial gotos? no: empty arm
            continue
        region |= cfg.dom_set(b, tgt)
        region |= _flag_arm(b, tgt)
        region |= _or_arm(b, tgt, tests)
    return region


def _or_arm(b, tgt, tests):
    """`if s == "A" || s == "B" { body }`: each test's true target is a trivial block that jumps to
    the shared body; the body belongs to both names when all its entries come from string tests"""
    preds = b.preds()
    trues = {t["true"] for t in tests}
    x = tgt
    for _ in range(3):
        t = b.term(x)
        if t["k"] != "goto":
            return set()
        x = t["t"]
        if len(preds[x]) > 1:
            break
    else:
        return set()
    # every entry of the landing block is (a trivial chain from) a string test's true target
    for p in preds[x]:
        y = p
        for _ in range(3):
            if y in trues:
                break
            if b.term(y)["k"] != "goto" or len(preds[y]) != 1:
                return set()
            y = preds[y][0]
        if y not in trues:
            return set()
    return cfg.dom_set(b, x)


def _flag_arm(b, tgt):
    """`matches!(s, "A" | "B")` / `s == "A" || s == "B"` used as a condition: the true target only
    stores `true` into a bool temporary and jumps to the switch on it; the arm is what that
    switch's non-zero edge dominates"""
    flag = None
    for st in b.stmts(tgt):
        if st["k"] == "=" and not st["l"]["p"] and b.locals[st["l"]["l"]] == "bool" and st["r"]["k"] == "use" and op_is_const(st["r"]["o"]) and st["r"]["o"]["c"].replace("const ", "") == "true":
            flag = st["l"]["l"]
    if flag is None:
        return set()
    x = tgt
    for _ in range(3):
        t = b.term(x)
        if t["k"] == "goto":
            x = t["t"]; continue
        break
    t = b.term(x)
    if t["k"] == "switch" and op_local(t["d"]) is not None:
        d = op_local(t["d"])
        if d == flag or any(st["k"] == "=" and st["l"]["l"] == d and st["r"]["k"] == "use" and op_local(st["r"]["o"]) == flag for st in b.stmts(x)):
            return cfg.edge_dom_set(b, x, t["o"])
    return set()


# ---------------------------------------------------------------------------------------
# A3: success continuation of a call returning Result / Option

TRY_BRANCH = "::branch"


def result_switch(b, call_bb, maxsteps=24):
    """Find the switch that decides on the result of the call ending call_bb.
    Returns dict(sw=bb, ok=[blocks], fail=[blocks], kind) or None.
    Handles: `?` (Try::branch -> discriminant switch), `match`/`if let` (discriminant switch),
    is_ok/is_err/is_some/is_none (bool switch)."""
    t = b.term(call_bb)
    if t["k"] != "call" or t["t"] < 0:
        return None
    alias = {t["d"]["l"]}
    refalias = set()
    cur = t["t"]
    is_branch = False
    boolres = None   # (local, truth_means_ok)
    for _ in range(maxsteps):
        bb = b.bbs[cur]
        discr = set()
        for st in bb["s"]:
            if st["k"] != "=":
                continue
            r = st["r"]
            if r["k"] == "use":
                rl = op_local(r["o"]); pp = op_place(r["o"])
                if rl in alias and pp is not None and not pp["p"] and not st["l"]["p"]:
                    alias.add(st["l"]["l"])
            elif r["k"] == "ref":
                if r["p"]["l"] in alias and not r["p"]["p"] and not st["l"]["p"]:
                    refalias.add(st["l"]["l"])
            elif r["k"] == "discr":
                p = r["p"]
                if (p["l"] in alias and not p["p"]) or (p["l"] in refalias and p["p"] == ["*"]):
                    discr.add(st["l"]["l"])
        tt = bb["t"]
        if tt["k"] == "switch":
            dl = op_local(tt["d"])
            ts = dict(tt["ts"])
            if dl in discr:
                if is_branch:
                    ok = [ts[0]] if 0 in ts else []
                    fail = [ts[1]] if 1 in ts else [tt["o"]]
                else:
                    # Result: 0=Ok 1=Err ; Option: 0=None 1=Some
                    ty = b.locals[t["d"]["l"]]
                    if ty.startswith("std::option::Option<"):
                        ok = [ts[1]] if 1 in ts else [tt["o"]]
                        fail = [ts[0]] if 0 in ts else [tt["o"]]
                    else:
                        ok = [ts[0]] if 0 in ts else [tt["o"]]
                        fail = [ts[1]] if 1 in ts else [tt["o"]]
                return {"sw": cur, "ok": ok, "fail": fail, "kind": "discr"}
            if boolres is not None and dl == boolres[0]:
                z = ts.get(0)
                if z is None:
                    return None
                if boolres[1]:
                    return {"sw": cur, "ok": [tt["o"]], "fail": [z], "kind": "bool"}
                return {"sw": cur, "ok": [z], "fail": [tt["o"]], "kind": "bool"}
            return None
        if tt["k"] == "call":
            args = [op_local(a) for a in tt["a"]]
            d = tt["def"]
            if any(a in alias for a in args) and d.endswith("Try::branch"):
                alias = {tt["d"]["l"]}; refalias = set(); is_branch = True
                if tt["t"] < 0:
                    return None
                cur = tt["t"]; continue
            # shape-preserving adaptors keep Some/None (Ok/Err): go on with their result
            if args and (args[0] in alias or args[0] in refalias) and re.search(
                    r"^std::option::Option::<.*>::(cloned|copied|as_ref|as_mut|as_deref|as_deref_mut|take|ok_or|ok_or_else)(::<.*>)?$|^std::result::Result::<.*>::(as_ref|as_mut|map_err|copied|cloned)(::<.*>)?$|^<std::(option::Option|result::Result)<.*> as std::clone::Clone>::clone$",
                    tt["f"] or "") and not is_branch:
                alias = {tt["d"]["l"]}; refalias = set()
                if tt["t"] < 0:
                    return None
                cur = tt["t"]; continue
            if any((a in alias or a in refalias) for a in args):
                m = re.search(r"::(is_ok|is_err|is_some|is_none)$", d)
                if m:
                    boolres = (tt["d"]["l"], m.group(1) in ("is_ok", "is_some"))
                    if tt["t"] < 0:
                        return None
                    cur = tt["t"]; continue
            return None
        if tt["k"] == "goto":
            cur = tt["t"]; continue
        if tt["k"] in ("drop", "assert"):
            cur = tt["t"]; continue
        return None
    return None


# ---------------------------------------------------------------------------------------
# A6: effect tables

SHARD_MAP = r"std::collections::HashMap::<std::vec::Vec<u8>, storage::value::StoredValue>::"
ENTRY_SV = r"std::collections::hash_map::(Entry|VacantEntry|OccupiedEntry)::<'_, std::vec::Vec<u8>, storage::value::StoredValue>::"
SHARD_MAP_MUT = re.compile(SHARD_MAP + r"(insert|remove|clear|retain|drain|remove_entry)\b|" + ENTRY_SV + r"(or_insert|or_insert_with|or_insert_with_key|or_default|insert|insert_entry|remove|remove_entry|and_modify)\b")
SHARD_MAP_GETMUT = re.compile(SHARD_MAP + r"get_mut\b")
SHARD_MAP_LOOKUP = re.compile(SHARD_MAP + r"(get|get_mut|contains_key|entry|remove|iter|iter_mut|keys|values|values_mut|get_key_value|remove_entry|len|is_empty)\b")
# payload containers
PAYLOAD_MUT = re.compile(
    r"^(std::collections::VecDeque::<std::vec::Vec<u8>>::(push_back|push_front|pop_back|pop_front|insert|remove|retain|drain|clear|truncate|extend|append|swap|make_contiguous|resize)"
    r"|<std::collections::VecDeque<std::vec::Vec<u8>> as std::ops::IndexMut<usize>>::index_mut"
    r"|<std::collections::VecDeque<std::vec::Vec<u8>> as std::iter::Extend<.*>>::extend"
    r"|std::collections::HashSet::<std::vec::Vec<u8>>::(insert|remove|retain|clear|drain|take|extend)"
    r"|std::collections::HashMap::<std::vec::Vec<u8>, std::vec::Vec<u8>>::(insert|remove|retain|clear|drain|get_mut)"
    r"|std::collections::hash_map::(Entry|VacantEntry|OccupiedEntry)::<'_, std::vec::Vec<u8>, std::vec::Vec<u8>>::(or_insert|or_insert_with|or_insert_with_key|or_default|insert|insert_entry|remove|remove_entry|and_modify)"
    r"|storage::skiplist::SkipList::<std::vec::Vec<u8>, f64>::(insert|remove|clear|remove_range_by_rank|remove_range_by_score|pop_min|pop_max)"
    r"|storage::stream::Stream::(add_auto|add_with_id|add|trim_by_count|trim_by_minid|delete|clear|set_last_id)"
    r"|storage::value::ValueMetadata::(set_expiration|clear_expiration|touch)"
    r")")
LIST_GROW = re.compile(r"std::collections::VecDeque::<std::vec::Vec<u8>>::(push_back|push_front|insert|extend|append)")
SHRINK = re.compile(
    r"^(std::collections::VecDeque::<std::vec::Vec<u8>>::(pop_back|pop_front|remove|retain|drain|clear|truncate)"
    r"|std::collections::HashSet::<std::vec::Vec<u8>>::(remove|retain|clear|drain|take)"
    r"|std::collections::HashMap::<std::vec::Vec<u8>, std::vec::Vec<u8>>::(remove|retain|clear|drain)"
    r"|storage::skiplist::SkipList::<std::vec::Vec<u8>, f64>::(remove|clear|remove_range_by_rank|remove_range_by_score|pop_min|pop_max)"
    r")")


def engine_bodies(prog):
    return {fn: b for fn, b in prog.bodies.items()
            if fn.startswith(ENGINE) and b.kind != "Closure" and "::tests::" not in fn}


def engine_api(prog):
    """pub methods of StorageEngine whose first parameter after self is the database index"""
    out = {}
    for fn, b in engine_bodies(prog).items():
        if b.vis != "pub" or b.nargs < 2:
            continue
        if not b.locals[1].endswith("storage::engine::StorageEngine"):
            continue
        if b.locals[2] != "usize":
            continue
        out[fn] = b
    return out


def expired_region(b):
    """blocks that execute only when an is_expired() call returned true -- directly (switch on the
    call's result) or through a bool local that can only hold that result or `false`
    (e.g. `let expired = match get(k) { Some(v) => v.is_expired(), None => false }`)"""
    key = id(b)
    if key in _EXP_CACHE:
        return _EXP_CACHE[key]
    B = set()
    for i, t in b.calls():
        if callee(t).endswith("::is_expired") and t["t"] >= 0 and not t["d"]["p"]:
            B.add(t["d"]["l"])
    # bool locals assigned only from members of B or const false
    import prov as _prov
    defs = _prov.build_defs(b)
    changed = True
    while changed:
        changed = False
        for l, ds in defs.items():
            if l in B or b.locals[l] != "bool":
                continue
            ok = bool(ds)
            src_in_B = False
            for kind, bbi, x in ds:
                if kind != "stmt" or x["l"]["p"]:
                    ok = False; break
                r = x["r"]
                if r["k"] == "use" and "c" in r["o"] and r["o"]["c"] == "false":
                    continue
                if r["k"] == "use" and op_local(r["o"]) in B and not op_place(r["o"])["p"]:
                    src_in_B = True; continue
                ok = False; break
            if ok and src_in_B:
                B.add(l); changed = True
    reg = set()
    for i, bb in enumerate(b.bbs):
        t = bb["t"]
        if t["k"] != "switch":
            continue
        l = op_local(t["d"])
        pl = op_place(t["d"])
        if l is None or pl["p"]:
            continue
        neg = False
        if l not in B:
            # `!x` computed in this block
            hit = None
            for st in bb["s"]:
                if st["k"] == "=" and st["l"]["l"] == l and st["r"]["k"] == "un" and st["r"]["op"] == "Not" and op_local(st["r"]["o"]) in B:
                    hit = True
            if not hit:
                continue
            neg = True
        zero = dict(t["ts"]).get(0)
        if zero is None:
            continue
        tru = zero if neg else t["o"]
        reg |= cfg.edge_dom_set(b, i, tru)
    _EXP_CACHE[key] = reg
    return reg


_EXP_CACHE = {}


def is_purge_block(b, bb):
    """is block bb control-dependent on `is_expired() == true` (the lazy purge branch)?"""
    return bb in expired_region(b)


BYTES_MUT = re.compile(
    r"^(std::vec::Vec::<u8>::(extend_from_slice|resize|push|truncate|clear|insert|remove|append|drain|splice|retain|extend|swap_remove|pop|set_len|resize_with|dedup)"
    r"|<std::vec::Vec<u8> as std::ops::IndexMut<.*>>::index_mut"
    r"|<std::vec::Vec<u8> as std::ops::DerefMut>::deref_mut"
    r"|<std::vec::Vec<u8> as std::iter::Extend<.*>>::extend"
    r")")
_SHARD_RX = re.compile(SHARD_MAP)


_DATASET_PT = None


def _dataset_pt():
    import prov
    return re.compile(prov.PASS_THROUGH.pattern[:-1] +
                      r"|^std::collections::hash_map::OccupiedEntry::<.*>::(get|get_mut|into_mut)$"
                      r"|^std::collections::hash_map::Entry::<.*>::(or_insert|or_insert_with|or_default)(::<.*>)?$"
                      r"|^std::collections::(VecDeque|BTreeMap|HashMap)::<.*>::(get_mut|get|front_mut|back_mut|front|back|iter_mut|values_mut|range_mut|first_entry|last_entry)(::<.*>)?$"
                      r"|^(core|std)::slice::<impl \[.*\]>::(get_mut|first_mut|last_mut|iter_mut|split_at_mut)(::<.*>)?$"
                      r"|^std::option::Option::<.*>::(map|as_deref_mut|filter)(::<.*>)?$)")


def from_dataset(b, op, _depth=0):
    """does the operand derive from a value stored in the shard map (get/get_mut/entry/...)?"""
    import prov
    if "c" in op:
        return False
    global _DATASET_PT
    if _DATASET_PT is None:
        _DATASET_PT = _dataset_pt()
    P = prov.operand_origins(b, op, pass_through=_DATASET_PT)
    if P.has_call(_SHARD_RX):
        return True
    # a reference handed back by an adaptor whose closure captured a stored value
    # (`index.and_then(|p| list.get_mut(p))`): the result points into what the closure captured
    if _depth < 3:
        for r in P.roots:
            if r[0] != "call":
                continue
            t = b.term(r[2])
            if t["k"] != "call" or not t.get("clos") or "&" not in (b.locals[t["d"]["l"]] or ""):
                continue
            for a in t["a"]:
                if op_is_const(a):
                    continue
                for kind, bbi, x in prov.build_defs(b).get(op_place(a)["l"], ()):
                    if kind == "stmt" and x["r"]["k"] == "agg" and str(x["r"]["a"]).startswith("closure:"):
                        if any(from_dataset(b, o, _depth + 1) for o in x["r"]["o"] if not op_is_const(o)):
                            return True
    return False


def dataset_lookup_blocks(b, op, _depth=0):
    """blocks of the shard-map calls (get / get_mut / entry ...) the operand's stored value was
    looked up with -- followed through in-place accessors and through adaptors whose closure
    captured the stored value"""
    import prov
    global _DATASET_PT
    if "c" in op:
        return set()
    if _DATASET_PT is None:
        _DATASET_PT = _dataset_pt()
    P = prov.operand_origins(b, op, stop_calls=_SHARD_RX, pass_through=_DATASET_PT)
    out = {r[2] for r in P.roots if r[0] == "call" and _SHARD_RX.search(r[1])}
    if _depth < 3:
        for r in P.roots:
            if r[0] != "call" or _SHARD_RX.search(r[1]):
                continue
            t = b.term(r[2])
            if t["k"] != "call" or not t.get("clos"):
                continue
            for a in t["a"]:
                if op_is_const(a):
                    continue
                for kind, bbi, x in prov.build_defs(b).get(op_place(a)["l"], ()):
                    if kind == "stmt" and x["r"]["k"] == "agg" and str(x["r"]["a"]).startswith("closure:"):
                        for o in x["r"]["o"]:
                            if not op_is_const(o):
                                out |= dataset_lookup_blocks(b, o, _depth + 1)
    return out


def short_callee(f):
    """readable short name of a full callee path: Type::method without generic arguments"""
    x = f
    for _ in range(6):
        y = re.sub(r"<[^<>]*>", "", x)
        if y == x:
            break
        x = y
    x = x.replace("::::", "::")
    parts = [p for p in x.split("::") if p]
    return "::".join(parts[-2:]) if len(parts) >= 2 else x


def data_mut_sites(b, include_getmut=False):
    """call sites in b that mutate the dataset: [(bb, kind, callee_full)].
    Shard-map mutations always count; payload-container mutations only when the receiver
    derives from a value stored in the shard map (A4), so local temporaries do not."""
    cached = getattr(b, "_dm", None) if False else None
    out = []
    for i, t in b.calls():
        if b.bbs[i]["cleanup"]:
            continue
        f = t["f"]
        if SHARD_MAP_MUT.search(f):
            out.append((i, "map", f))
        elif PAYLOAD_MUT.search(f) or BYTES_MUT.search(f):
            if t["a"] and from_dataset(b, t["a"][0]):
                out.append((i, "payload", f))
        elif include_getmut and SHARD_MAP_GETMUT.search(f):
            out.append((i, "getmut", f))
    return out


def direct_mutators(ctx, include_purge=False):
    """engine bodies (incl. private helpers) with a DATA-MUT site outside the lazy-purge branch,
    or an assignment through a reference derived from a stored value. include_purge=True also
    counts the removal of an expired key (needed where expiry itself is the event: WATCH)."""
    def compute():
        out = {}
        bodies = dict(engine_bodies(ctx.prog))
        # closures written inside engine functions (iterator adaptors driving a per-shard /
        # per-element step) mutate on behalf of the function that contains them
        for fn, b in ctx.prog.bodies.items():
            if b.kind == "Closure" and fn.startswith(ENGINE) and "::tests::" not in fn:
                bodies[fn] = b
        for fn, b in bodies.items():
            sites = [(i, k, f) for (i, k, f) in data_mut_sites(b) if include_purge or not is_purge_block(b, i)]
            stores = [(i, st) for (i, st) in payload_stores(b) if include_purge or not is_purge_block(b, i)]
            if sites or stores:
                out[fn] = (sites, stores)
        return out
    return ctx.memo(("direct_mutators", include_purge), compute)


def payload_stores(b):
    """assignments through a deref of a reference that derives from a stored value
    (e.g. `*list = new_list`, `stored.value = ...`, `*bytes = ...`)"""
    out = []
    for i, bb in enumerate(b.bbs):
        if bb["cleanup"]:
            continue      # unwind twin of a store (the drop of the old value panicked)
        for st in bb["s"]:
            if st["k"] != "=":
                continue
            p = st["l"]
            if "*" not in p["p"]:
                continue
            ty = b.locals[p["l"]]
            if not ty.startswith("&mut "):
                continue
            if from_dataset(b, {"cp": {"l": p["l"], "p": []}}):
                out.append((i, st))
    return out


def mutators(ctx):
    """ENGINE-API methods that reach a direct mutator (spawn edges cut)"""
    def compute():
        dm = set(direct_mutators(ctx))
        out = {}
        for fn in engine_api(ctx.prog):
            r = ctx.cg.reach([fn]) & dm
            # `get` reaches only its own purge
            if r:
                out[fn] = sorted(r)
        return out
    return ctx.memo("mutators", compute)


def handler_like(prog):
    """bodies returning Result<RespFrame, FerrousError>"""
    return {fn: b for fn, b in prog.bodies.items()
            if b.locals and b.locals[0].startswith("std::result::Result<protocol::resp::RespFrame") and "::tests::" not in fn}


def command_path(ctx):
    def compute():
        roots = [SERVER + "process_connection", SERVER + "process_wakeups", SERVER + "process_blocked_timeouts"]
        for r in roots:
            ctx.prog.need(r)
        return ctx.cg.reach(roots)
    return ctx.memo("command_path", compute)


def closure_desc(ctx, cl):
    """stable description of a closure by what it does (not by its ordinal): the first crate-local
    function it calls, else the first field it writes"""
    b = ctx.prog.bodies.get(cl)
    if b is None:
        return "closure"
    # the alphabetically first crate-local callee: independent of block numbering and of the order
    # of match arms (inlined helpers are appended at the end of the body)
    known = getattr(ctx.prog, "recorded_names", None)
    names = set()
    for i, t in b.calls():
        c = callee(t)
        if (c in ctx.prog.bodies or (known and c in known)) and not c.startswith(("std::", "core::", "alloc::", "<")):
            names.add(c.split("::")[-1])
    if names:
        return "closure->" + sorted(names)[0]
    for bb in b.bbs:
        for st in bb["s"]:
            if st["k"] == "=":
                fs = [e["f"] for e in st["l"]["p"] if isinstance(e, dict) and "f" in e and "::" in e["f"]]
                if fs:
                    return "closure-writes-" + fs[-1].rsplit(".", 1)[-1]
    return "closure"


def site_name(ctx, t):
    """stable short name of a call site: callee, or with_connection:<closure description>"""
    cal = callee(t)
    short = cal.split("::")[-1]
    if t["clos"] and short in ("with_connection",):
        return "with_connection:" + closure_desc(ctx, t["clos"][0])
    return short


def resolve_const_str(b, o):
    """string literal an operand holds, following single-definition temporaries"""
    v = const_str(o)
    if v is not None:
        return v
    import prov
    l = op_local(o)
    for _ in range(4):
        if l is None:
            return None
        ds = prov.build_defs(b).get(l, ())
        if len(ds) != 1 or ds[0][0] != "stmt":
            return None
        r = ds[0][2]["r"]
        if r["k"] in ("use", "cast"):
            v = const_str(r["o"])
            if v is not None:
                return v
            l = op_local(r["o"])
        elif r["k"] == "ref":
            l = r["p"]["l"]
        else:
            return None
    return None


def resolve_const_bytes(b, o):
    """byte-string literal an operand holds (b"..."), following single-definition temporaries,
    refs, unsizing casts and promoted constants"""
    import prov
    v = const_bytes(o)
    if v is not None:
        return v
    pc = promoted_consts(b, o)
    if pc:
        for c in pc:
            if const_bytes(c) is not None:
                return const_bytes(c)
    l = op_local(o)
    for _ in range(6):
        if l is None:
            return None
        ds = prov.build_defs(b).get(l, ())
        if len(ds) != 1 or ds[0][0] != "stmt":
            return None
        r = ds[0][2]["r"]
        if r["k"] in ("use", "cast"):
            v = const_bytes(r["o"])
            if v is not None:
                return v
            pc = promoted_consts(b, r["o"])
            if pc:
                for c in pc:
                    if const_bytes(c) is not None:
                        return const_bytes(c)
            l = op_local(r["o"])
        elif r["k"] == "ref":
            l = r["p"]["l"]
        else:
            return None
    return None



def closure_tree(ctx, b):
    """b and, recursively, the closures handed to calls made in it (iterator adaptors, retain,
    with_connection ...): what `b` executes besides its own blocks"""
    out = [b]; seen = {b.fn}
    k = 0
    while k < len(out):
        names = []
        for _, t in out[k].calls():
            names += list(t.get("clos") or [])
            # a function of the crate passed by path where a closure is expected
            # (`with_connection(id, Connection::end_blocking_with_timeout)`)
            names += [a["fn"] for a in t.get("a") or [] if isinstance(a, dict) and a.get("fn")]
        # closures built here and handed on in a way the call facts do not show (through a
        # helper that was inlined, stored in a local first)
        for bb in out[k].bbs:
            for st in bb["s"]:
                if st["k"] == "=" and st["r"]["k"] == "agg" and str(st["r"]["a"]).startswith("closure:"):
                    names.append(st["r"]["a"][8:])
        for c in names:
            cb = ctx.prog.bodies.get(c)
            if cb is not None and c not in seen:
                seen.add(c); out.append(cb)
        k += 1
    return out


def deep_calls(ctx, b):
    """(body, bb, terminator) for every call in b and in its closure tree"""
    for body in closure_tree(ctx, b):
        for i, t in body.calls():
            yield body, i, t


def capture_operand(ctx, cb, upvar_root):
    """(enclosing body, operand) the enclosing function stored into the capture a closure reads
    through `upvar_root` (a ("upvar", json-projection) provenance root), or None"""
    import json
    enc = ctx.prog.bodies.get(cb.encl) if cb.encl else None
    if enc is None:
        return None
    try:
        pr = json.loads(upvar_root[1])
    except Exception:
        return None
    ui = None
    for e in pr:
        if isinstance(e, dict) and "f" in e:
            try:
                ui = int(e["f"])
            except ValueError:
                ui = None
            break
    if ui is None:
        return None
    for bb in enc.bbs:
        for st in bb["s"]:
            if st["k"] == "=" and st["r"]["k"] == "agg" and st["r"]["a"] == "closure:" + cb.fn and ui < len(st["r"]["o"]):
                return enc, st["r"]["o"][ui]
    return None


def exec_sites(ctx, he, targets):
    """where `he` executes one of `targets`: [(body, block in body, block in he)] -- a direct call,
    or a call inside a closure that an iterator chain in `he` drives; for those the block in `he`
    is the call that consumes the chain (collect / for_each / ...), i.e. when the closure runs"""
    out = []
    for i, t in he.calls():
        if callee(t) in targets:
            out.append((he, i, i))
    seen = set()
    for i, t in he.calls():
        for c in t.get("clos") or []:
            if c in seen:
                continue
            cb = ctx.prog.bodies.get(c)
            if cb is None:
                continue
            inner = [(body, j) for body in closure_tree(ctx, cb) for j, tj in body.calls() if callee(tj) in targets]
            if not inner:
                continue
            seen.add(c)
            users = [x for x, tx in he.calls() if c in (tx.get("clos") or [])]
            consumer = users[0]
            for x in users:
                if all(cfg.dominates(he, y, x) for y in users):
                    consumer = x
            for body, j in inner:
                out.append((body, j, consumer))
    return out
