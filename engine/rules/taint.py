"""A5: type-restricted interprocedural taint of client / wire / file integers, and the sinks of
R-PANIC / R-ALLOC.  Reports only sinks whose tainted operand has NO dominating comparison,
min/clamp/checked/saturating/wrapping operation (certain defects; guarded-but-undecided sites are
counted separately as 'guarded')."""
import re, collections
from facts import callee, op_local, op_place, op_is_const, const_int
import cfg, shared, prov

NUM = r"(?:[ui](?:8|16|32|64|128|size)|f64|f32|[A-Z])"      # [A-Z]: a generic number type inside a helper (`parse::<T>()`)
CARRIER = re.compile(
    r"^&?(?:mut )?(?:%(N)s|std::option::Option<&?%(N)s>|std::result::Result<%(N)s, .*>|std::ops::ControlFlow<.*, %(N)s>"
    r"|\(%(N)s, bool\)|\(%(N)s, %(N)s\)|\(%(N)s, %(N)s, %(N)s\)|std::ops::Range(?:Inclusive|From|To|ToInclusive)?<%(N)s>"
    r"|std::time::Duration|std::option::Option<std::time::Duration>|std::time::Instant|std::option::Option<std::time::Instant>"
    r"|std::time::SystemTime|storage::stream::StreamId|std::option::Option<storage::stream::StreamId>"
    r"|std::result::Result<std::option::Option<%(N)s>, .*>|std::option::Option<\(%(N)s, %(N)s\)>"
    r"|std::sync::atomic::Atomic<%(N)s>"
    r"|\(std::option::Option<%(N)s>, std::option::Option<%(N)s>\)|\(&?std::option::Option<%(N)s>, &?std::option::Option<%(N)s>\)"
    r")$" % {"N": NUM})

PARSE = re.compile(r"^core::str::<impl str>::parse::<(%s)>$" % NUM)
# hand-written number parsers (not str::parse): the stream-ID parser
CUSTOM_PARSE = re.compile(r"^storage::stream::StreamId::(parse_u64_fast|from_string)$")
ATOMIC_STORE = re.compile(r"^std::sync::atomic::Atomic::<%s>::(store|swap|fetch_max|fetch_min|fetch_add|fetch_sub)$" % NUM)
FILE_SRC = re.compile(r"^storage::rdb::RdbReader::<R>::(read_length|read_u32_be|read_u32_le|read_u64_le|read_byte)$")
UNTAINT = re.compile(r"::(len|capacity|count|database_count|size_of|elapsed|as_millis|as_secs|now)(::<.*>)?$")
BOUNDING = re.compile(r"(^std::cmp::(min|max)::<|as std::cmp::Ord>::(min|max|clamp)$|::(clamp|rem_euclid)$)")
SAFE_ARITH = re.compile(r"::(checked_(add|sub|mul|div|neg|rem|pow|shl|shr)|saturating_(add|sub|mul|pow)|wrapping_(add|sub|mul|neg)|overflowing_(add|sub|mul)|checked_duration_since|saturating_duration_since|checked_next_power_of_two|abs_diff|unsigned_abs)(::<.*>)?$")

# panicking / allocating std APIs: (regex on full callee, index of the dangerous argument(s), kind)
SINK_CALLS = [
    (re.compile(r"as std::ops::Index(Mut)?<(usize|std::ops::Range.*)>>::index(_mut)?$"), [1], "index"),
    (re.compile(r"^core::slice::index::<impl std::ops::Index(Mut)?<.*> for \[.*\]>::index(_mut)?$"), [1], "index"),
    (re.compile(r"^core::str::traits::<impl std::ops::Index<.*> for str>::index$|^<str as std::ops::Index<.*>>::index$"), [1], "index"),
    (re.compile(r"^std::collections::VecDeque::<.*>::(remove|insert|drain|split_off|swap|truncate|range|range_mut)(::<.*>)?$"), [1, 2], "index"),
    (re.compile(r"^std::vec::Vec::<.*>::(remove|insert|drain|split_off|swap_remove|splice)(::<.*>)?$"), [1, 2], "index"),
    (re.compile(r"^core::slice::<impl \[.*\]>::(split_at|split_at_mut|copy_within|chunks|chunks_exact|windows|rotate_left|rotate_right)$"), [1], "index"),
    (re.compile(r"^std::vec::Vec::<.*>::(with_capacity|reserve|reserve_exact|resize|resize_with)$"), [0, 1], "alloc"),
    (re.compile(r"^std::vec::from_elem::<.*>$"), [1], "alloc"),
    (re.compile(r"^std::string::String::(with_capacity|reserve)$|^std::collections::(VecDeque|HashMap|HashSet)::<.*>::(with_capacity|reserve)$"), [0, 1], "alloc"),
    (re.compile(r"::repeat$"), [1], "alloc"),
    (re.compile(r"^std::time::Duration::(from_secs_f64|from_secs_f32)$"), [0], "duration-from-float"),
    (re.compile(r"^<std::time::(Instant|SystemTime) as std::ops::(Add|Sub)<std::time::Duration>>::(add|sub)$"), [0, 1], "time-arith"),
    (re.compile(r"^<std::time::Duration as std::ops::(Mul|Add|Sub)<.*>>::(mul|add|sub)$"), [0, 1], "time-arith"),
    (re.compile(r"^std::thread::sleep$"), [0], "sleep"),
]


LOOP_RANGE = re.compile(r"^<std::ops::Range(Inclusive)?<[iu](8|16|32|64|128|size)> as std::iter::IntoIterator>::into_iter$")


def _loop_has_break(b, into_iter_bb, t):
    """the counted loop can also end early on its own (`break` when the data runs out): an edge out
    of the loop body that joins the continuation the exhausted iterator goes to"""
    it = t["d"]["l"]
    holders = {it}
    for bb in b.bbs:
        for st in bb["s"]:
            if st["k"] == "=" and st["r"]["k"] in ("use", "ref") and not st["l"]["p"]:
                pl = op_place(st["r"]["o"]) if st["r"]["k"] == "use" and not op_is_const(st["r"]["o"]) else (st["r"]["p"] if st["r"]["k"] == "ref" else None)
                if pl and pl["l"] in holders:
                    holders.add(st["l"]["l"])
    nxt = [x for x, tt in b.calls() if re.search(r"Iterator>::next$", tt["f"] or "") and tt["a"] and op_local(tt["a"][0]) in holders]
    if not nxt:
        return False
    lps = [(h, body) for h, body in cfg.loops(b).items() if nxt[0] in body]
    if not lps:
        return False
    head, body = min(lps, key=lambda hb: len(hb[1]))
    # where the exhausted iterator leaves: successors outside the body of the switch after next()
    sw = b.term(nxt[0])["t"]
    exits = []
    for x in body:
        for y in b.succs(x):
            if y not in body:
                exits.append((x, y))
    normal = {y for x, y in exits if x == sw}
    if not normal:
        return False
    def settles(y):
        for _ in range(4):
            if y in normal:
                return True
            tt = b.term(y)
            if tt["k"] != "goto":
                return False
            y = tt["t"]
        return y in normal
    cont = set()
    for y in normal:
        z = y
        for _ in range(4):
            cont.add(z)
            tt = b.term(z)
            if tt["k"] != "goto":
                break
            z = tt["t"]
    return any(x != sw and (y in cont or settles(y) or (b.term(y)["k"] == "goto" and b.term(y)["t"] in cont)) for x, y in exits)


def _sign_losing(r):
    return bool(re.match(r"^i(8|16|32|64|128|size)$", r.get("from", "")) and re.match(r"^u(8|16|32|64|128|size)$", r["ty"]))


def is_carrier(ty):
    return bool(CARRIER.match(ty))


class Taint:
    def __init__(s, ctx, scope_fns, sources):
        """scope_fns: set of function names analysed; sources: set of {"client","wire","file"}"""
        s.ctx = ctx; s.prog = ctx.prog
        s.scope = scope_fns; s.kinds = sources
        s.tainted = collections.defaultdict(dict)   # fn -> {local: origin description}
        s.fields = {}                                # "Adt.field" -> origin
        s.param_taint = collections.defaultdict(dict)
        s.run()

    def src_of_call(s, fn, t):
        f = t["f"] or ""
        m = PARSE.match(f)
        if m:
            if fn.startswith("protocol::parser::"):
                return "wire" if "wire" in s.kinds else None
            if fn.startswith("storage::rdb::"):
                return "file" if "file" in s.kinds else None
            if fn.startswith(("config::", "replication::client", "bin::")):
                return None
            return "client" if "client" in s.kinds else None
        if FILE_SRC.match(f) and "file" in s.kinds:
            return "file"
        if CUSTOM_PARSE.match(callee(t)) and not fn.startswith("storage::stream::StreamId::"):
            if fn.startswith("storage::rdb::"):
                return "file" if "file" in s.kinds else None
            return "client" if "client" in s.kinds else None
        return None

    def run(s):
        work = collections.deque(sorted(f for f in s.scope if f in s.prog.bodies))
        inq = set(work)
        rounds = 0
        while work and rounds < 20000:
            rounds += 1
            fn = work.popleft(); inq.discard(fn)
            changed_callees, ret_changed, fld_changed = s.analyse(fn)
            for c in changed_callees:
                if c in s.prog.bodies and c not in inq:
                    work.append(c); inq.add(c)
            if ret_changed:
                for caller in s.ctx.cg.callers.get(fn, ()):
                    if caller in s.scope and caller not in inq:
                        work.append(caller); inq.add(caller)
            if fld_changed:
                for f in s.scope:
                    if f not in inq and f in s.prog.bodies:
                        work.append(f); inq.add(f)

    def analyse(s, fn):
        b = s.prog.bodies[fn]
        T = s.tainted[fn]
        before_ret = 0 in T
        for p, o in s.param_taint[fn].items():
            if p not in T and is_carrier(b.locals[p]):
                T[p] = o
        changed_callees = set(); fld_changed = False
        changed = True
        it = 0
        while changed and it < 50:
            changed = False; it += 1
            for i, bb in enumerate(b.bbs):
                if bb["cleanup"]:
                    continue
                for st in bb["s"]:
                    if st["k"] != "=":
                        continue
                    dl = st["l"]["l"]
                    r = st["r"]
                    src = None
                    ops = []
                    if r["k"] in ("use", "cast", "un", "repeat"):
                        ops = [r["o"]]
                    elif r["k"] == "bin":
                        ops = [r["a"], r["b"]]
                        if r["op"] in ("Lt", "Le", "Gt", "Ge", "Eq", "Ne"):
                            ops = []
                    elif r["k"] == "agg":
                        ops = r["o"]
                        # field-based: store of tainted operand into a named field of a local ADT
                        if "fs" in r and not r["a"].startswith(("std::", "core::")):
                            adt = r["a"].rsplit("::", 1)[0]
                            for k, o in enumerate(r["o"]):
                                origin = s.op_t(T, o)
                                if origin and k < len(r["fs"]):
                                    key = "%s.%s" % (adt, r["fs"][k])
                                    if key not in s.fields:
                                        s.fields[key] = origin; fld_changed = True
                    elif r["k"] == "ref":
                        ops = [{"cp": r["p"]}]
                    for o in ops:
                        src = src or s.op_t(T, o)
                    # read of a tainted field / RespFrame::Integer payload
                    if r["k"] in ("use", "ref", "cast"):
                        pl = op_place(r["o"]) if r["k"] != "ref" else r["p"]
                        if pl is not None:
                            for e in pl["p"]:
                                if isinstance(e, dict) and "f" in e:
                                    if e["f"] in s.fields:
                                        src = src or s.fields[e["f"]]
                                    if e["f"] == "protocol::resp::RespFrame.0" and any(isinstance(x, dict) and x.get("v") == "Integer" for x in pl["p"]) and "client" in s.kinds \
                                            and not fn.startswith(("protocol::", "replication::client")):
                                        src = src or "client:RespFrame::Integer"
                    # assignment into a field of a local ADT place
                    fs = [e["f"] for e in st["l"]["p"] if isinstance(e, dict) and "f" in e]
                    if src and fs and "::" in fs[-1] and not fs[-1].startswith(("std::", "core::")):
                        if fs[-1] not in s.fields:
                            s.fields[fs[-1]] = src; fld_changed = True
                    if src and dl not in T and is_carrier(b.locals[dl]):
                        T[dl] = src; changed = True
                t = bb["t"]
                if t["k"] != "call":
                    continue
                f = t["f"] or ""
                dl = t["d"]["l"]
                c = callee(t)
                origin = s.src_of_call(fn, t)
                argt = [s.op_t(T, a) for a in t["a"]]
                if ATOMIC_STORE.match(f) and len(argt) > 1 and argt[1] and not op_is_const(t["a"][0]):
                    # a tainted number stored into an atomic: the atomic (its field / the local
                    # reference) now holds client data
                    al = op_place(t["a"][0])["l"]
                    if al not in T and is_carrier(b.locals[al]):
                        T[al] = argt[1]; changed = True
                    for fld in prov.operand_origins(b, t["a"][0]).fields:
                        if "::" in fld and not fld.startswith(("std::", "core::")) and fld not in s.fields:
                            s.fields[fld] = argt[1]; fld_changed = True
                if origin is None and any(argt):
                    if c in s.prog.bodies and c in s.scope:
                        # local callee: taint its parameters; result tainted iff its _0 is tainted
                        for k, o in enumerate(argt):
                            if o and (k + 1) not in s.param_taint[c] and not s.guarded_at(b, i, t["a"][k], ("hi", "lo")):
                                if k + 1 <= s.prog.bodies[c].nargs and is_carrier(s.prog.bodies[c].locals[k + 1]):
                                    s.param_taint[c][k + 1] = o
                                    changed_callees.add(c)
                        if 0 in s.tainted.get(c, {}):
                            origin = s.tainted[c][0]
                    elif c in s.prog.bodies:
                        pass
                    else:
                        if UNTAINT.search(f):
                            origin = None
                        else:
                            origin = next(o for o in argt if o)
                elif origin is None and c in s.prog.bodies and c in s.scope and 0 in s.tainted.get(c, {}):
                    # callee returns a tainted value of its own (e.g. a parser helper)
                    origin = s.tainted[c][0]
                if origin and dl not in T and is_carrier(b.locals[dl]):
                    T[dl] = origin; changed = True
        ret_changed = (0 in T) and not before_ret
        return changed_callees, ret_changed, fld_changed

    def op_t(s, T, o):
        if op_is_const(o):
            return None
        pl = op_place(o)
        if pl is None:
            return None
        return T.get(pl["l"])

    # ---- guards --------------------------------------------------------------------
    def roots(s, b, o):
        return set(s.roots_parity(b, o))

    def roots_parity(s, b, o):
        """locals the operand's value is computed from through copies/casts/refs/unwraps and
        arithmetic (so that a guard on `offset` also guards `offset + n`), each with the parity of
        negations crossed on the way (0 = same sense, 1 = negated, 2 = both/unknown)"""
        if op_is_const(o):
            return {}
        seen = {}; st = [(op_place(o)["l"], 0)]
        defs = prov.build_defs(b)
        while st:
            l, par = st.pop()
            if l in seen:
                if seen[l] != par and seen[l] != 2:
                    seen[l] = 2
                else:
                    continue
            else:
                seen[l] = par
            for kind, bbi, x in defs.get(l, ()):
                if kind == "stmt":
                    r = x["r"]
                    if r["k"] in ("use", "cast"):
                        if not op_is_const(r["o"]):
                            st.append((op_place(r["o"])["l"], par))
                    elif r["k"] == "un":
                        if not op_is_const(r["o"]):
                            st.append((op_place(r["o"])["l"], par ^ 1 if r["op"] == "Neg" and par != 2 else par))
                    elif r["k"] == "bin":
                        for side, oo in (("a", r.get("a")), ("b", r.get("b"))):
                            if oo is not None and not op_is_const(oo):
                                p2 = par
                                if r["op"] in ("Sub", "SubWithOverflow") and side == "b" and par != 2:
                                    p2 = par ^ 1
                                st.append((op_place(oo)["l"], p2))
                    elif r["k"] == "ref":
                        st.append((r["p"]["l"], par))
                    elif r["k"] == "agg" and (r["a"] in ("tuple", "std::option::Option::Some", "std::result::Result::Ok") or r["a"].startswith("std::ops::Range")):
                        for oo in r["o"]:
                            if not op_is_const(oo):
                                st.append((op_place(oo)["l"], par))
                elif kind == "call":
                    f = x["f"] or ""
                    if prov.PASS_THROUGH.search(f) or SAFE_ARITH.search(f) or re.search(r"::(unwrap_or|unwrap_or_default|unwrap_or_else|abs|pow|max|min|as_secs|as_millis|from_secs|from_millis|from_secs_f64)(::<.*>)?$", f):
                        for a in x["a"]:
                            if not op_is_const(a):
                                st.append((op_place(a)["l"], par))
        return seen

    def sanitised(s, b, o):
        """value passed through min/clamp/%/checked/saturating/wrapping on its way here"""
        if op_is_const(o):
            return True
        seen = set(); st = [op_place(o)["l"]]
        defs = prov.build_defs(b)
        while st:
            l = st.pop()
            if l in seen:
                continue
            seen.add(l)
            for kind, bbi, x in defs.get(l, ()):
                if kind == "call":
                    f = x["f"] or ""
                    if BOUNDING.search(f) or SAFE_ARITH.search(f):
                        return True
                    if prov.PASS_THROUGH.search(f):
                        for a in x["a"][:1]:
                            if not op_is_const(a):
                                st.append(op_place(a)["l"])
                elif kind == "stmt":
                    r = x["r"]
                    if r["k"] in ("use", "cast") and not op_is_const(r["o"]):
                        st.append(op_place(r["o"])["l"])
                    if r["k"] == "bin" and r["op"] in ("Rem", "BitAnd", "Shr"):
                        return True
        return False

    # ---- value bounds: a small abstract interpretation over {hi, lo, nonneg, neg, nonzero, rel} ---
    def copy_roots(s, b, o):
        """locals holding the same value (copies, refs, unwraps, `?`, widening casts): no arithmetic"""
        if op_is_const(o):
            return set()
        seen = set(); st = [op_place(o)["l"]]
        defs = prov.build_defs(b)
        while st:
            l = st.pop()
            if l in seen:
                continue
            seen.add(l)
            for kind, bbi, x in defs.get(l, ()):
                if kind == "stmt":
                    r = x["r"]
                    if r["k"] == "use" and not op_is_const(r["o"]):
                        st.append(op_place(r["o"])["l"])
                    elif r["k"] == "cast" and not op_is_const(r["o"]) and not _sign_losing(r):
                        st.append(op_place(r["o"])["l"])
                    elif r["k"] == "ref":
                        st.append(r["p"]["l"])
                    elif r["k"] == "agg" and r["a"] in ("std::option::Option::Some", "std::result::Result::Ok") and r["o"] and not op_is_const(r["o"][0]):
                        st.append(op_place(r["o"][0])["l"])
                elif kind == "call":
                    f = x["f"] or ""
                    if (prov.PASS_THROUGH.search(f) and not re.search(r"HashMap|Mutex|RwLock", f)) and x["a"] and not op_is_const(x["a"][0]):
                        st.append(op_place(x["a"][0])["l"])
        return seen

    def cast_siblings(s, b, o):
        """locals holding the same sign-losing cast (`e as usize`) of the same source value: a
        comparison made on one such cast bounds the others"""
        if op_is_const(o):
            return set()
        defs = prov.build_defs(b)
        out = set()
        mine = []
        for l in s.copy_roots(b, o):
            for kind, bbi, x in defs.get(l, ()):
                if kind == "stmt" and x["r"]["k"] == "cast" and _sign_losing(x["r"]) and not op_is_const(x["r"]["o"]):
                    mine.append((x["r"]["from"], x["r"]["ty"], s.copy_roots(b, x["r"]["o"])))
        if not mine:
            return out
        for l, ds in defs.items():
            for kind, bbi, x in ds:
                if kind == "stmt" and not x["l"]["p"] and x["r"]["k"] == "cast" and _sign_losing(x["r"]) and not op_is_const(x["r"]["o"]):
                    for (fr, ty, src) in mine:
                        if x["r"]["from"] == fr and x["r"]["ty"] == ty and (s.copy_roots(b, x["r"]["o"]) & src):
                            out.add(l)
        return out

    def comparison_of(s, b, bb_switch, dl):
        """the comparison statement that defines the switch operand: in the switch block, or --
        for a flag variable (`let in_range = i < n; if in_range {..}`) -- the single definition of
        the bool local the operand copies"""
        gb = b.bbs[bb_switch]
        for st in gb["s"]:
            if st["k"] == "=" and st["l"]["l"] == dl and st["r"]["k"] == "bin" and st["r"]["op"] in ("Lt", "Le", "Gt", "Ge", "Eq", "Ne"):
                return st
        defs = prov.build_defs(b)
        cur = dl
        for _ in range(4):
            ds = defs.get(cur, ())
            if len(ds) != 1 or ds[0][0] != "stmt":
                return None
            r = ds[0][2]["r"]
            if r["k"] == "bin" and r["op"] in ("Lt", "Le", "Gt", "Ge", "Eq", "Ne"):
                return ds[0][2]
            if r["k"] == "use" and not op_is_const(r["o"]) and not op_place(r["o"])["p"]:
                cur = op_place(r["o"])["l"]; continue
            return None
        return None

    def sum_locals(s, b, R):
        """locals holding an unsigned sum (+, checked_add, saturating_add) one of whose addends is in R"""
        out = set()
        # forward copies of the value
        R = set(R)
        changed = True
        while changed:
            changed = False
            for bb in b.bbs:
                for st in bb["s"]:
                    if st["k"] == "=" and not st["l"]["p"] and st["r"]["k"] == "use" and not op_is_const(st["r"]["o"]) and \
                       op_place(st["r"]["o"])["l"] in R and not op_place(st["r"]["o"])["p"] and st["l"]["l"] not in R:
                        R.add(st["l"]["l"]); changed = True
        for i, bb in enumerate(b.bbs):
            for st in bb["s"]:
                if st["k"] == "=" and st["r"]["k"] == "bin" and st["r"]["op"] in ("Add", "AddWithOverflow") and not st["l"]["p"]:
                    if (op_local(st["r"]["a"]) in R) or (op_local(st["r"]["b"]) in R):
                        out.add(st["l"]["l"])
            t = bb["t"]
            if t["k"] == "call" and re.search(r"::(checked_add|saturating_add)$", t["f"] or "") and re.search(r"impl u(8|16|32|64|128|size)>", t["f"] or ""):
                if any(op_local(a) in R for a in t["a"]):
                    out.add(t["d"]["l"])
        return out

    def cmp_bounds(s, b, bb, R):
        """bounds on the value held in locals R established by the comparisons that control bb"""
        out = set()
        if not R:
            return out
        for g, gb in enumerate(b.bbs):
            t = gb["t"]
            if t["k"] != "switch":
                continue
            dl = op_local(t["d"])
            cmp_ = None; cmp_const = None
            neg = False
            for st in gb["s"]:
                if st["k"] == "=" and st["l"]["l"] == dl and st["r"]["k"] == "un" and st["r"]["op"] == "Not":
                    dl = op_local(st["r"]["o"]); neg = True
            st = s.comparison_of(b, g, dl)
            if st is not None:
                    ra = s.copy_roots(b, st["r"]["a"]) & R; rb = s.copy_roots(b, st["r"]["b"]) & R
                    cmp_ = (st["r"]["op"], bool(ra), bool(rb))
                    other = st["r"]["b"] if ra else st["r"]["a"]
                    cmp_const = const_int(other)
                    if not (ra and rb) and (ra or rb) and s.op_t(s.tainted.get(b.fn, {}), other):
                        # compared with another client value: relational knowledge only
                        cmp_ = (st["r"]["op"], True, True)
            if cmp_ is None:
                for p_ in b.preds()[g]:
                    pt = b.term(p_)
                    if pt["k"] == "call" and pt["d"]["l"] == dl:
                        m = re.search(r"::(lt|le|gt|ge|eq|ne|is_nan|is_finite|is_infinite|is_negative|is_sign_negative|contains)$", pt["f"] or "")
                        if m:
                            ours = [bool(s.copy_roots(b, a) & R) for a in pt["a"]]
                            nm = m.group(1)
                            if nm in ("lt", "le", "gt", "ge", "eq", "ne") and len(ours) == 2:
                                cmp_ = (nm.capitalize(), ours[0], ours[1])
                            elif any(ours):
                                cmp_ = (nm, True, False)
            if cmp_ is None or not (cmp_[1] or cmp_[2]):
                # switchInt directly on the value: `match x { 0 => .., _ => .. }`
                if dl in R and b.locals[dl] not in ("bool",):
                    for v, tgt in t["ts"]:
                        if bb in cfg.edge_dom_set(b, g, tgt):
                            out |= {"hi", "lo"} | ({"nonneg"} if v >= 0 else {"neg"}) | ({"nonzero"} if v != 0 else set())
                    if 0 in dict(t["ts"]) and bb in cfg.edge_dom_set(b, g, t["o"]) and len(t["ts"]) == 1:
                        out.add("nonzero")
                continue
            zero = dict(t["ts"]).get(0)
            tru, fal = t["o"], zero
            if neg:
                tru, fal = fal, tru
            for tgt, truth in ((tru, True), (fal, False)):
                if tgt is None or bb not in cfg.edge_dom_set(b, g, tgt):
                    continue
                op, oa, ob = cmp_
                if oa and ob:
                    out.add("rel"); continue
                if op == "is_finite":
                    if truth:
                        out |= {"hi", "lo"}
                    continue
                if op in ("is_nan", "is_infinite"):
                    continue
                if op in ("is_negative", "is_sign_negative"):
                    out |= ({"hi", "neg"} if truth else {"lo", "nonneg"})
                    continue
                if op == "contains":
                    if truth:
                        out |= {"hi", "lo"}
                    continue
                if ob and not oa:
                    op = {"Lt": "Gt", "Le": "Ge", "Gt": "Lt", "Ge": "Le", "Eq": "Eq", "Ne": "Ne"}[op]
                eop = op if truth else {"Lt": "Ge", "Le": "Gt", "Gt": "Le", "Ge": "Lt", "Eq": "Ne", "Ne": "Eq"}[op]
                out |= {"Lt": {"hi"}, "Le": {"hi"}, "Gt": {"lo"}, "Ge": {"lo"}, "Eq": {"hi", "lo"}, "Ne": set()}[eop]
                if cmp_const is not None:
                    if (eop == "Lt" and cmp_const <= 0) or (eop == "Le" and cmp_const < 0):
                        out.add("neg")
                    if (eop == "Ge" and cmp_const >= 0) or (eop == "Gt" and cmp_const >= -1) or (eop == "Eq" and cmp_const >= 0):
                        out.add("nonneg")
                    if (eop == "Gt" and cmp_const >= 0) or (eop == "Ge" and cmp_const >= 1) or (eop == "Ne" and cmp_const == 0) or (eop == "Eq" and cmp_const != 0) or (eop == "Lt" and cmp_const <= 0):
                        out.add("nonzero")
        return out

    def bounds_at(s, b, bb, o, depth=0, _memo=None):
        """bounds of the operand's value when control is at block bb"""
        if op_is_const(o):
            v = const_int(o)
            out = {"hi", "lo"}
            if v is not None:
                out |= ({"nonneg"} if v >= 0 else {"neg"}) | ({"nonzero"} if v != 0 else set())
            return out
        if _memo is None:
            _memo = {}
        pl = op_place(o)
        l = pl["l"]
        key = (l, bb)
        if key in _memo:
            return _memo[key]
        _memo[key] = set()          # cycle (loop-carried value): nothing known
        out = set()
        # `(_x as Some).0` where _x was built as Some(v) / None (a helper returning Option<index>,
        # inlined or matched right away): the bounds v had where it was wrapped
        if pl["p"] and any(isinstance(e, dict) and e.get("v") in ("Some", "Ok") for e in pl["p"]) and depth < 10:
            per = []
            stack = [l]; seen_l = set(); okshape = True
            while stack and okshape:
                cur = stack.pop()
                if cur in seen_l:
                    continue
                seen_l.add(cur)
                for kind, db, x in prov.build_defs(b).get(cur, ()):
                    if kind != "stmt" or x["l"]["p"]:
                        okshape = False; break
                    r = x["r"]
                    if r["k"] == "agg" and r["a"] in ("std::option::Option::Some", "std::result::Result::Ok") and r["o"]:
                        per.append(s.bounds_at(b, db, r["o"][0], depth + 1, _memo))
                    elif r["k"] == "agg" and r["a"] in ("std::option::Option::None",):
                        continue
                    elif r["k"] == "use" and not op_is_const(r["o"]) and not op_place(r["o"])["p"]:
                        stack.append(op_place(r["o"])["l"])
                    else:
                        okshape = False; break
            if okshape and per:
                out = set.intersection(*per)
                out |= s.cmp_bounds(b, bb, s.copy_roots(b, o))
                _memo[key] = out
                return out
        ty = b.locals[l].lstrip("&")
        if re.match(r"^(mut )?u(8|16|32|64|128|size)$", ty):
            out |= {"lo", "nonneg"}
        tl = s.tainted.get(b.fn, {})
        if l not in tl and not pl["p"]:
            # not derived from input at all: trusted quantity (a length, a constant, a counter)
            if is_carrier(b.locals[l]) :
                out |= {"hi", "lo"}
                if s._nonneg_origin(b, l):
                    out.add("nonneg")
                _memo[key] = out
                return out
        R = s.copy_roots(b, o) | s.cast_siblings(b, o)
        out |= s.cmp_bounds(b, bb, R)
        if any(isinstance(e, dict) and e.get("f") in s.fields for e in pl["p"]):
            # read of a struct field that carries input: only comparisons on the read value count
            _memo[key] = out
            return out
        if re.match(r"^(mut )?u(8|16|32|64|128|size)$", ty) and "hi" not in out:
            # x <= x + y for unsigned values: an upper bound on a (checked) sum bounds its addends
            S = s.sum_locals(b, R)
            if S and "hi" in s.cmp_bounds(b, bb, S):
                out.add("hi")
            elif S and s._sum_filtered(b, bb, S):
                out.add("hi")
        if depth < 10:
            defs = prov.build_defs(b).get(l, ())
            per = []
            for kind, db, x in defs:
                per.append(s._def_bounds(b, db, kind, x, depth, _memo))
            if per:
                common = set.intersection(*per)
                out |= common
        _memo[key] = out
        return out

    def _sum_filtered(s, b, bb, S):
        """the checked sum in S went through `.filter(|&n| n <= LIMIT)` and control is where the
        filtered Option was found to be Some (`?` after ok_or, a match / if let)"""
        for i, t in b.calls():
            if re.search(r"^std::option::Option::<u(8|16|32|64|128|size)>::filter::<", t["f"] or "") and t["a"] and not op_is_const(t["a"][0]) and t.get("clos"):
                if not (s.copy_roots(b, t["a"][0]) & S) and op_local(t["a"][0]) not in S:
                    continue
                cb = s.prog.bodies.get(t["clos"][-1])
                if cb is None or "hi" not in _filter_closure_bounds(cb):
                    continue
                rs = shared.result_switch(b, i)
                if rs and any(bb == o or bb in cfg.edge_dom_set(b, rs["sw"], o) for o in rs["ok"]):
                    return True
        return False

    def _nonneg_origin(s, b, l):
        P = prov.origins(b, l, deep=True)
        return P.has_call(r"::(len|count|capacity)$") or all(r[0] == "const" for r in P.roots)

    def _def_bounds(s, b, db, kind, x, depth, memo):
        B = lambda o: s.bounds_at(b, db, o, depth + 1, memo)
        if kind == "stmt":
            if x["l"]["p"]:
                return set()
            r = x["r"]
            if r["k"] == "use":
                return set(B(r["o"]))
            if r["k"] == "cast":
                src = set(B(r["o"]))
                if _sign_losing(r):
                    # signed -> unsigned: a negative value becomes huge
                    if "nonneg" in src:
                        return src
                    return (src - {"hi"}) | {"lo", "nonneg"}
                if re.match(r"^u(8|16|32)$", r.get("from", "")) and re.match(r"^(u64|usize|i64|u128|i128|isize)$", r["ty"]):
                    return src | {"hi", "lo", "nonneg"}
                if re.match(r"^f(32|64)$", r.get("from", "")):
                    return {"hi", "lo"} | ({"nonneg"} if r["ty"].startswith("u") else set())   # float->int casts saturate
                return src
            if r["k"] == "ref":
                return set(B({"cp": r["p"]}))
            if r["k"] == "un" and r["op"] == "Neg":
                src = B(r["o"])
                flip = {"hi": "lo", "lo": "hi", "neg": "pos", "nonneg": "nonpos", "pos": "neg", "nonpos": "nonneg"}
                return {flip.get(k, k) for k in src if k != "rel"}
            if r["k"] == "bin":
                a, c = r["a"], r["b"]
                A, C = B(a), B(c)
                op = r["op"].replace("WithOverflow", "")
                if op == "Add":
                    out = set()
                    if "hi" in A and "hi" in C:
                        out.add("hi")
                    if "lo" in A and "lo" in C:
                        out.add("lo")
                    if "nonneg" in A and "nonneg" in C:
                        out |= {"nonneg", "lo"}
                    # trusted non-negative quantity + negative input: below the trusted quantity
                    if ("neg" in C and "hi" in A) or ("neg" in A and "hi" in C):
                        out.add("hi")
                    return out
                if op == "Sub":
                    out = set()
                    if "hi" in A and "lo" in C:
                        out.add("hi")
                    if "lo" in A and "hi" in C:
                        out.add("lo")
                    if "hi" in A and "nonneg" in C:
                        out.add("hi")
                    return out
                if op == "Mul":
                    return ({"hi", "lo"} if {"hi", "lo"} <= A and {"hi", "lo"} <= C else set()) | ({"nonneg"} if "nonneg" in A and "nonneg" in C else set())
                if op in ("Rem", "BitAnd"):
                    if {"hi", "lo"} <= C or {"hi", "lo"} <= A and op == "BitAnd":
                        return {"hi", "lo"} | ({"nonneg"} if "nonneg" in A or op == "BitAnd" else set())
                    return set()
                if op in ("Div", "Shr"):
                    return set(A)
                return set()
            if r["k"] == "agg":
                if r["a"] in ("tuple", "std::option::Option::Some", "std::result::Result::Ok") or r["a"].startswith("std::ops::Range"):
                    per = [B(o) for o in r["o"] if not op_is_const(o) and is_carrier(b.locals[op_place(o)["l"]])]
                    return set.intersection(*per) if per else {"hi", "lo"}
                return set()
            return set()
        # call
        f = x["f"] or ""
        args = x["a"]
        if s.src_of_call(b.fn, x) is not None:
            return set()      # a source: nothing known about the number it yields
        if re.search(r"^std::cmp::min::<|as std::cmp::Ord>::min$", f) and len(args) == 2:
            A, C = B(args[0]), B(args[1])
            out = set()
            if "hi" in A or "hi" in C:
                out.add("hi")
            if "lo" in A and "lo" in C:
                out.add("lo")
            if "nonneg" in A and "nonneg" in C:
                out.add("nonneg")
            return out
        if re.search(r"^std::cmp::max::<|as std::cmp::Ord>::max$", f) and len(args) == 2:
            A, C = B(args[0]), B(args[1])
            out = set()
            if "lo" in A or "lo" in C:
                out.add("lo")
            if "hi" in A and "hi" in C:
                out.add("hi")
            if "nonneg" in A or "nonneg" in C:
                out |= {"nonneg", "lo"}
            return out
        if re.search(r"::clamp$", f):
            return {"hi", "lo"}
        # `checked_sum.filter(|&n| n <= LIMIT)`: what comes out as Some is below the limit
        if re.search(r"^std::option::Option::<[ui](8|16|32|64|128|size)>::filter::<", f) and args and x.get("clos"):
            A = set(B(args[0]))
            cb = s.prog.bodies.get(x["clos"][-1])
            got = _filter_closure_bounds(cb) if cb is not None else set()
            return A | got
        if re.search(r"::(unsigned_abs|abs)$", f) and args:
            A = B(args[0])
            return ({"hi"} if {"hi", "lo"} <= A else set()) | {"lo", "nonneg"}
        m = re.search(r"::(saturating|wrapping|checked)_(add|sub|mul)$", f)
        if m and len(args) == 2:
            fake = {"k": "=", "l": {"l": -1, "p": []}, "r": {"k": "bin", "op": m.group(2).capitalize(), "a": args[0], "b": args[1]}}
            return s._def_bounds(b, db, "stmt", fake, depth, memo)
        # `u64::from(x_u32)` / `usize::from(x_u16)`: a widening conversion, like the cast
        if re.search(r"^<(u64|usize|i64|u128|i128|isize) as std::convert::From<u(8|16|32)>>::from$", f):
            return {"hi", "lo", "nonneg"}
        if UNTAINT.search(f):
            return {"hi", "lo", "nonneg"}
        if (prov.PASS_THROUGH.search(f) and not re.search(r"HashMap|Mutex|RwLock", f)) or re.search(r"::(unwrap_or|unwrap_or_default|try_from|from|into|ok_or|ok_or_else)(::<.*>)?$", f):
            if args and not op_is_const(args[0]) and is_carrier(b.locals[op_place(args[0])["l"]]):
                return set(B(args[0]))
            return set()
        if re.search(r"::(as_secs|as_millis|as_micros|from_secs|from_millis)$", f) and args:
            return set(B(args[0]))
        c = callee(x)
        if c in s.prog.bodies and c in s.scope and 0 not in s.tainted.get(c, {}):
            return {"hi", "lo"}
        return set()

    def guarded_at(s, b, bb, o, need=("hi", "lo")):
        bd = s.bounds_at(b, bb, o)
        if "rel" in bd and "hi" in need and len(need) == 1:
            return True
        return all(n in bd for n in need)

NEED = {
    "Overflow:Add": ("hi",), "Overflow:Mul": ("hi",), "Overflow:Sub": ("rel-or-lo",), "OverflowNeg": ("lo",),
    "DivisionByZero": ("nonzero",), "RemainderByZero": ("nonzero",), "BoundsCheck": ("hi",),
    "index": ("hi",), "alloc": ("hi",), "duration-from-float": ("hi", "lo"), "time-arith": ("hi",), "sleep": ("hi",),
}


def _filter_closure_bounds(cb):
    """bounds a predicate closure `|&n| n <= CONST` (`<`, `>=`, `>` likewise) puts on what passes:
    the closure is a single comparison of its argument with a constant, returned as it is"""
    cmps = []
    for bb in cb.bbs:
        if bb.get("cleanup"):
            continue
        if bb["t"]["k"] not in ("return", "goto"):
            return set()
        for st in bb["s"]:
            if st["k"] == "=" and st["r"]["k"] == "bin" and st["r"]["op"] in ("Le", "Lt", "Ge", "Gt"):
                cmps.append(st)
    if len(cmps) != 1:
        return set()
    st = cmps[0]; r = st["r"]
    if st["l"]["p"] or st["l"]["l"] != 0:
        # must be the returned value itself (possibly through one copy)
        dst = st["l"]["l"]
        if not any(s2["k"] == "=" and s2["l"]["l"] == 0 and not s2["l"]["p"] and s2["r"]["k"] == "use" and not op_is_const(s2["r"]["o"]) and op_place(s2["r"]["o"])["l"] == dst and not op_place(s2["r"]["o"])["p"] for bb in cb.bbs for s2 in bb["s"]):
            return set()
    def from_arg(o):
        if op_is_const(o):
            return False
        P = prov.operand_origins(cb, o)
        return 2 in P.params()
    a, c = r["a"], r["b"]
    if from_arg(a) and op_is_const(c):
        return {"hi"} if r["op"] in ("Le", "Lt") else {"lo"}
    if op_is_const(a) and from_arg(c):
        return {"hi"} if r["op"] in ("Ge", "Gt") else {"lo"}
    return set()


def sink_guarded(T, b, bb, o, what, other=None):
    bd = T.bounds_at(b, bb, o)
    ty = b.locals[op_place(o)["l"]].lstrip("&") if not op_is_const(o) else ""
    signed = bool(re.match(r"^(mut )?i(8|16|32|64|128|size)$", ty))
    ob = T.bounds_at(b, bb, other) if other is not None else None
    if what in ("DivisionByZero", "RemainderByZero"):
        return "nonzero" in bd
    if what == "OverflowNeg":
        return "lo" in bd and ("nonneg" in bd or "hi" in bd and "lo" in bd and _lo_above_min(T, b, bb, o))
    if what == "Overflow:Sub":
        # a - x
        if "rel" in bd:
            return True
        if ob is not None and {"hi", "lo"} <= bd and {"hi", "lo"} <= ob:
            return not signed or True
        if ob is not None and op_is_const(other) and "lo" in bd and ("nonzero" in bd or not _is_minuend(b, bb, o)):
            return True
        return False
    if what in ("Overflow:Add", "Overflow:Mul"):
        if signed:
            if {"hi", "lo"} <= bd:
                return True
            if what == "Overflow:Add" and ob is not None and (("neg" in bd and "nonneg" in ob) or ("nonneg" in bd and "neg" in ob)):
                return True      # opposite signs cannot overflow
            return False
        return "hi" in bd
    if what in ("index", "BoundsCheck"):
        # `start <= end` (rel) bounds start only if end itself is bounded
        return "hi" in bd or ("rel" in bd and ob is not None and "hi" in ob)
    if what == "duration-from-float":
        return {"hi", "lo"} <= bd
    return "hi" in bd


def _lo_above_min(T, b, bb, o):
    return True


def _is_minuend(b, bb, o):
    t = b.term(bb)
    return t["k"] == "assert" and t["mo"] and t["mo"][0] is o


def nonzero_guard(T, b, bb, o):
    """divisor compared with 0 on a controlling branch, or a constant non-zero divisor"""
    if op_is_const(o):
        return (const_int(o) or 0) != 0
    R = T.roots(b, o)
    for g, gb in enumerate(b.bbs):
        t = gb["t"]
        if t["k"] != "switch":
            continue
        # switchInt directly on the value (match x { 0 => ..}) or Eq/Ne with const 0
        dl = op_local(t["d"])
        direct = dl in R and 0 in dict(t["ts"])
        cmp0 = False
        for st in gb["s"]:
            if st["k"] == "=" and st["l"]["l"] == dl and st["r"]["k"] == "bin" and st["r"]["op"] in ("Eq", "Ne", "Gt", "Lt", "Ge", "Le"):
                if (T.roots(b, st["r"]["a"]) | T.roots(b, st["r"]["b"])) & R and (const_int(st["r"]["a"]) in (0, 1) or const_int(st["r"]["b"]) in (0, 1)):
                    cmp0 = True
        if direct or cmp0:
            for y in set(b.succs(g)):
                if bb in cfg.edge_dom_set(b, g, y):
                    return True
    return False


def expand_range(T, b, tl, o):
    """a range operand stands for its end points: bound each of them"""
    if op_is_const(o):
        return [o]
    l = op_place(o)["l"]
    if not b.locals[l].startswith("std::ops::Range"):
        return [o]
    out = []
    for kind, bbi, x in prov.build_defs(b).get(l, ()):
        if kind == "call" and re.search(r"^std::ops::RangeInclusive::<.*>::new$", x["f"] or ""):
            out += [a for a in x["a"] if not op_is_const(a) and T.op_t(tl, a)]
        elif kind == "stmt" and x["r"]["k"] == "agg" and x["r"]["a"].startswith("std::ops::Range"):
            out += [a for a in x["r"]["o"] if not op_is_const(a) and T.op_t(tl, a)]
        elif kind == "stmt" and x["r"]["k"] == "use" and not op_is_const(x["r"]["o"]):
            out += expand_range(T, b, tl, x["r"]["o"])
    return out or [o]


def sinks(T, fn, kinds=("panic", "alloc")):
    """yield dicts describing unguarded and guarded sinks in fn"""
    b = T.prog.bodies[fn]
    tl = T.tainted.get(fn, {})
    if not tl:
        return
    for i, bb in enumerate(b.bbs):
        if bb["cleanup"]:
            continue
        t = bb["t"]
        if t["k"] == "assert":
            m = t["m"]
            if not (m.startswith("Overflow:") or m in ("OverflowNeg", "DivisionByZero", "RemainderByZero", "BoundsCheck")) or m.startswith("Overflow:Sh"):
                continue
            ops = t["mo"]
            if m == "BoundsCheck":
                which = [o for o in ops[1:] if T.op_t(tl, o)]
            elif m in ("DivisionByZero", "RemainderByZero"):
                # the assert's operand is the dividend; the divisor is in `cond = Eq(divisor, 0)`
                which = []
                cl = op_local(t["c"])
                for st in bb["s"]:
                    if st["k"] == "=" and st["l"]["l"] == cl and st["r"]["k"] == "bin" and st["r"]["op"] == "Eq":
                        d = st["r"]["a"] if not op_is_const(st["r"]["a"]) else st["r"]["b"]
                        if not op_is_const(d) and T.op_t(tl, d):
                            which = [d]
            elif m == "Overflow:Sub":
                which = [o for o in ops if T.op_t(tl, o)]
            else:
                which = [o for o in ops if T.op_t(tl, o)]
            if not which:
                continue
            def other_of(o):
                if len(ops) == 2 and m.startswith("Overflow:"):
                    return ops[1] if o is ops[0] else ops[0]
                return None
            if m == "Overflow:Sub" and len(ops) == 2:
                # a - b: if only the minuend is tainted and b is constant: need lo on a; if the
                # subtrahend is tainted: need rel (b <= a) or hi on b with a untainted length
                pass
            guarded = all(sink_guarded(T, b, i, o, m, other_of(o)) for o in which)
            if m == "BoundsCheck" and len(ops) == 2:
                v = length_guard_verdict(b, i, ops[1], ops[0])
                if v == "short":
                    guarded = False      # the only comparable length test is off by k for this index
                elif v == "ok":
                    guarded = True
            yield {"bb": i, "kind": "arith" if m != "BoundsCheck" else "index", "what": m, "origin": T.op_t(tl, which[0]), "guarded": guarded, "line": t.get("line")}
        elif t["k"] == "call":
            f = t["f"] or ""
            if LOOP_RANGE.search(f) and t["a"] and not op_is_const(t["a"][0]):
                # `for _ in 0..n`: the command thread runs n iterations
                ends = range_ends(b, t["a"][0])
                if ends and not op_is_const(ends[1]) and T.op_t(tl, ends[1]):
                    guarded = sink_guarded(T, b, i, ends[1], "loop") or _loop_has_break(b, i, t)
                    yield {"bb": i, "kind": "loop", "what": "Range::into_iter", "origin": T.op_t(tl, ends[1]), "guarded": guarded, "line": t.get("line")}
                continue
            for rx, idxs, kind in SINK_CALLS:
                if not rx.search(f):
                    continue
                which = [t["a"][k] for k in idxs if k < len(t["a"]) and T.op_t(tl, t["a"][k])]
                if not which:
                    continue
                ranges = [o for o in which if not op_is_const(o) and b.locals[op_place(o)["l"]].startswith("std::ops::Range")]
                which = [x for o in which for x in expand_range(T, b, tl, o)]
                guarded = all(sink_guarded(T, b, i, o, kind, other=(which[-1] if (len(which) == 2 and o is which[0]) else None)) for o in which)
                if guarded and kind == "index":
                    # a two-ended range also needs start <= end: both ends below the length is
                    # not enough (`&v[5..=2]` panics)
                    for ro in ranges:
                        ends = range_ends(b, ro)
                        if ends and not op_is_const(ends[0]) and not op_is_const(ends[1]) and T.op_t(tl, ends[0]) and T.op_t(tl, ends[1]):
                            if not range_order_known(T, b, i, ends[0], ends[1]):
                                guarded = False
                yield {"bb": i, "kind": kind, "what": shared.short_callee(f), "origin": T.op_t(tl, which[0]), "guarded": guarded, "line": t.get("line")}
                break



# ---------------------------------------------------------------------------------------------
# linear forms: is the dominating length test strong enough for THIS index (off-by-k guards)?
def _container_root(b, o, depth=6):
    """named/param local a slice/Vec operand is a copy/reborrow/deref of"""
    if op_is_const(o) or depth == 0:
        return None
    pl = op_place(o)
    l = pl["l"]
    defs = prov.build_defs(b).get(l, ())
    if 1 <= l <= b.nargs and not defs:
        return l
    if len(defs) != 1:
        return l
    kind, db, d = defs[0]
    if kind == "stmt" and not d["l"]["p"]:
        r = d["r"]
        if r["k"] == "use" and not op_is_const(r["o"]):
            return _container_root(b, r["o"], depth - 1)
        if r["k"] == "ref":
            return _container_root(b, {"cp": {"l": r["p"]["l"], "p": []}}, depth - 1)
    if kind == "call" and re.search(r"Deref(Mut)?>::deref(_mut)?$|::as_slice$|::as_bytes$|::as_ref$", d["f"] or "") and d["a"]:
        return _container_root(b, d["a"][0], depth - 1)
    return l


def linform(b, o, depth=10):
    """(atoms: {atom: coeff}, const) with atoms = ("v", local) or ("len", container root); None if
    not linear / not single-assignment"""
    if op_is_const(o):
        v = const_int(o)
        return ({}, v) if v is not None else None
    pl = op_place(o)
    l = pl["l"]
    proj = pl["p"]
    if depth == 0:
        return ({("v", l): 1}, 0) if not proj else None
    defs = prov.build_defs(b).get(l, ())
    if proj:
        # (_t.0) of a checked add/sub
        if len(proj) == 1 and isinstance(proj[0], dict) and str(proj[0].get("f", "")) in ("0",) or (len(proj) == 1 and isinstance(proj[0], dict) and str(proj[0].get("f", "")).endswith(".0")):
            if len(defs) == 1 and defs[0][0] == "stmt" and defs[0][2]["r"]["k"] == "bin":
                return _lin_bin(b, defs[0][2]["r"], depth)
        return None
    if (1 <= l <= b.nargs and not defs) or len(defs) != 1:
        return ({("v", l): 1}, 0)
    kind, db, d = defs[0]
    if kind == "call":
        f = d["f"] or ""
        if re.search(r"::len$", f) and d["a"]:
            root = _container_root(b, d["a"][0])
            if root is not None:
                return ({("len", root): 1}, 0)
        return ({("v", l): 1}, 0)
    if d["l"]["p"]:
        return ({("v", l): 1}, 0)
    r = d["r"]
    if r["k"] == "use":
        f = linform(b, r["o"], depth - 1)
        return f if f is not None else ({("v", l): 1}, 0)
    if r["k"] == "bin":
        f = _lin_bin(b, r, depth)
        return f if f is not None else ({("v", l): 1}, 0)
    if r["k"] == "cast" and r.get("from") == r.get("ty"):
        f = linform(b, r["o"], depth - 1)
        return f if f is not None else ({("v", l): 1}, 0)
    if r["k"] in ("len", "ptrmeta") or (r["k"] == "un" and r.get("op") == "PtrMetadata"):
        src = r.get("o") or ({"cp": r["p"]} if "p" in r else None)
        root = _container_root(b, src) if src else None
        if root is not None:
            return ({("len", root): 1}, 0)
    return ({("v", l): 1}, 0)


def _lin_bin(b, r, depth):
    op = r["op"].replace("WithOverflow", "")
    if op not in ("Add", "Sub"):
        return None
    A = linform(b, r["a"], depth - 1); C = linform(b, r["b"], depth - 1)
    if A is None or C is None:
        return None
    sgn = 1 if op == "Add" else -1
    atoms = dict(A[0])
    for k, v in C[0].items():
        atoms[k] = atoms.get(k, 0) + sgn * v
        if atoms[k] == 0:
            del atoms[k]
    return (atoms, A[1] + sgn * C[1])


def length_guard_verdict(b, bb, index_op, len_op):
    """'ok' if a dominating test proves len >= index + 1, 'short' if comparable length tests exist
    but the strongest proves less, None if nothing comparable was found"""
    return length_guard_verdict_forms(b, bb, linform(b, index_op), linform(b, len_op))


def length_guard_verdict_forms(b, bb, I, L):
    """same, on linear forms: I = index form, L = ({("len", root): 1}, 0)"""
    if I is None or L is None or len(L[0]) != 1 or L[1] != 0:
        return None
    latom = next(iter(L[0]))
    if latom[0] != "len" or L[0][latom] != 1 or latom in I[0]:
        return None
    best = None
    for d, blk in enumerate(b.bbs):
        t = blk["t"]
        if t["k"] != "switch" or blk.get("cleanup"):
            continue
        dl = op_local(t["d"])
        cmp_ = None
        for st in blk["s"]:
            if st["k"] == "=" and st["l"]["l"] == dl and st["r"]["k"] == "bin" and st["r"]["op"] in ("Lt", "Le", "Gt", "Ge"):
                cmp_ = st["r"]
        if cmp_ is None:
            continue
        ts = dict(t["ts"])
        for truth, tgt in ((True, t["o"]), (False, ts.get(0))):
            if tgt is None or bb not in cfg.edge_dom_set(b, d, tgt):
                continue
            A = linform(b, cmp_["a"]); C = linform(b, cmp_["b"])
            if A is None or C is None:
                continue
            op = cmp_["op"]
            # normalise to  X >= Y + k   (X, Y forms)
            if op in ("Gt", "Ge"):
                A, C = C, A
                op = "Lt" if op == "Gt" else "Le"
            # now: A < C  or A <= C
            if truth:
                X, Y, k = C, A, (1 if op == "Lt" else 0)      # C >= A + k
            else:
                X, Y, k = A, C, (0 if op == "Lt" else 1)      # A >= C + k
            # X must be len (+ const), Y comparable with I
            xa = dict(X[0])
            if xa.get(latom) != 1:
                continue
            del xa[latom]
            ya = dict(Y[0])
            for a_, c_ in xa.items():
                ya[a_] = ya.get(a_, 0) - c_
                if ya[a_] == 0:
                    del ya[a_]
            if ya != I[0]:
                continue
            # len >= Y.const - X.const + k  + atoms(I)   => margin over index
            margin = (Y[1] - X[1] + k) - I[1]
            best = margin if best is None else max(best, margin)
    if best is None:
        return None
    return "ok" if best >= 1 else "short"



def range_ends(b, o, depth=4):
    """(start, end) operands of a Range / RangeInclusive value, or None (one-sided ranges)"""
    if op_is_const(o) or depth == 0:
        return None
    l = op_place(o)["l"]
    for kind, bbi, x in prov.build_defs(b).get(l, ()):
        if kind == "call" and re.search(r"^std::ops::RangeInclusive::<.*>::new$", x["f"] or "") and len(x["a"]) == 2:
            return (x["a"][0], x["a"][1])
        if kind == "stmt" and x["r"]["k"] == "agg" and re.match(r"^std::ops::Range(Inclusive)?(::<.*>)?$|^std::ops::Range$|^std::ops::Range::Range$", x["r"]["a"]) and len(x["r"]["o"]) == 2:
            return (x["r"]["o"][0], x["r"]["o"][1])
        if kind == "stmt" and x["r"]["k"] == "use" and not op_is_const(x["r"]["o"]):
            r = range_ends(b, x["r"]["o"], depth - 1)
            if r:
                return r
    return None


def range_order_known(T, b, bb, start, end):
    """is start <= end (+1) established where the range is used?  (a) a controlling comparison
    between the two values (either direction: one edge is the empty/err exit), (b) end is computed
    from start by an addition / max with start, (c) the linear forms differ by a constant >= -1"""
    Rs = T.copy_roots(b, start) | T.cast_siblings(b, start) | _through_casts(T, b, start)
    Re = T.copy_roots(b, end) | T.cast_siblings(b, end) | _through_casts(T, b, end)
    for d, blk in enumerate(b.bbs):
        t = blk["t"]
        if t["k"] != "switch" or blk.get("cleanup"):
            continue
        dl = op_local(t["d"])
        for st in blk["s"]:
            if st["k"] == "=" and st["l"]["l"] == dl and st["r"]["k"] == "bin" and st["r"]["op"] in ("Lt", "Le", "Gt", "Ge"):
                A = T.copy_roots(b, st["r"]["a"]) | T.cast_siblings(b, st["r"]["a"]) if not op_is_const(st["r"]["a"]) else set()
                C = T.copy_roots(b, st["r"]["b"]) | T.cast_siblings(b, st["r"]["b"]) if not op_is_const(st["r"]["b"]) else set()
                if (A & Rs and C & Re) or (A & Re and C & Rs):
                    if any(bb in cfg.edge_dom_set(b, d, tgt) for tgt in set(b.succs(d))):
                        return True
    # (b) end is an unsigned sum one of whose addends is start (`offset.checked_add(len)` matched
    # through `Some(n) if n <= LIMIT => n`): start <= end by construction
    Pe = prov.operand_origins(b, end, stop_calls=re.compile(r"::(checked_add|saturating_add)$"))
    work = list(Pe.roots); seen_r = set()
    while work:
        r = work.pop()
        if r in seen_r:
            continue
        seen_r.add(r)
        if r[0] == "call" and re.search(r"impl u(8|16|32|64|128|size)>::(checked_add|saturating_add)$", r[1]):
            tt = b.term(r[2])
            if any((not op_is_const(a)) and ((T.copy_roots(b, a) | T.cast_siblings(b, a)) & Rs) for a in tt["a"]):
                return True
        elif r[0] == "call" and re.search(r"^std::option::Option::<u(8|16|32|64|128|size)>::(filter|ok_or|ok_or_else)::<", r[1]):
            # `sum.filter(|&n| n <= LIMIT).ok_or_else(..)?`: the Some payload is the sum itself
            tt = b.term(r[2])
            if tt["a"] and not op_is_const(tt["a"][0]):
                work += list(prov.operand_origins(b, tt["a"][0], stop_calls=re.compile(r"::(checked_add|saturating_add)$")).roots)
    # (b) end derived from start
    P = prov.operand_origins(b, end, deep=True)
    sl = op_place(start)["l"]
    if sl in {r[1] for r in P.roots if r[0] in ("local",)}:
        return True
    for f_, bbi in P.via:
        pass
    Fs = linform(b, start); Fe = linform(b, end)
    if Fs is not None and Fe is not None and Fs[0] == Fe[0] and Fe[1] - Fs[1] >= -1:
        return True
    # end = max(start, ..) / start = min(start, end)
    for kind, db, x in prov.build_defs(b).get(op_place(end)["l"], ()):
        if kind == "call" and re.search(r"::max$|cmp::max::<", x["f"] or "") and any(not op_is_const(a) and (T.copy_roots(b, a) & Rs) for a in x["a"]):
            return True
    for kind, db, x in prov.build_defs(b).get(op_place(start)["l"], ()):
        if kind == "call" and re.search(r"::min$|cmp::min::<", x["f"] or "") and any(not op_is_const(a) and (T.copy_roots(b, a) & Re) for a in x["a"]):
            return True
    # (d) end = min(X, Y) where each of X, Y is known to be >= start: a controlling comparison
    # between start and it dominates the use (`if start >= len { return }`), or it is an unsigned
    # sum with start as an addend (`len.min(start + window)`)
    def base_local(o, d=0):
        """named local behind &x / &*x / copies"""
        if op_is_const(o) or d > 6:
            return None
        l_ = op_place(o)["l"]
        if b.names.get(l_) or 1 <= l_ <= b.nargs:
            return l_
        for kind, db, x in prov.build_defs(b).get(l_, ()):
            if kind == "stmt" and not x["l"]["p"]:
                if x["r"]["k"] in ("ref", "rawptr"):
                    return base_local({"cp": {"l": x["r"]["p"]["l"], "p": []}}, d + 1)
                if x["r"]["k"] in ("use", "cast") and not op_is_const(x["r"]["o"]):
                    return base_local(x["r"]["o"], d + 1)
            if kind == "call" and re.search(r"Deref(Mut)?>::deref(_mut)?$|::as_slice$|::as_ref$", x["f"] or "") and x["a"]:
                return base_local(x["a"][0], d + 1)
        return None

    def len_of(o):
        """the collection (named local) whose len() this operand is, else None"""
        if op_is_const(o):
            return None
        for l_ in {op_place(o)["l"]} | {r for r in (T.copy_roots(b, o) | T.cast_siblings(b, o)) if isinstance(r, int)}:
            for kind, db, x in prov.build_defs(b).get(l_, ()):
                if kind == "call" and re.search(r"::len$", x["f"] or "") and x["a"]:
                    return base_local(x["a"][0])
        return None

    def ge_start(a, depth=0):
        if op_is_const(a) or depth > 4:
            return False
        Ra = T.copy_roots(b, a) | T.cast_siblings(b, a)
        La = len_of(a)
        for d, blk in enumerate(b.bbs):
            t = blk["t"]
            if t["k"] != "switch" or blk.get("cleanup"):
                continue
            dl = op_local(t["d"])
            for st in blk["s"]:
                if st["k"] == "=" and st["l"]["l"] == dl and st["r"]["k"] == "bin" and st["r"]["op"] in ("Lt", "Le", "Gt", "Ge"):
                    A = T.copy_roots(b, st["r"]["a"]) | T.cast_siblings(b, st["r"]["a"]) if not op_is_const(st["r"]["a"]) else set()
                    C = T.copy_roots(b, st["r"]["b"]) | T.cast_siblings(b, st["r"]["b"]) if not op_is_const(st["r"]["b"]) else set()
                    if ((A & Rs and C & Ra) or (A & Ra and C & Rs)) and any(bb in cfg.edge_dom_set(b, d, tgt) for tgt in set(b.succs(d))):
                        return True
                    # the guard compared start with another reading of the same collection's length
                    if La is not None and any(bb in cfg.edge_dom_set(b, d, tgt) for tgt in set(b.succs(d))):
                        if (A & Rs and len_of(st["r"]["b"]) == La) or (C & Rs and len_of(st["r"]["a"]) == La):
                            return True
        for kind, db, x in prov.build_defs(b).get(op_place(a)["l"], ()):
            if kind == "stmt" and not x["l"]["p"]:
                r_ = x["r"]
                if r_["k"] == "bin" and r_.get("op") in ("Add", "AddWithOverflow", "AddUnchecked") and re.match(r"^u(8|16|32|64|128|size)$", r_.get("ty") or ""):
                    if any(not op_is_const(o) and ((T.copy_roots(b, o) | T.cast_siblings(b, o)) & Rs) for o in (r_["a"], r_["b"])):
                        return True
                if r_["k"] == "use" and not op_is_const(r_["o"]):
                    pl_ = op_place(r_["o"])
                    # `(sum.0)` of a checked addition
                    if ge_start({"cp": {"l": pl_["l"], "p": []}}, depth + 1):
                        return True
        return False
    ends = [op_place(end)["l"]]; seen_e = set()
    while ends:
        le = ends.pop()
        if le in seen_e:
            continue
        seen_e.add(le)
        for kind, db, x in prov.build_defs(b).get(le, ()):
            if kind == "call" and re.search(r"::min$|cmp::min::<", x["f"] or "") and len(x["a"]) == 2 and all(ge_start(a) for a in x["a"]):
                return True
            if kind == "stmt" and not x["l"]["p"] and x["r"]["k"] in ("use", "cast") and not op_is_const(x["r"]["o"]) and not op_place(x["r"]["o"])["p"] and len(seen_e) < 8:
                ends.append(op_place(x["r"]["o"])["l"])
    return False



def _through_casts(T, b, o, depth=6):
    """roots of a value seen through plain copies and integer casts (`x as usize`)"""
    out = set()
    if op_is_const(o) or depth == 0:
        return out
    l = op_place(o)["l"]
    out |= T.copy_roots(b, o)
    for r_ in list(out) + [l]:
        for kind, db, x in prov.build_defs(b).get(r_, ()):
            if kind != "stmt" or x["l"]["p"]:
                continue
            r = x["r"]
            if r["k"] == "cast" and not op_is_const(r["o"]):
                out |= _through_casts(T, b, r["o"], depth - 1)
            elif r["k"] == "use" and not op_is_const(r["o"]):
                pl = op_place(r["o"])
                # `(_t.k)` of a tuple built here: the k-th operand of the aggregate
                if len(pl["p"]) == 1 and isinstance(pl["p"][0], dict) and str(pl["p"][0].get("f", "")).isdigit():
                    k = int(pl["p"][0]["f"])
                    for k2, db2, x2 in prov.build_defs(b).get(pl["l"], ()):
                        if k2 == "stmt" and not x2["l"]["p"] and x2["r"]["k"] == "agg" and x2["r"]["a"] == "tuple" and k < len(x2["r"]["o"]):
                            out |= _through_casts(T, b, x2["r"]["o"][k], depth - 1)
    return out
