"""A5: type-restricted interprocedural taint of client / wire / file integers, and the sinks of
R-PANIC / R-ALLOC.  Reports only sinks whose tainted operand has NO dominating comparison,
min/clamp/checked/saturating/wrapping operation (certain defects; guarded-but-undecided sites are
counted separately as 'guarded')."""
import re, collections
from facts import callee, op_local, op_place, op_is_const, const_int
import cfg, shared, prov

NUM = r"(?:[ui](?:8|16|32|64|128|size)|f64|f32)"
CARRIER = re.compile(
    r"^&?(?:mut )?(?:%(N)s|std::option::Option<&?%(N)s>|std::result::Result<%(N)s, .*>|std::ops::ControlFlow<.*, %(N)s>"
    r"|\(%(N)s, bool\)|\(%(N)s, %(N)s\)|\(%(N)s, %(N)s, %(N)s\)|std::ops::Range(?:Inclusive|From|To|ToInclusive)?<%(N)s>"
    r"|std::time::Duration|std::option::Option<std::time::Duration>|std::time::Instant|std::option::Option<std::time::Instant>"
    r"|std::time::SystemTime|storage::stream::StreamId|std::option::Option<storage::stream::StreamId>"
    r"|std::result::Result<std::option::Option<%(N)s>, .*>|std::option::Option<\(%(N)s, %(N)s\)>"
    r")$" % {"N": NUM})

PARSE = re.compile(r"^core::str::<impl str>::parse::<(%s)>$" % NUM)
FILE_SRC = re.compile(r"^storage::rdb::RdbReader::<R>::(read_length|read_u32_be|read_u32_le|read_u64_le|read_byte)$")
UNTAINT = re.compile(r"::(len|capacity|count|database_count|size_of|elapsed|as_millis|as_secs|now)(::<.*>)?$")
BOUNDING = re.compile(r"(^std::cmp::(min|max)::<|as std::cmp::Ord>::(min|max|clamp)$|::(clamp|rem_euclid)$)")
SAFE_ARITH = re.compile(r"::(checked_(add|sub|mul|div|neg|rem|pow|shl|shr)|saturating_(add|sub|mul|pow)|wrapping_(add|sub|mul|neg)|overflowing_(add|sub|mul)|checked_duration_since|saturating_duration_since|checked_next_power_of_two|abs_diff|unsigned_abs)(::<.*>)?$")

# panicking / allocating std APIs: (regex on full callee, index of the dangerous argument(s), kind)
SINK_CALLS = [
    (re.compile(r"as std::ops::Index(Mut)?<(usize|std::ops::Range.*)>>::index(_mut)?$"), [1], "index"),
    (re.compile(r"^core::slice::index::<impl std::ops::Index(Mut)?<.*> for \[.*\]>::index(_mut)?$"), [1], "index"),
    (re.compile(r"^core::str::traits::<impl std::ops::Index<.*> for str>::index$|^<str as std::ops::Index<.*>>::index$"), [1], "index"),
    (re.compile(r"^std::collections::VecDeque::<.*>::(remove|insert|drain|split_off|swap|truncate|range|range_mut)(::<.*>)?$"), [1, 2], "index"),
    (re.compile(r"^std::vec::Vec::<.*>::(remove|insert|drain|split_off|swap_remove|splice)(::<.*>)?$"), [1, 2], "index"),
    (re.compile(r"^core::slice::<impl \[.*\]>::(split_at|split_at_mut|copy_within|chunks|chunks_exact|windows|rotate_left|rotate_right)$"), [1], "index"),
    (re.compile(r"^std::vec::Vec::<.*>::(with_capacity|reserve|reserve_exact|resize|resize_with)$"), [0, 1], "alloc"),
    (re.compile(r"^std::vec::from_elem::<.*>$"), [1], "alloc"),
    (re.compile(r"^std::string::String::(with_capacity|reserve)$|^std::collections::(VecDeque|HashMap|HashSet)::<.*>::(with_capacity|reserve)$"), [0, 1], "alloc"),
    (re.compile(r"::repeat$"), [1], "alloc"),
    (re.compile(r"^std::time::Duration::(from_secs_f64|from_secs_f32)$"), [0], "duration-from-float"),
    (re.compile(r"^<std::time::(Instant|SystemTime) as std::ops::(Add|Sub)<std::time::Duration>>::(add|sub)$"), [0, 1], "time-arith"),
    (re.compile(r"^<std::time::Duration as std::ops::(Mul|Add|Sub)<.*>>::(mul|add|sub)$"), [0, 1], "time-arith"),
    (re.compile(r"^std::thread::sleep$"), [0], "sleep"),
]


def is_carrier(ty):
    return bool(CARRIER.match(ty))


class Taint:
    def __init__(s, ctx, scope_fns, sources):
        """scope_fns: set of function names analysed; sources: set of {"client","wire","file"}"""
        s.ctx = ctx; s.prog = ctx.prog
        s.scope = scope_fns; s.kinds = sources
        s.tainted = collections.defaultdict(dict)   # fn -> {local: origin description}
        s.fields = {}                                # "Adt.field" -> origin
        s.param_taint = collections.defaultdict(dict)
        s.run()

    def src_of_call(s, fn, t):
        f = t["f"] or ""
        m = PARSE.match(f)
        if m:
            if fn.startswith("protocol::parser::"):
                return "wire" if "wire" in s.kinds else None
            if fn.startswith("storage::rdb::"):
                return "file" if "file" in s.kinds else None
            if fn.startswith(("config::", "replication::client", "bin::")):
                return None
            return "client" if "client" in s.kinds else None
        if FILE_SRC.match(f) and "file" in s.kinds:
            return "file"
        return None

    def run(s):
        work = collections.deque(sorted(f for f in s.scope if f in s.prog.bodies))
        inq = set(work)
        rounds = 0
        while work and rounds < 20000:
            rounds += 1
            fn = work.popleft(); inq.discard(fn)
            changed_callees, ret_changed, fld_changed = s.analyse(fn)
            for c in changed_callees:
                if c in s.prog.bodies and c not in inq:
                    work.append(c); inq.add(c)
            if ret_changed:
                for caller in s.ctx.cg.callers.get(fn, ()):
                    if caller in s.scope and caller not in inq:
                        work.append(caller); inq.add(caller)
            if fld_changed:
                for f in s.scope:
                    if f not in inq and f in s.prog.bodies:
                        work.append(f); inq.add(f)

    def analyse(s, fn):
        b = s.prog.bodies[fn]
        T = s.tainted[fn]
        before_ret = 0 in T
        for p, o in s.param_taint[fn].items():
            if p not in T and is_carrier(b.locals[p]):
                T[p] = o
        changed_callees = set(); fld_changed = False
        changed = True
        it = 0
        while changed and it < 50:
            changed = False; it += 1
            for i, bb in enumerate(b.bbs):
                if bb["cleanup"]:
                    continue
                for st in bb["s"]:
                    if st["k"] != "=":
                        continue
                    dl = st["l"]["l"]
                    r = st["r"]
                    src = None
                    ops = []
                    if r["k"] in ("use", "cast", "un", "repeat"):
                        ops = [r["o"]]
                    elif r["k"] == "bin":
                        ops = [r["a"], r["b"]]
                        if r["op"] in ("Rem", "BitAnd") :
                            # x % untainted / x & const : bounded by the other operand
                            if not (s.op_t(T, r["a"]) and s.op_t(T, r["b"])):
                                if r["op"] == "Rem" and not s.op_t(T, r["b"]):
                                    ops = []
                                if r["op"] == "BitAnd" and (op_is_const(r["a"]) or op_is_const(r["b"])):
                                    ops = []
                        if r["op"] in ("Lt", "Le", "Gt", "Ge", "Eq", "Ne"):
                            ops = []
                    elif r["k"] == "agg":
                        ops = r["o"]
                        # field-based: store of tainted operand into a named field of a local ADT
                        if "fs" in r and not r["a"].startswith(("std::", "core::")):
                            adt = r["a"].rsplit("::", 1)[0]
                            for k, o in enumerate(r["o"]):
                                origin = s.op_t(T, o)
                                if origin and k < len(r["fs"]):
                                    key = "%s.%s" % (adt, r["fs"][k])
                                    if key not in s.fields:
                                        s.fields[key] = origin; fld_changed = True
                    elif r["k"] == "ref":
                        ops = [{"cp": r["p"]}]
                    for o in ops:
                        src = src or s.op_t(T, o)
                    # read of a tainted field / RespFrame::Integer payload
                    if r["k"] in ("use", "ref", "cast"):
                        pl = op_place(r["o"]) if r["k"] != "ref" else r["p"]
                        if pl is not None:
                            for e in pl["p"]:
                                if isinstance(e, dict) and "f" in e:
                                    if e["f"] in s.fields:
                                        src = src or s.fields[e["f"]]
                                    if e["f"] == "protocol::resp::RespFrame.0" and any(isinstance(x, dict) and x.get("v") == "Integer" for x in pl["p"]) and "client" in s.kinds \
                                            and not fn.startswith(("protocol::", "replication::client")):
                                        src = src or "client:RespFrame::Integer"
                    # assignment into a field of a local ADT place
                    fs = [e["f"] for e in st["l"]["p"] if isinstance(e, dict) and "f" in e]
                    if src and fs and "::" in fs[-1] and not fs[-1].startswith(("std::", "core::")):
                        if fs[-1] not in s.fields:
                            s.fields[fs[-1]] = src; fld_changed = True
                    if src and dl not in T and is_carrier(b.locals[dl]):
                        T[dl] = src; changed = True
                t = bb["t"]
                if t["k"] != "call":
                    continue
                f = t["f"] or ""
                dl = t["d"]["l"]
                c = callee(t)
                origin = s.src_of_call(fn, t)
                argt = [s.op_t(T, a) for a in t["a"]]
                if origin is None and any(argt):
                    if c in s.prog.bodies and c in s.scope:
                        # local callee: taint its parameters; result tainted iff its _0 is tainted
                        for k, o in enumerate(argt):
                            if o and (k + 1) not in s.param_taint[c] and not s.guarded_at(b, i, t["a"][k], ("hi", "lo")):
                                if k + 1 <= s.prog.bodies[c].nargs and is_carrier(s.prog.bodies[c].locals[k + 1]):
                                    s.param_taint[c][k + 1] = o
                                    changed_callees.add(c)
                        if 0 in s.tainted.get(c, {}):
                            origin = s.tainted[c][0]
                    elif c in s.prog.bodies:
                        pass
                    else:
                        if UNTAINT.search(f) or BOUNDING.search(f) and not all(argt[:2]):
                            origin = None
                        else:
                            origin = next(o for o in argt if o)
                elif origin is None and c in s.prog.bodies and c in s.scope and 0 in s.tainted.get(c, {}):
                    # callee returns a tainted value of its own (e.g. a parser helper)
                    origin = s.tainted[c][0]
                if origin and dl not in T and is_carrier(b.locals[dl]):
                    T[dl] = origin; changed = True
        ret_changed = (0 in T) and not before_ret
        return changed_callees, ret_changed, fld_changed

    def op_t(s, T, o):
        if op_is_const(o):
            return None
        pl = op_place(o)
        if pl is None:
            return None
        return T.get(pl["l"])

    # ---- guards --------------------------------------------------------------------
    def roots(s, b, o):
        return set(s.roots_parity(b, o))

    def roots_parity(s, b, o):
        """locals the operand's value is computed from through copies/casts/refs/unwraps and
        arithmetic (so that a guard on `offset` also guards `offset + n`), each with the parity of
        negations crossed on the way (0 = same sense, 1 = negated, 2 = both/unknown)"""
        if op_is_const(o):
            return {}
        seen = {}; st = [(op_place(o)["l"], 0)]
        defs = prov.build_defs(b)
        while st:
            l, par = st.pop()
            if l in seen:
                if seen[l] != par and seen[l] != 2:
                    seen[l] = 2
                else:
                    continue
            else:
                seen[l] = par
            for kind, bbi, x in defs.get(l, ()):
                if kind == "stmt":
                    r = x["r"]
                    if r["k"] in ("use", "cast"):
                        if not op_is_const(r["o"]):
                            st.append((op_place(r["o"])["l"], par))
                    elif r["k"] == "un":
                        if not op_is_const(r["o"]):
                            st.append((op_place(r["o"])["l"], par ^ 1 if r["op"] == "Neg" and par != 2 else par))
                    elif r["k"] == "bin":
                        for side, oo in (("a", r.get("a")), ("b", r.get("b"))):
                            if oo is not None and not op_is_const(oo):
                                p2 = par
                                if r["op"] in ("Sub", "SubWithOverflow") and side == "b" and par != 2:
                                    p2 = par ^ 1
                                st.append((op_place(oo)["l"], p2))
                    elif r["k"] == "ref":
                        st.append((r["p"]["l"], par))
                    elif r["k"] == "agg" and (r["a"] in ("tuple", "std::option::Option::Some", "std::result::Result::Ok") or r["a"].startswith("std::ops::Range")):
                        for oo in r["o"]:
                            if not op_is_const(oo):
                                st.append((op_place(oo)["l"], par))
                elif kind == "call":
                    f = x["f"] or ""
                    if prov.PASS_THROUGH.search(f) or SAFE_ARITH.search(f) or re.search(r"::(unwrap_or|unwrap_or_default|unwrap_or_else|abs|pow|max|min|as_secs|as_millis|from_secs|from_millis|from_secs_f64)(::<.*>)?$", f):
                        for a in x["a"]:
                            if not op_is_const(a):
                                st.append((op_place(a)["l"], par))
        return seen

    def sanitised(s, b, o):
        """value passed through min/clamp/%/checked/saturating/wrapping on its way here"""
        if op_is_const(o):
            return True
        seen = set(); st = [op_place(o)["l"]]
        defs = prov.build_defs(b)
        while st:
            l = st.pop()
            if l in seen:
                continue
            seen.add(l)
            for kind, bbi, x in defs.get(l, ()):
                if kind == "call":
                    f = x["f"] or ""
                    if BOUNDING.search(f) or SAFE_ARITH.search(f):
                        return True
                    if prov.PASS_THROUGH.search(f):
                        for a in x["a"][:1]:
                            if not op_is_const(a):
                                st.append(op_place(a)["l"])
                elif kind == "stmt":
                    r = x["r"]
                    if r["k"] in ("use", "cast") and not op_is_const(r["o"]):
                        st.append(op_place(r["o"])["l"])
                    if r["k"] == "bin" and r["op"] in ("Rem", "BitAnd", "Shr"):
                        return True
        return False

    def bounds_at(s, b, bb, o):
        """bounds established for the operand's value on every path reaching block bb:
        subset of {"hi","lo","rel"} ("rel": compared with another value derived from the same
        input, e.g. start <= end). Unsigned types have lo for free; values that went through
        min/%/checked/saturating count as fully bounded."""
        if op_is_const(o):
            return {"hi", "lo"}
        out = set()
        pl = op_place(o)
        ty = b.locals[pl["l"]].lstrip("&")
        if re.match(r"^(mut )?u(8|16|32|64|128|size)$", ty):
            out.add("lo")
        if s.sanitised(b, o):
            return {"hi", "lo"}
        RP = s.roots_parity(b, o)
        R = set(RP)
        # widening from a narrow unsigned type bounds the value for arithmetic in the wider type
        defs = prov.build_defs(b)
        for l in R:
            for kind, bbi, x in defs.get(l, ()):
                if kind == "stmt" and x["r"]["k"] == "cast" and re.match(r"^u(8|16|32)$", x["r"].get("from", "")) and re.match(r"^(u64|usize|i64|u128|i128)$", x["r"]["ty"]):
                    out |= {"hi", "lo"}
        # value = untainted - root with root unsigned: bounded above by the untainted minuend
        for l, par in RP.items():
            if par == 1 and re.match(r"^&?(mut )?u(8|16|32|64|128|size)$", b.locals[l]) and l in s.tainted.get(b.fn, {}):
                out.add("hi")
        for g, gb in enumerate(b.bbs):
            t = gb["t"]
            if t["k"] != "switch":
                continue
            dl = op_local(t["d"])
            cmp_ = None      # (op, a_is_ours, b_is_ours)
            cmp_const = None; cmp_par = 0
            for st in gb["s"]:
                if st["k"] == "=" and st["l"]["l"] == dl and st["r"]["k"] == "bin" and st["r"]["op"] in ("Lt", "Le", "Gt", "Ge", "Eq", "Ne"):
                    ra = s.roots(b, st["r"]["a"]) & R; rb = s.roots(b, st["r"]["b"]) & R
                    cmp_ = (st["r"]["op"], bool(ra), bool(rb))
                    cmp_const = const_int(st["r"]["b"]) if ra else const_int(st["r"]["a"])
                    cmp_par = max([RP[x] for x in (ra or rb)] or [0])
            neg = False
            if cmp_ is None:
                for st in gb["s"]:
                    if st["k"] == "=" and st["l"]["l"] == dl and st["r"]["k"] == "un" and st["r"]["op"] == "Not":
                        dl = op_local(st["r"]["o"]); neg = True
                for p_ in b.preds()[g]:
                    pt = b.term(p_)
                    if pt["k"] == "call" and pt["d"]["l"] == dl:
                        m = re.search(r"::(lt|le|gt|ge|eq|ne|is_nan|is_finite|is_infinite|is_negative|is_sign_negative|contains)$", pt["f"] or "")
                        if m:
                            ours = [bool(s.roots(b, a) & R) for a in pt["a"]]
                            nm = m.group(1)
                            if nm in ("lt", "le", "gt", "ge", "eq", "ne") and len(ours) == 2:
                                cmp_ = (nm.capitalize(), ours[0], ours[1])
                            elif any(ours):
                                cmp_ = (nm, True, False)
            if cmp_ is None or not (cmp_[1] or cmp_[2]):
                continue
            zero = dict(t["ts"]).get(0)
            tru, fal = t["o"], zero
            if neg:
                tru, fal = fal, tru
            for tgt, truth in ((tru, True), (fal, False)):
                if tgt is None or bb not in cfg.edge_dom_set(b, g, tgt):
                    continue
                op, oa, ob = cmp_
                if oa and ob:
                    out.add("rel"); continue
                if op == "is_finite":
                    if truth:
                        out |= {"hi", "lo"}
                    continue
                if op in ("is_nan", "is_infinite"):
                    if not truth:
                        out.add("finite-part")
                    continue
                if op in ("is_negative", "is_sign_negative"):
                    if not truth:
                        out.add("lo")
                    continue
                if op == "contains":
                    if truth:
                        out |= {"hi", "lo"}
                    continue
                # normalise to "ours OP other"
                if ob and not oa:
                    op = {"Lt": "Gt", "Le": "Ge", "Gt": "Lt", "Ge": "Le", "Eq": "Eq", "Ne": "Ne"}[op]
                if truth:
                    eff = {"Lt": {"hi"}, "Le": {"hi"}, "Gt": {"lo"}, "Ge": {"lo"}, "Eq": {"hi", "lo"}, "Ne": set()}[op]
                else:
                    eff = {"Lt": {"lo"}, "Le": {"lo"}, "Gt": {"hi"}, "Ge": {"hi"}, "Eq": set(), "Ne": {"hi", "lo"}}[op]
                eff = set(eff)
                # sign knowledge from comparisons with 0 / -1 / 1
                if cmp_const is not None:
                    eop = op if truth else {"Lt": "Ge", "Le": "Gt", "Gt": "Le", "Ge": "Lt", "Eq": "Ne", "Ne": "Eq"}[op]
                    if (eop == "Lt" and cmp_const <= 0) or (eop == "Le" and cmp_const < 0):
                        eff.add("neg")
                    if (eop == "Ge" and cmp_const >= 0) or (eop == "Gt" and cmp_const >= -1):
                        eff.add("nonneg")
                    if eop in ("Gt",) and cmp_const >= 0 or eop == "Ge" and cmp_const >= 1 or eop == "Ne" and cmp_const == 0:
                        eff.add("nonzero")
                if cmp_par == 1:
                    flip = {"hi": "lo", "lo": "hi", "neg": "pos", "nonneg": "nonpos"}
                    eff = {flip.get(x, x) for x in eff}
                elif cmp_par == 2:
                    eff = set()
                out |= eff
        return out

    def guarded_at(s, b, bb, o, need=("hi", "lo")):
        bd = s.bounds_at(b, bb, o)
        if "rel" in bd and "hi" in need and len(need) == 1:
            return True
        return all(n in bd for n in need)

NEED = {
    "Overflow:Add": ("hi",), "Overflow:Mul": ("hi",), "Overflow:Sub": ("rel-or-lo",), "OverflowNeg": ("lo",),
    "DivisionByZero": ("nonzero",), "RemainderByZero": ("nonzero",), "BoundsCheck": ("hi",),
    "index": ("hi",), "alloc": ("hi",), "duration-from-float": ("hi", "lo"), "time-arith": ("hi",), "sleep": ("hi",),
}


def sink_guarded(T, b, bb, o, what, other=None):
    need = NEED.get(what, ("hi",))
    other_const = op_is_const(other) if other is not None else None
    bd = T.bounds_at(b, bb, o)
    ty = b.locals[op_place(o)["l"]].lstrip("&") if not op_is_const(o) else ""
    signed = bool(re.match(r"^(mut )?i(8|16|32|64|128|size)$", ty))
    if need == ("rel-or-lo",):
        # a - x: x must not exceed a (relational guard); a - CONST needs a lower bound on a
        return "rel" in bd or ({"hi", "lo"} <= bd) or ("lo" in bd and other_const) or ("hi" in bd and other_const is False and "lo" in bd)
    if need == ("nonzero",):
        return "lo" in bd and "nonzero" in bd or ({"hi", "lo"} <= bd and False) or nonzero_guard(T, b, bb, o)
    if what in ("Overflow:Add", "Overflow:Mul") and signed:
        if {"hi", "lo"} <= bd:
            return True
        # negative input added to a non-negative length (len + start with start < 0) cannot overflow
        if what == "Overflow:Add" and "neg" in bd and other is not None and not op_is_const(other):
            P = prov.operand_origins(b, other, deep=True)
            if P.has_call(r"::len$") and not T.op_t(T.tainted.get(b.fn, {}), other):
                return True
        return False
    if "rel" in bd and need == ("hi",) and what in ("index", "BoundsCheck"):
        return True
    return all(n in bd for n in need)


def nonzero_guard(T, b, bb, o):
    """divisor compared with 0 on a controlling branch, or a constant non-zero divisor"""
    if op_is_const(o):
        return (const_int(o) or 0) != 0
    R = T.roots(b, o)
    for g, gb in enumerate(b.bbs):
        t = gb["t"]
        if t["k"] != "switch":
            continue
        # switchInt directly on the value (match x { 0 => ..}) or Eq/Ne with const 0
        dl = op_local(t["d"])
        direct = dl in R and 0 in dict(t["ts"])
        cmp0 = False
        for st in gb["s"]:
            if st["k"] == "=" and st["l"]["l"] == dl and st["r"]["k"] == "bin" and st["r"]["op"] in ("Eq", "Ne", "Gt", "Lt", "Ge", "Le"):
                if (T.roots(b, st["r"]["a"]) | T.roots(b, st["r"]["b"])) & R and (const_int(st["r"]["a"]) in (0, 1) or const_int(st["r"]["b"]) in (0, 1)):
                    cmp0 = True
        if direct or cmp0:
            for y in set(b.succs(g)):
                if bb in cfg.edge_dom_set(b, g, y):
                    return True
    return False


def sinks(T, fn, kinds=("panic", "alloc")):
    """yield dicts describing unguarded and guarded sinks in fn"""
    b = T.prog.bodies[fn]
    tl = T.tainted.get(fn, {})
    if not tl:
        return
    for i, bb in enumerate(b.bbs):
        if bb["cleanup"]:
            continue
        t = bb["t"]
        if t["k"] == "assert":
            m = t["m"]
            if not (m.startswith("Overflow:") or m in ("OverflowNeg", "DivisionByZero", "RemainderByZero", "BoundsCheck")) or m.startswith("Overflow:Sh"):
                continue
            ops = t["mo"]
            if m == "BoundsCheck":
                which = [o for o in ops[1:] if T.op_t(tl, o)]
            elif m in ("DivisionByZero", "RemainderByZero"):
                # the assert's operand is the dividend; the divisor is in `cond = Eq(divisor, 0)`
                which = []
                cl = op_local(t["c"])
                for st in bb["s"]:
                    if st["k"] == "=" and st["l"]["l"] == cl and st["r"]["k"] == "bin" and st["r"]["op"] == "Eq":
                        d = st["r"]["a"] if not op_is_const(st["r"]["a"]) else st["r"]["b"]
                        if not op_is_const(d) and T.op_t(tl, d):
                            which = [d]
            elif m == "Overflow:Sub":
                which = [o for o in ops if T.op_t(tl, o)]
            else:
                which = [o for o in ops if T.op_t(tl, o)]
            if not which:
                continue
            def other_of(o):
                if len(ops) == 2 and m.startswith("Overflow:"):
                    return ops[1] if o is ops[0] else ops[0]
                return None
            if m == "Overflow:Sub" and len(ops) == 2:
                # a - b: if only the minuend is tainted and b is constant: need lo on a; if the
                # subtrahend is tainted: need rel (b <= a) or hi on b with a untainted length
                pass
            guarded = all(sink_guarded(T, b, i, o, m, other_of(o)) for o in which)
            yield {"bb": i, "kind": "arith" if m != "BoundsCheck" else "index", "what": m, "origin": T.op_t(tl, which[0]), "guarded": guarded, "line": t.get("line")}
        elif t["k"] == "call":
            f = t["f"] or ""
            for rx, idxs, kind in SINK_CALLS:
                if not rx.search(f):
                    continue
                which = [t["a"][k] for k in idxs if k < len(t["a"]) and T.op_t(tl, t["a"][k])]
                if not which:
                    continue
                guarded = all(sink_guarded(T, b, i, o, kind) for o in which)
                yield {"bb": i, "kind": kind, "what": shared.short_callee(f), "origin": T.op_t(tl, which[0]), "guarded": guarded, "line": t.get("line")}
                break
