"""Interprocedural error flow: which calls / constructions can be the origin of the Err a function
returns.  Used by R-RUN-FATAL: whatever reaches Server::run's Err return ends the process."""
import re
from facts import callee, op_local, op_place, op_is_const
import prov

PT = re.compile(prov.PASS_THROUGH.pattern[:-1] +
                r"|^std::result::Result::<.*>::(map_err|or_else|map|and_then)(::<.*>)?$"
                r"|^std::option::Option::<.*>::(transpose|map|flatten)(::<.*>)?$"
                r"|^std::result::Result::<.*>::(transpose|flatten)(::<.*>)?$"
                r")")
CTOR = re.compile(r"^std::option::Option::<.*>::(ok_or|ok_or_else)(::<.*>)?$")
RESIDUAL = re.compile(r"FromResidual<.*>>::from_residual$")


def returns_result(b):
    t = b.locals[0]
    return t.startswith("std::result::Result<") or t.startswith("std::option::Option<std::result::Result<")


class ErrFlow:
    def __init__(s, ctx):
        s.ctx = ctx
        s.memo = {}

    def origins(s, fn, stack=()):
        """set of leaves: ("extern", callee, via_fn, line) | ("ctor", fn, line)"""
        if fn in s.memo:
            return s.memo[fn]
        if fn in stack:
            return set()
        b = s.ctx.prog.bodies.get(fn)
        if b is None:
            return {("extern", fn, None, None)}
        out = set()
        stack = stack + (fn,)
        def from_operand(o, line):
            if o is None or op_is_const(o):
                out.add(("ctor", fn, line)); return
            P = prov.origins(b, op_place(o)["l"], pass_through=PT)
            hit = False
            for r in P.roots:
                if r[0] == "call":
                    hit = True
                    s.add_call(b, r[2], out, stack)
                elif r[0] == "param":
                    hit = True
                    out.add(("param", fn, r[1]))
            for f, bbi in P.via:
                t = b.term(bbi)
                for c in t.get("clos") or []:
                    out.update(s.origins(c, stack))
            if not hit:
                out.add(("ctor", fn, line))
        for x, bb in enumerate(b.bbs):
            if bb.get("cleanup"):
                continue
            t = bb["t"]
            if t["k"] == "call" and t["d"]["l"] == 0 and not t["d"]["p"]:
                if RESIDUAL.search(t["f"] or ""):
                    from_operand(t["a"][0], t.get("line"))
                elif returns_result(b):
                    s.add_call(b, x, out, stack)
            for st in bb["s"]:
                if st["k"] == "=" and st["l"]["l"] == 0 and not st["l"]["p"]:
                    r = st["r"]
                    if r["k"] == "agg" and r["a"].endswith("::Err"):
                        o = r["o"][0] if r["o"] else None
                        if o is not None and not op_is_const(o):
                            P = prov.origins(b, op_place(o)["l"], pass_through=PT)
                            calls = [q for q in P.roots if q[0] == "call"]
                            # `Err(e) => return Err(e)`: e comes from a matched call result
                            prop = [q for q in calls if s.call_returns_result(b, q[2])]
                            if prop:
                                for q in prop:
                                    s.add_call(b, q[2], out, stack)
                                continue
                        out.add(("ctor", fn, st.get("line")))
                    elif r["k"] == "use" and not op_is_const(r["o"]) and returns_result(b):
                        ty = b.locals[op_place(r["o"])["l"]]
                        if ty.startswith("std::result::Result<") or ty.startswith("std::option::Option<std::result"):
                            from_operand(r["o"], st.get("line"))
        s.memo[fn] = out
        return out

    def call_returns_result(s, b, bbi):
        t = b.term(bbi)
        ty = b.locals[t["d"]["l"]]
        return "std::result::Result<" in ty

    def add_call(s, b, bbi, out, stack):
        t = b.term(bbi)
        c = callee(t)
        if CTOR.search(t["f"] or ""):
            out.add(("ctor", b.fn, t.get("line"))); return
        subs = []
        if c in s.ctx.prog.bodies:
            subs.append(c)
        for cl in t.get("clos") or []:
            subs.append(cl)
        if not subs:
            out.add(("extern", c, b.fn, t.get("line")))
            return
        for f in subs:
            sb = s.ctx.prog.bodies[f]
            if returns_result(sb) or sb.kind == "Closure":
                out.update(s.origins(f, stack))
