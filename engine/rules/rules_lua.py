"""C12 rules: executor dispatch table, R-LUA-SANDBOX, R-LUA-BLOCK, R-PARITY, R-LUA-SHA, R-BIN(script)."""
import re
from facts import callee, op_local, op_place, op_is_const, const_str, promoted_consts
import cfg, shared, prov, rules_cmd, rules_rdb
from shared import SERVER, ENGINE

EX = "storage::commands::executor::"
PARSE = EX + "CommandParser::parse"
UX = EX + "UnifiedCommandExecutor::"
LE = "storage::lua_engine::LuaEngine::"
ENUMS = re.compile(r"^storage::commands::executor::(\w+Command)::(\w+)$")


def variants_built(ctx, fns_blocks):
    """(enum, variant) aggregates constructed in the given (body, blocks) pairs"""
    out = set()
    for b, blocks in fns_blocks:
        for i in (blocks if blocks is not None else range(len(b.bbs))):
            for st in b.stmts(i):
                if st["k"] == "=" and st["r"]["k"] == "agg":
                    m = ENUMS.match(st["r"]["a"])
                    if m and m.group(1) != "Command":
                        out.add((m.group(1), m.group(2)))
    return out


def executor_table(ctx):
    """NAME -> {"variants": set, "reach": set(fn), "calls": [...]} for the script-side executor"""
    def compute():
        pb = ctx.prog.need(PARSE)
        tests = shared.str_tests(pb)
        names = sorted({t["name"] for t in tests})
        # variant -> (execute fn, region)
        vreg = {}
        for fn, b in ctx.prog.bodies.items():
            if not fn.startswith(UX + "execute_") or b.kind == "Closure":
                continue
            for p in range(1, b.nargs + 1):
                ty = b.locals[p]
                m = re.match(r"^storage::commands::executor::(\w+Command)$", ty)
                if not m:
                    continue
                for (i, nm, other, pl) in rules_rdb.discr_switch_on(ctx, b, ty):
                    if pl["l"] != p and p not in prov.origins(b, pl["l"]).params():
                        continue
                    for v, tgt in nm.items():
                        reg = cfg.edge_dom_set(b, i, tgt)
                        # drop elaboration adds further switches on the same enum: keep the arm
                        old_ = vreg.get((m.group(1), v))
                        if old_ is None or len(reg) > len(old_[1]):
                            vreg[(m.group(1), v)] = (b, reg)
        out = {}
        for n in names:
            reg = shared.arm_region(pb, tests, n)
            if not reg:
                continue
            pairs = [(pb, reg)]
            for i in reg:
                t = pb.term(i)
                if t["k"] == "call" and callee(t).startswith(EX + "CommandParser::parse_"):
                    for f in ctx.cg.reach([callee(t)]):
                        if f.startswith(EX + "CommandParser::") and f in ctx.prog.bodies:
                            pairs.append((ctx.prog.bodies[f], None))
            vs = variants_built(ctx, pairs)
            calls = []; reach = set()
            for v in vs:
                if v in vreg:
                    b, r = vreg[v]
                    roots = set()
                    for i in r:
                        t = b.term(i)
                        if t["k"] == "call":
                            roots.add(callee(t)); roots |= set(t["clos"])
                            calls.append((i, callee(t)))
                    reach |= ctx.cg.reach(roots)
            out[n] = {"variants": vs, "reach": reach, "calls": calls, "handled": bool([v for v in vs if v in vreg])}
        return out
    return ctx.memo("executor_table", compute)


SANDBOX = {"os", "io", "debug", "package", "require", "dofile", "loadfile", "load"}


def rule_sandbox(ctx, R):
    n = 0
    for fn in (LE + "create_lua_context", LE + "script_load"):
        b = ctx.prog.need(fn)
        names = set()
        for arr in b.promoted:
            vals = [const_str(c) for c in arr if isinstance(c, dict) and "c" in c and const_str(c) is not None]
            if len(vals) >= 4 and set(vals) & SANDBOX:
                names |= set(vals)
        # literal arrays built in place
        for bb in b.bbs:
            for st in bb["s"]:
                if st["k"] == "=" and st["r"]["k"] == "agg" and st["r"]["a"] == "array":
                    vals = [v for v in (shared.resolve_const_str(b, o) for o in st["r"]["o"]) if v is not None]
                    if set(vals) & SANDBOX:
                        names |= set(vals)
        sets_nil = any(re.search(r"mlua::Table::set", t["f"] or "") and "mlua::Nil" in (t["f"] or "") or re.search(r"mlua::Table::set::<.*mlua::(Nil|Value)", t["f"] or "") for _, t in b.calls())
        inloop = any(re.search(r"mlua::Table::set", t["f"] or "") and any(i in body for body in cfg.loops(b).values()) for i, t in b.calls())
        n += 1
        missing = sorted(SANDBOX - names)
        R.inst(fn, "sandbox", {"function": fn.split("::")[-1], "nulled": sorted(names), "missing": missing, "set_in_loop": inloop})
        if missing:
            R.finding(fn, "sandbox:missing:" + ",".join(missing), "%s leaves %s reachable from scripts (file system / process access)" % (fn.split("::")[-1], missing), b.loc())
        if not inloop:
            R.finding(fn, "sandbox:not-applied", "%s does not null the sandboxed globals" % fn.split("::")[-1], b.loc())
    R.floor("sandbox_sites", n)
    # which libraries are opened at all: in Lua 5.1 `module('io')` brings a library table back from
    # the registry even if the global was set to nil, so io / os / package must never be loaded.
    # Every creation of a Lua state reachable from the engine is `Lua::new_with(libs, ..)` with a
    # constant library set that lacks IO (4), OS (8), PACKAGE (256) -- `Lua::new()` loads them all.
    FORBID = {4: "io", 8: "os", 256: "package", 1 << 31: "debug", 1 << 30: "ffi"}
    ns = 0
    for fn, b in sorted(ctx.prog.bodies.items()):
        if not fn.startswith("storage::lua_engine::") or "::tests::" in fn:
            continue
        for i, t in b.calls():
            f = t["f"] or ""
            if re.search(r"^mlua::Lua::(new|unsafe_new)$", f):
                ns += 1
                R.inst(fn, "lua-state", {"function": fn.split("::")[-1], "created_with": f.split("::")[-1]})
                R.finding(fn, "lua-state:all-libraries", "%s creates the script state with Lua::%s, which opens io, os and package: `module('io')` / `module('os')` give scripts the file system and the process back although the globals are nil" % (fn.split("::")[-1], f.split("::")[-1]), b.loc(i))
            elif re.search(r"^mlua::Lua::(new_with|unsafe_new_with)$", f):
                ns += 1
                mask = libs_mask(b, t["a"][0]) if t["a"] else None
                bad = sorted(v for k, v in FORBID.items() if mask is not None and mask & k)
                R.inst(fn, "lua-state", {"function": fn.split("::")[-1], "created_with": "new_with", "library_mask": mask, "forbidden_loaded": bad})
                if mask is None:
                    R.finding(fn, "lua-state:libraries-not-constant", "%s creates the script state with a library set that is not a compile-time constant" % fn.split("::")[-1], b.loc(i))
                elif bad:
                    R.finding(fn, "lua-state:loads:" + "+".join(bad), "%s opens the %s librar%s for scripts" % (fn.split("::")[-1], ", ".join(bad), "y" if len(bad) == 1 else "ies"), b.loc(i))
    R.floor("lua_state_creations", ns)


def libs_mask(b, o, depth=8):
    """constant value of a mlua::StdLib operand built from named constants with `|`"""
    if depth == 0:
        return None
    if op_is_const(o):
        v = o.get("v")
        try:
            return int(v)
        except Exception:
            m = re.search(r"StdLib\((\d+)", str(o.get("c", "")))
            if m:
                return int(m.group(1))
            # named constants: mlua::StdLib::TABLE etc.
            names = {"COROUTINE": 1, "TABLE": 2, "IO": 4, "OS": 8, "STRING": 16, "UTF8": 32, "BIT": 64, "MATH": 128, "PACKAGE": 256,
                     "NONE": 0, "ALL_SAFE": (1 << 30) - 1, "ALL": 0xFFFFFFFF, "DEBUG": 1 << 31, "FFI": 1 << 30}
            m = re.search(r"StdLib::(\w+)", str(o.get("c", "")))
            return names.get(m.group(1)) if m else None
    l = op_place(o)["l"]
    defs = prov.build_defs(b).get(l, ())
    if len(defs) != 1:
        return None
    kind, db, d = defs[0]
    if kind == "call" and re.search(r"mlua::StdLib as std::ops::BitOr>::bitor$|BitOr<.*>>::bitor$", d["f"] or "") and len(d["a"]) == 2:
        a_, c_ = libs_mask(b, d["a"][0], depth - 1), libs_mask(b, d["a"][1], depth - 1)
        return (a_ | c_) if a_ is not None and c_ is not None else None
    if kind == "stmt" and d["r"]["k"] == "use":
        return libs_mask(b, d["r"]["o"], depth - 1)
    return None


MUST_BLOCK = {"EVAL", "EVALSHA", "SCRIPT", "SELECT", "AUTH", "QUIT", "CLIENT", "MULTI", "EXEC", "DISCARD", "WATCH", "UNWATCH",
              "BLPOP", "BRPOP", "SUBSCRIBE", "UNSUBSCRIBE", "PSUBSCRIBE", "PUNSUBSCRIBE", "MONITOR", "SHUTDOWN"}


def rule_block(ctx, R):
    b = ctx.prog.need(LE + "execute_unified_redis_command")
    tests = shared.str_tests(b)
    blocked = set(); leaky = []
    for n in sorted({t["name"] for t in tests}):
        reg = shared.arm_region(b, tests, n)
        if not reg:
            continue
        calls = {callee(b.term(i)) for i in reg if b.term(i)["k"] == "call"}
        exec_ = any("execute_lua_command" in c or c.startswith(UX) for c in calls)
        err = any(c.endswith("handle_command_error_with_context") for c in calls)
        if err and not exec_:
            blocked.add(n)
        elif exec_:
            leaky.append(n)
    R.floor("blocked_names", len(blocked))
    for n in sorted(MUST_BLOCK):
        R.inst(b.fn, "block:" + n, {"command": n, "blocked": n in blocked})
        if n not in blocked:
            R.finding(b.fn, "block:%s:not-blocked" % n, "%s (connection / blocking / transaction / process command) is not refused inside scripts" % n, b.loc())
    ex = executor_table(ctx)
    for n in sorted(set(ex) & MUST_BLOCK):
        if n not in blocked:
            R.finding(b.fn, "block:%s:executor-knows-it" % n, "the script-side executor implements %s and the script front end does not block it" % n, b.loc())
    # the default arm routes to the executor
    R.inst(b.fn, "default-arm", {"routes_to_executor": any(callee(t).endswith("execute_lua_command") for _, t in b.calls())})


CATALOGUE = sorted(set(sum((rules_cmd.NAMES[p] for p in ("C01", "C02", "C03", "C04", "C15", "C16", "C19")), [])))


# reviewed deviations of the engine-method sets (command -> (unused predicate, reason))
ENGINE_SET_EXCEPTIONS = {
    "SETNX": (lambda sa, ea: True, "the direct handler tests exists() and then calls set_string/set_value, the script side calls the atomic set_string_nx: same outcome on the single command thread"),
}


SHARD_LOOKUP = shared.SHARD_MAP_LOOKUP


def rule_parity(ctx, R):
    arms = rules_cmd.dispatch_arms(ctx)
    ex = executor_table(ctx)
    muts = set(shared.mutators(ctx))
    api = set(shared.engine_api(ctx.prog))
    R.floor("executor_names", len(ex))
    n = 0
    for name in CATALOGUE:
        s_arm = arms.get(name); e_arm = ex.get(name)
        if s_arm is None:
            continue
        n += 1
        if e_arm is None or not e_arm["handled"]:
            R.inst(PARSE, "presence:" + name, {"command": name, "in_executor": False})
            R.finding(PARSE, "presence:%s:server-only" % name, "%s works when sent directly but redis.call('%s', ...) is an unknown command inside scripts" % (name, name), ctx.prog.bodies[PARSE].loc())
            continue
        sm = bool(s_arm["reach"] & muts); em = bool(e_arm["reach"] & muts)
        sa = bool(s_arm["reach"] & api); ea = bool(e_arm["reach"] & api)
        R.inst(PARSE, "effect:" + name, {"command": name, "server_mutates": sm, "script_mutates": em, "server_engine": sorted(x[len(ENGINE):] for x in s_arm["reach"] & api)[:4], "script_engine": sorted(x[len(ENGINE):] for x in e_arm["reach"] & api)[:4]})
        if sm != em:
            R.finding(PARSE, "effect:%s:differs" % name, "%s %s when sent directly but %s when called from a script" % (name, "changes the dataset" if sm else "is read-only", "changes the dataset" if em else "is read-only / has no effect"), ctx.prog.bodies[PARSE].loc())
        elif sa and not ea:
            R.finding(PARSE, "effect:%s:script-side-no-engine" % name, "%s reaches the storage engine when sent directly but not from a script" % name, ctx.prog.bodies[PARSE].loc())
        else:
            # same storage primitive requirement as the direct dispatcher (C01/C03/C04 SPEC)
            eff, prim = rules_cmd.SPEC.get(name, (None, None))
            if prim:
                prims = rules_cmd.reach_primitives(ctx, e_arm["reach"])
                if not any(re.search(prim, p_) for p_ in prims):
                    R.finding(PARSE, "effect:%s:script-side-primitive" % name, "the script-side implementation of %s cannot reach the storage primitive its semantics need (%s)" % (name, prim), ctx.prog.bodies[PARSE].loc())
    R.floor("catalogue_commands_compared", n)
    # sibling agreement at the engine interface: the two implementations of a command reach the
    # same set of engine methods.  (On the confirmed tree 88 of 92 commands agree; the deviations
    # are reported.)  A command whose implementation reaches an engine method that is new with
    # respect to the recorded tree is not compared: a maintainer may add a method for one side.
    try:
        import anchors, json as _json
        recorded = set(_json.load(open(anchors.ANCHORS)))
    except Exception:
        recorded = None
    ne = 0
    for name in CATALOGUE:
        s_arm = arms.get(name); e_arm = ex.get(name)
        if s_arm is None or e_arm is None or not e_arm["handled"]:
            continue
        sa = s_arm["reach"] & api; ea = e_arm["reach"] & api
        # wrappers that only delegate to another engine method (incr -> incr_by) are not compared
        leaf = lambda fs: {f for f in fs if any(SHARD_LOOKUP.search(t["f"] or "") for _, t in ctx.prog.bodies[f].calls()) or not (ctx.cg.edges.get(f, set()) & api)}
        sa = leaf(sa); ea = leaf(ea)
        if recorded is not None and ((sa | ea) - recorded):
            R.note("%s: reaches an engine method not in the recorded tree (%s); engine-set parity not compared" % (name, sorted(x.split("::")[-1] for x in (sa | ea) - recorded)))
            continue
        if name in ENGINE_SET_EXCEPTIONS and not ENGINE_SET_EXCEPTIONS[name][0](sa, ea):
            pass
        ne += 1
        same = sa == ea
        if not same and sa and sa < ea:
            # parser arms merged for sibling commands (`"LPUSH" | "RPUSH" => parse_push(name, ..)`):
            # the script-side reach of the shared arm is the union over the siblings; what it
            # has beyond the direct command must be what the siblings' direct arms reach
            sibs = [n2 for n2 in CATALOGUE if n2 != name and ex.get(n2) and ex[n2]["handled"] and ex[n2]["reach"] == e_arm["reach"] and arms.get(n2)]
            allowed = set()
            for n2 in sibs:
                allowed |= leaf(arms[n2]["reach"] & api)
            if sibs and (ea - sa) <= allowed:
                same = True
                R.note("%s: script-side arm shared with %s; engine-set compared as a union" % (name, sibs))
        R.inst(PARSE, "engine-set:" + name, {"command": name, "same_engine_methods": same})
        if not same and name in ENGINE_SET_EXCEPTIONS:
            R.note("%s: reviewed exception -- %s" % (name, ENGINE_SET_EXCEPTIONS[name][1])); continue
        if not same:
            only_s = sorted(x[len(ENGINE):] for x in sa - ea); only_e = sorted(x[len(ENGINE):] for x in ea - sa)
            R.finding(PARSE, "engine-set:%s:differs" % name,
                      "%s sent directly reaches engine methods %s, redis.call('%s') reaches %s: the two implementations of the command do different things to the dataset (only direct: %s; only script: %s)" % (
                          name, sorted(x[len(ENGINE):] for x in sa), name, sorted(x[len(ENGINE):] for x in ea), only_s, only_e), ctx.prog.bodies[PARSE].loc())
    R.floor("engine_sets_compared", ne)
    # commands the executor treats as no-ops although they persist / administrate when sent directly
    for name in ("SAVE", "BGSAVE", "BGREWRITEAOF", "CONFIG"):
        s_arm = arms.get(name); e_arm = ex.get(name)
        if s_arm is None or e_arm is None:
            continue
        s_rdb = any(f.startswith(("storage::rdb::", "storage::aof::")) for f in s_arm["reach"])
        e_rdb = any(f.startswith(("storage::rdb::", "storage::aof::")) for f in e_arm["reach"])
        R.inst(PARSE, "persist:" + name, {"command": name, "server_reaches_persistence": s_rdb, "script_reaches_persistence": e_rdb})
        if s_rdb and not e_rdb:
            R.finding(PARSE, "persist:%s:noop-from-script" % name, "%s persists when sent directly but is answered OK without doing anything when called from a script" % name, ctx.prog.bodies[PARSE].loc())


def rule_sha(ctx, R):
    """EVALSHA runs the cached source unmodified through the same entry as EVAL"""
    b = ctx.prog.need(SERVER + "handle_evalsha_command")
    EVAL_ENTRY = "storage::commands::lua::handle_eval_with_db"
    ev = [i for i, t in b.calls() if callee(t) == EVAL_ENTRY]
    if not ev and EVAL_ENTRY in ctx.prog.bodies:
        # a common entry below both: EVALSHA calls a function of the script command layer that
        # EVAL's entry calls too and that runs the script (reaches LuaEngine::eval)
        shared_ = {callee(t) for _, t in ctx.prog.bodies[EVAL_ENTRY].calls() if (callee(t) or "").startswith("storage::commands::lua::")
                   and "storage::lua_engine::LuaEngine::eval" in ctx.cg.reach([callee(t)])}
        ev = [i for i, t in b.calls() if callee(t) in shared_]
        if not ev:
            # the common helper was inlined into both: both bodies call the engine themselves
            LE = "storage::lua_engine::LuaEngine::eval"
            if any(callee(t) == LE for _, _, t in shared.deep_calls(ctx, ctx.prog.bodies[EVAL_ENTRY])):
                ev = [i for _, i, t in shared.deep_calls(ctx, b) if callee(t) == LE]
    get = [i for i, t in b.calls() if re.search(r"ScriptCache::get$|lua_cache::.*::get$", callee(t))]
    R.inst(b.fn, "same-entry", {"calls_handle_eval_with_db": len(ev), "cache_lookups": len(get)})
    if not ev:
        R.finding(b.fn, "evalsha:other-entry", "EVALSHA does not execute through handle_eval_with_db (the EVAL entry)", b.loc())
    if not get:
        R.finding(b.fn, "evalsha:no-cache-lookup", "EVALSHA does not look the script up in the cache", b.loc())
    # the script taken from the cache is only moved / converted to bytes on its way to EVAL
    for g in get:
        rs = shared.result_switch(b, g)
        holders = set()
        # locals of type String that derive from the lookup result
        for l, ty in enumerate(b.locals):
            if ty == "std::string::String" and prov.origins(b, l).has_call(r"::get$"):
                holders.add(l)
        bad = []
        for i, t in b.calls():
            if t["a"] and any(op_local(a) in holders for a in t["a"]):
                f = t["f"] or ""
                if not re.search(r"String::into_bytes$|String::as_bytes$|as std::clone::Clone>::clone$|String::into_boxed_str$|Arc::<.*>::new$|as std::convert::Into<.*>>::into$|as std::ops::Deref>::deref$", f):
                    bad.append((i, shared.short_callee(f)))
        R.inst(b.fn, "source-flow", {"script_holders": len(holders), "transforming_uses": [x for _, x in bad]})
        if bad:
            R.finding(b.fn, "evalsha:source-modified", "the cached script source passes through %s before it is executed" % bad[0][1], b.loc(bad[0][0]))


LOSSY = re.compile(r"String::from_utf8_lossy$|mlua::String::to_str$|mlua::.*::to_string_lossy$")


def runner_stable(fn):
    import runner
    return runner.stable_fn(fn) if hasattr(runner, "stable_fn") else fn


def rule_bin_script(ctx, R):
    """KEYS / ARGV / redis.call arguments and replies cross the Lua boundary as bytes"""
    # every function of the Lua engine (helpers and closures included, so that moving a
    # conversion into a helper does not hide it) plus the script-side adapter
    fns = sorted(f for f, fb in ctx.prog.bodies.items()
                 if (f.startswith(LE) or f == EX + "LuaCommandAdapter::execute_lua_command") and "::tests::" not in f)
    n = 0
    for fn in fns:
        b = ctx.prog.bodies[fn]
        hits = [(i, t) for i, t in b.calls() if LOSSY.search(t["f"] or "") or LOSSY.search(callee(t))]
        strargs = [p for p in range(1, b.nargs + 1) if re.search(r"Vec<std::string::String>", b.locals[p])] if b.kind != "Closure" else []
        n += 1
        if not hits and not strargs:
            R.trivial(); continue
        key_fn = runner_stable(fn)
        R.inst(fn, "byte-safety", {"function": fn.split("::")[-1], "lossy_or_utf8_only_conversions": len(hits), "string_typed_argument_vectors": len(strargs)})
        # a closure of a helper that was inlined into its callers is reported under the caller
        owner = fn
        if "{closure" in fn:
            parent = re.sub(r"(::\{closure#\d+\})+$", "", fn)
            if parent not in ctx.prog.bodies:
                into = getattr(ctx.prog, "inlined_into", {}).get(parent)
                while into and into[0] not in ctx.prog.bodies and into[0] in getattr(ctx.prog, "inlined_into", {}):
                    into = ctx.prog.inlined_into[into[0]]
                if into:
                    owner = re.sub(r"(::\{closure#\d+\})+$", "", into[0])
        if hits and owner != fn:
            R.finding(owner, "lossy-conversion", "%s converts script data through %s: binary KEYS/ARGV/arguments/replies do not arrive byte-for-byte (non-UTF-8 is replaced or refused)" % (owner.split("::")[-1], shared.short_callee(hits[0][1]["f"])), b.loc(hits[0][0]))
        elif hits:
            R.finding(fn, "lossy-conversion", "%s converts script data through %s: binary KEYS/ARGV/arguments/replies do not arrive byte-for-byte (non-UTF-8 is replaced or refused)" % (fn.split("::")[-1], shared.short_callee(hits[0][1]["f"])), b.loc(hits[0][0]))
        elif strargs:
            R.finding(fn, "string-typed-arguments", "%s carries command arguments as Strings: binary arguments cannot be represented" % fn.split("::")[-1], b.loc())
    R.floor("boundary_functions", n)


# ---------------------------------------------------------------------------------------------
# R-LUA-CONV: the two conversion functions against the standard conversion table
# (https://redis.io/docs/latest/develop/programmability/lua-api/#data-type-conversion, RESP2):
#   RESP -> Lua: integer->number(Integer); bulk->string; nil bulk / nil array->false(Boolean);
#                status->table{ok}; error->raised, or table{err} under pcall; array->table, element
#                k at index k (a nil element must not shift the later ones)
#   Lua -> RESP: nil->nil bulk; false->nil bulk; true->integer 1; number->integer (truncated);
#                string->bulk; table->array up to the first nil (empty table -> empty array)
R2L_REF = {
    "Integer": {"Integer"}, "BulkString/Some": {"String"}, "BulkString/None": {"Boolean"},
    "SimpleString": {"Table"}, "Error": {"error"}, "Array/Some": {"Table"}, "Array/None": {"Boolean"},
}
L2R_REF = {
    "Nil": {"BulkString"}, "Boolean": {"Integer", "BulkString"}, "Integer": {"Integer"}, "Number": {"Integer"},
    "String": {"BulkString"}, "Table": {"Array"},
}
LUAVAL = re.compile(r"^mlua::(value::)?Value::(\w+)$")
RESPV = re.compile(r"^protocol::resp::RespFrame::(\w+)$")


def _top_switch(b, local):
    for x, bb in enumerate(b.bbs):
        t = bb["t"]
        if t["k"] != "switch" or bb.get("cleanup"):
            continue
        dl = op_local(t["d"])
        for st in bb["s"]:
            if st["k"] == "=" and st["l"]["l"] == dl and st["r"]["k"] == "discr" and st["r"]["p"]["l"] == local and not st["r"]["p"]["p"]:
                return x, t
    return None


def _variant_names(b, local):
    """discriminant -> variant name, from the downcast projections of `local` used in b"""
    out = {}
    def visit(p):
        if p and p["l"] == local:
            for e in p["p"]:
                if isinstance(e, dict) and "v" in e and "vi" in e:
                    out[e["vi"]] = e["v"]; break
    for bb in b.bbs:
        for st in bb["s"]:
            if st["k"] != "=":
                continue
            r = st["r"]
            for o in ([r.get("o")] if not isinstance(r.get("o"), list) else r["o"]) + [r.get("a") if isinstance(r.get("a"), dict) else None, r.get("b")]:
                if isinstance(o, dict) and not op_is_const(o) and op_place(o):
                    visit(op_place(o))
            if "p" in r and isinstance(r["p"], dict):
                visit(r["p"])
    return out


def _cells(ctx, b, local, adt=None):
    """{cell name: (switch bb, target bb)} for the top-level match on `local` incl. the nested
    Option switches"""
    top = _top_switch(b, local)
    if not top:
        return None
    x, t = top
    names = _variant_names(b, local)
    cells = {}
    for v, tb in t["ts"]:
        nm = (ctx.prog.variant_name(adt, v) if adt else None) or names.get(v) or ("Nil" if v == 0 and not adt else "#%d" % v)
        # nested Option switch directly in the arm's first block
        tt = b.term(tb)
        nested = None
        if tt["k"] == "switch":
            dl = op_local(tt["d"])
            for st in b.stmts(tb):
                if st["k"] == "=" and st["l"]["l"] == dl and st["r"]["k"] == "discr" and st["r"]["p"]["l"] == local and st["r"]["p"]["p"]:
                    nested = tt
        if nested:
            ts = dict(nested["ts"])
            if 0 in ts:
                cells[nm + "/None"] = (tb, ts[0])
            if 1 in ts:
                cells[nm + "/Some"] = (tb, ts[1])
        else:
            cells[nm] = (x, tb)
    # variants without an arm of their own are converted by the `_` arm
    o = t.get("o")
    if o is not None and o >= 0 and b.term(o)["k"] != "unreachable":
        cells["_otherwise"] = (x, o)
    return cells


def _cell_regions(b, cells):
    """blocks that belong to each cell's arm: everything reachable from the arm's entry that is not
    the common continuation of all arms.  (Or-patterns -- `SimpleString(b) | BulkString(Some(b))`
    -- enter one shared body through separate binding blocks, so dominance by the entry edge
    would see the binding block only.)"""
    reach = {name: cfg.fwd(b, [tb]) for name, (sw, tb) in cells.items()}
    common = None
    for r in reach.values():
        common = set(r) if common is None else (common & r)
    common = common or set()
    return {name: r - common for name, r in reach.items()}


_CTOR_PROG = None


def _built(b, region, rx, group=1):
    out = set()
    for y in region:
        if b.bbs[y].get("cleanup"):
            continue
        for st in b.stmts(y):
            if st["k"] == "=" and st["r"]["k"] == "agg":
                m = rx.match(st["r"]["a"])
                if m:
                    out.add(m.group(m.lastindex))
        # a constructor function of the frame type (`RespFrame::bulk_string(..)`, `::ok()`,
        # `::null_array()`): what it builds is what the arm builds
        t = b.term(y)
        if t["k"] == "call" and _CTOR_PROG is not None and rx is RESPV:
            c = callee(t)
            cb = _CTOR_PROG.bodies.get(c)
            if cb is not None and c.startswith("protocol::resp::RespFrame::") and (cb.locals[0] or "") == "protocol::resp::RespFrame" and len(cb.bbs) <= 12:
                for bb2 in cb.bbs:
                    for st in bb2["s"]:
                        if st["k"] == "=" and st["r"]["k"] == "agg":
                            m = rx.match(st["r"]["a"])
                            if m:
                                out.add(m.group(m.lastindex))
    return out


# finding keys name the ROLE of the conversion function (stable under renames / helper splits)
ROLE_R2L = LE + "resp_frame_to_lua_value"
ROLE_L2R = LE + "lua_value_to_resp"


def rule_conv(ctx, R):
    global _CTOR_PROG
    _CTOR_PROG = ctx.prog
    return _rule_conv(ctx, R)


def _rule_conv(ctx, R):
    # ---- RESP -> Lua
    b = None; cells = None
    for fn_, fb in sorted(ctx.prog.bodies.items()):
        if not fn_.startswith(LE) or fb.kind == "Closure" or "mlua::Value" not in fb.locals[0]:
            continue
        for p_ in range(1, fb.nargs + 1):
            if fb.locals[p_] == "protocol::resp::RespFrame":
                c_ = _cells(ctx, fb, p_, "protocol::resp::RespFrame")
                if c_ and (cells is None or len(c_) > len(cells)):
                    b, cells = fb, c_
    if not cells:
        R.broken.append("no function of the Lua engine matches on a RespFrame and returns a Lua value"); return
    n = 0
    regions = _cell_regions(b, cells)
    for cell, ref in sorted(R2L_REF.items()):
        if cell not in cells:
            R.inst(ROLE_R2L, "resp->lua:" + cell, {"arm": None})
            R.finding(ROLE_R2L, "resp->lua:%s:no-arm" % cell, "no conversion arm for %s replies" % cell, b.loc()); continue
        n += 1
        sw, tb = cells[cell]
        reg = regions[cell]
        got = _built(b, reg, LUAVAL)
        errs = [y for y in reg if b.term(y)["k"] == "call" and callee(b.term(y)) == LE + "handle_command_error_with_context"]
        # a failed allocation inside the arm also goes through the error helper: only the Error arm
        # counts it as the conversion itself
        if cell == "Error":
            got = got | ({"error"} if errs else set())
        R.inst(ROLE_R2L, "resp->lua:" + cell, {"builds": sorted(got), "reference": sorted(ref)})
        if got != ref:
            R.finding(ROLE_R2L, "resp->lua:%s:%s" % (cell, "+".join(sorted(got)) or "nothing"),
                      "a %s reply is converted to Lua %s; the standard conversion gives %s" % (cell, "/".join(sorted(got)) or "nothing", "/".join(sorted(ref))), b.loc(tb))
        if cell == "Array/Some":
            sets = []; pushes = []
            for y in reg:
                t = b.term(y)
                if t["k"] != "call":
                    continue
                f = t["f"] or ""
                if re.search(r"^mlua::Table::(set|raw_set)(::<.*>)?$", f):
                    sets.append(y)
                elif re.search(r"^mlua::Table::(push|raw_push|insert|raw_insert)(::<.*>)?$", f):
                    pushes.append(y)
            pos_ok = False
            for y in sets:
                t = b.term(y)
                if len(t["a"]) > 1 and not op_is_const(t["a"][1]):
                    P = prov.operand_origins(b, t["a"][1])
                    if P.has_call(r"Iterator>::(next|enumerate)|iter::range"):
                        pos_ok = True
            R.inst(ROLE_R2L, "resp->lua:Array/Some:positions", {"indexed_stores": len(sets), "appends": len(pushes), "index_from_loop_counter": pos_ok})
            if pushes or not pos_ok:
                y = (pushes or sets or [tb])[0]
                R.finding(ROLE_R2L, "resp->lua:Array/Some:positions", "array elements are %s (line %d): a nil element does not occupy its slot, so every later element of the reply moves down one index" % ("appended to the table instead of being stored at their position" if pushes else "not stored at an index derived from their position", b.bb_line(y)), b.loc(y))
    R.floor("resp_to_lua_cells", n)
    # pcall error value
    hb = ctx.prog.need(LE + "handle_command_error_with_context")
    got = _built(hb, set(range(len(hb.bbs))), LUAVAL)
    R.inst(hb.fn, "resp->lua:Error/pcall", {"builds": sorted(got), "reference": ["Table"]})
    if got != {"Table"}:
        R.finding(hb.fn, "resp->lua:Error/pcall:%s" % ("+".join(sorted(got)) or "nothing"), "under redis.pcall an error reply becomes Lua %s; the standard conversion gives a table with an `err` field" % ("/".join(sorted(got)) or "nothing"), hb.loc())
    # ---- Lua -> RESP
    # the Lua -> RESP conversion is found by its shape (a function of the Lua engine returning a
    # RespFrame that matches on a parameter of type mlua::Value), not by its name
    b = None; cells = None
    for fn_, fb in sorted(ctx.prog.bodies.items()):
        if not fn_.startswith(LE) or fb.kind == "Closure" or fb.locals[0] != "protocol::resp::RespFrame":
            continue
        for p_ in range(1, fb.nargs + 1):
            if re.match(r"^mlua::(value::)?Value$", fb.locals[p_]):
                c_ = _cells(ctx, fb, p_, None)
                if c_ and (cells is None or len(c_) > len(cells)):
                    b, cells = fb, c_
    if not cells:
        R.broken.append("no function of the Lua engine matches on a mlua::Value and returns a RespFrame"); return
    m = 0
    regions = _cell_regions(b, cells)
    for cell, ref in sorted(L2R_REF.items()):
        if cell not in cells and "_otherwise" not in cells:
            R.inst(ROLE_L2R, "lua->resp:" + cell, {"arm": None, "cells": sorted(cells)})
            R.finding(ROLE_L2R, "lua->resp:%s:no-arm" % cell, "no conversion arm for Lua %s values" % cell, b.loc()); continue
        m += 1
        sw, tb = cells.get(cell) or cells["_otherwise"]
        reg = regions.get(cell) or regions["_otherwise"]
        got = _built(b, reg, RESPV)
        R.inst(ROLE_L2R, "lua->resp:" + cell, {"builds": sorted(got), "reference": sorted(ref)})
        if got != ref:
            R.finding(ROLE_L2R, "lua->resp:%s:%s" % (cell, "+".join(sorted(got)) or "nothing"),
                      "a Lua %s is converted to RESP %s; the standard conversion gives %s" % (cell, "/".join(sorted(got)) or "nothing", "/".join(sorted(ref))), b.loc(tb))
        if cell == "Table":
            # the standard conversion takes t[1], t[2], ... up to the first nil
            seq = [y for y in reg if b.term(y)["k"] == "call" and re.search(r"^mlua::Table::(sequence_values|raw_sequence_values)(::<.*>)?$", b.term(y)["f"] or "")]
            gets = [y for y in reg if b.term(y)["k"] == "call" and re.search(r"^mlua::Table::(get|raw_get)(::<.*>)?$", b.term(y)["f"] or "")]
            loops = cfg.loops(b)
            stops = None
            if seq:
                stops = True
            elif gets:
                stops = False
                heads = [h for h, body in loops.items() if any(g in body for g in gets)]
                for y in reg:
                    t = b.term(y)
                    if t["k"] != "switch" or op_is_const(t["d"]):
                        continue
                    dl = op_local(t["d"])
                    for st in b.stmts(y):
                        if st["k"] == "=" and st["l"]["l"] == dl and st["r"]["k"] == "discr":
                            pl = st["r"]["p"]
                            ty = b.locals[pl["l"]]
                            inner = any(isinstance(e, dict) and "f" in e for e in pl["p"])
                            is_val = bool(re.match(r"^mlua::(value::)?Value$", ty)) or (inner and "mlua::Value" in ty.replace("value::", ""))
                            if is_val and pl["l"] > b.nargs:
                                nil_t = dict(t["ts"]).get(0)
                                if nil_t is not None and heads and all(h not in cfg.fwd(b, [nil_t]) for h in heads):
                                    stops = True
            R.inst(ROLE_L2R, "lua->resp:Table:first-nil", {"sequence_iterator": bool(seq), "indexed_gets": len(gets), "loop_left_on_nil": stops})
            if stops is False:
                R.finding(ROLE_L2R, "lua->resp:Table:continues-past-nil",
                          "the table -> array conversion fetches elements by index (line %d) without leaving its loop at the first nil element: a table with a hole (`{1, nil, 3}`) yields a nil element and the elements behind it, where the standard conversion ends the array at the first nil" % b.bb_line(gets[0]), b.loc(gets[0]))
    R.floor("lua_to_resp_cells", m)


def rule_pcall(ctx, R):
    """redis.pcall lets the script continue: in the body shared by redis.call and redis.pcall
    every error that can be returned to the Lua VM is raised by the one helper that looks at
    `is_pcall` (errors of the Lua API itself, e.g. Table::set, excepted).  An error constructed
    anywhere else aborts the script under pcall too."""
    import errflow
    fn = LE + "execute_unified_redis_command"
    b = ctx.prog.need(fn)
    helper = LE + "handle_command_error_with_context"
    hb = ctx.prog.need(helper)
    # the helper really switches on its bool parameter
    sw = False
    for x, bb in enumerate(hb.bbs):
        t = bb["t"]
        if t["k"] == "switch" and not op_is_const(t["d"]):
            P = prov.operand_origins(hb, t["d"])
            if any(hb.locals[p] == "bool" for p in P.params()):
                sw = True
    R.inst(helper, "pcall-switch", {"helper_branches_on_is_pcall": sw})
    if not sw:
        R.finding(helper, "pcall:helper-ignores-flag", "the error helper does not branch on is_pcall: redis.pcall behaves like redis.call", hb.loc())
    E = errflow.ErrFlow(ctx)
    org = E.origins(fn)
    bad = {}
    for o in org:
        if o[0] == "ctor" and o[1] == helper:
            continue
        if o[0] == "extern" and o[1].startswith("mlua::"):
            continue
        if o[0] == "param":
            continue
        where = o[1] if o[0] == "ctor" else (o[2] or o[1])
        bad.setdefault(where, o)
    R.inst(fn, "error-origins", {"origins": len(org), "functions_followed": len(E.memo), "outside_the_pcall_helper": sorted(bad)})
    R.floor("error_origins_of_redis_call_body", len(org))
    for where, o in sorted(bad.items()):
        wb = ctx.prog.bodies.get(where)
        loc = "%s:%s" % (wb.file, o[-1]) if wb is not None and o[-1] else b.loc()
        R.finding(fn, "pcall:error-raised-outside-helper:%s" % where.split("::")[-1],
                  "an error returned to the Lua VM from the body shared by redis.call and redis.pcall is raised in %s, not by the helper that honours is_pcall: under redis.pcall this condition aborts the script instead of letting it continue" % where.split("::")[-1], loc)


# ---- R-LUA-REPLY-BUDGET -----------------------------------------------------------------------------
_INT_REF = re.compile(r"^&(mut )?(usize|u64|u32|i64|isize|std::cell::Cell<(usize|u64|u32)>|std::sync::atomic::Atomic\w+)$")


def rule_reply_budget(ctx, R):
    """the conversion of a script's return value runs after the script has finished -- outside
    the instruction hook -- and builds Rust values the Lua memory limit does not see.  Lua values
    are a graph (a table may be referenced many times, `__index` answers any index), so a depth
    limit does not bound the work.  Every loop of the Lua -> RESP conversion that reads the Lua
    state (mlua call inside the loop) has an exit decided by a Rust-side budget: an integer
    reached through a `&mut` / Cell / atomic parameter or field (shared by the whole conversion),
    compared inside the loop on an edge that leaves it, and written inside the loop."""
    n = 0
    for fn, b in sorted(ctx.prog.bodies.items()):
        if not fn.startswith(("storage::lua_engine::", "storage::commands::lua::")) or "::tests::" in fn:
            continue
        if not (b.locals[0] or "").endswith("protocol::resp::RespFrame") and "RespFrame" not in (b.locals[0] or ""):
            continue
        if not any(re.search(r"^mlua::(value::)?Value$|^mlua::(table::)?Table$", (b.locals[l] or "").lstrip("&")) for l in range(1, b.nargs + 1)):
            continue
        lps = cfg.loops(b)
        for h, body in sorted(lps.items()):
            def reads_lua(t):
                if re.match(r"^(<)?mlua::", t["f"] or ""):
                    return True
                # an iterator adaptor driven by the loop whose closure reads the Lua state
                for c in t.get("clos") or ():
                    cb = ctx.prog.bodies.get(c)
                    if cb is not None and any(re.match(r"^(<)?mlua::", tt["f"] or "") for _, _, tt in shared.deep_calls(ctx, cb)):
                        return True
                return False
            lua_reads = [i for i in body if b.term(i)["k"] == "call" and not b.bbs[i]["cleanup"] and reads_lua(b.term(i))]
            if not lua_reads:
                continue
            n += 1
            budget_exit = None; written = False
            brefs = [l for l in range(1, b.nargs + 1) if _INT_REF.match(b.locals[l] or "")]
            for i in sorted(body):
                t = b.term(i)
                if t["k"] != "switch" or op_is_const(t["d"]):
                    continue
                leaves = [x for x in [v for _, v in t["ts"]] + [t["o"]] if x not in body]
                if not leaves:
                    continue
                P = prov.operand_origins(b, t["d"], deep=True)
                lua = any(r[0] == "call" and re.match(r"^(<)?mlua::", r[1]) for r in P.roots) or any(re.match(r"^(<)?mlua::", c) for c, _ in P.via)
                rng = any(r[0] == "call" and re.search(r"RangeFrom<.*> as std::iter::Iterator>::next", r[1]) for r in P.roots) or any(re.search(r"RangeFrom<.*> as std::iter::Iterator>::next", c) for c, _ in P.via)
                shared_int = bool(P.params() & set(brefs)) or any(re.search(r"Atomic\w+::load|Cell::<.*>::get", c) for c, _ in P.via) or any(r[0] == "call" and re.search(r"Atomic\w+::(load|fetch_sub|fetch_add)|Cell::<.*>::get", r[1]) for r in P.roots)
                if shared_int and not lua and not rng:
                    budget_exit = i
            for i in body:
                for st in b.bbs[i]["s"]:
                    if st["k"] == "=" and "*" in st["l"]["p"] and st["l"]["l"] in brefs:
                        written = True
                t = b.term(i)
                if t["k"] == "call" and re.search(r"Atomic\w+::(fetch_sub|fetch_add|store)|Cell::<.*>::set", t["f"] or ""):
                    written = True
            ok = budget_exit is not None and written
            R.inst(fn, "conversion-loop@bb%d" % 0, {"function": fn, "loop_at": b.loc(h), "reads_of_the_lua_state": len(lua_reads), "exit_decided_by_shared_budget": budget_exit is not None, "budget_written_in_loop": written})
            if not ok:
                R.finding(fn, "conversion-loop:no-element-budget",
                          "%s converts a script value in a loop (line %d) that reads the Lua state and has no exit decided by a budget shared by the whole conversion: a table whose __index never yields nil, or a small table that references one child many times (2^64 nodes at 64 levels), keeps the command thread converting for ever after the script has finished -- no client is served and memory grows without bound" % (fn.split("::")[-1], b.bb_line(h)), b.loc(h))
    R.floor("lua_to_resp_conversion_loops", n)


# ---- R-LUA-CACHE-KEEP -----------------------------------------------------------------------------
def rule_cache_keep(ctx, R):
    """a loaded script stays loaded until SCRIPT FLUSH: in the script cache, entries leave the
    source map (`remove`, `retain`, `drain`, `clear`, `pop*`) only in functions that do not also
    store a script -- i.e. the flush path.  Eviction on the load path makes EVALSHA of a loaded,
    never-flushed script answer NOSCRIPT."""
    n = 0; stores = 0
    MAP = r"HashMap::<std::string::String, std::string::String>::"
    for fn, b in sorted(ctx.prog.bodies.items()):
        if not fn.startswith("storage::lua_cache::") or "::tests::" in fn or b.kind == "Closure":
            continue
        calls = list(shared.deep_calls(ctx, b))
        ins = [(body, i) for body, i, t in calls if re.search(MAP + r"(insert|entry)(::<.*>)?$", t["f"] or "")]
        rem = [(body, i) for body, i, t in calls if re.search(MAP + r"(remove|remove_entry|retain|drain|clear|extract_if)(::<.*>)?$", t["f"] or "")]
        stores += len(ins)
        if not rem:
            continue
        n += 1
        bad = bool(ins)
        R.inst(fn, "cache-removal", {"function": fn, "removals": len(rem), "also_stores_a_script": bad})
        if bad:
            body, i = rem[0]
            R.finding(fn, "cache-removal:on-the-load-path",
                      "%s takes entries out of the script cache (line %d) in the same function that stores a script: a loaded script can be evicted without SCRIPT FLUSH, and EVALSHA of it then answers NOSCRIPT while EVAL of its source works" % (fn.split("::")[-1], body.bb_line(i)), body.loc(i))
    R.inst("-", "script-cache", {"storing_calls": stores, "functions_that_remove": n})
    R.floor("script_cache_stores", stores)
