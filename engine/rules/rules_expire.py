"""C02 rules: R-EXPIRE-X1 lazy expiry on every lookup, X2 sweeper re-check, X3 who writes a
deadline / TTL travels or is dropped as prescribed, X4 index in step."""
import re
from facts import callee, op_local, op_place, op_is_const
import cfg, shared, prov, boolpath
from shared import ENGINE, SHARD_MAP

LOOKUP = re.compile(SHARD_MAP + r"(get|get_mut|contains_key|entry|remove|iter|iter_mut|keys|values|values_mut|get_key_value|remove_entry|len|is_empty)\b")
IS_EXPIRED = re.compile(r"^storage::value::(StoredValue|ValueMetadata)::is_expired$")
SWEEPER = ENGINE + "expiration_cleanup_loop"


def lookups(b):
    out = []
    for i, t in b.calls():
        m = LOOKUP.search(t["f"])
        if m:
            out.append((i, m.group(1), t))
    return out


def expiry_checked_lookups(b, ctx=None):
    """set of lookup blocks whose result flows into an is_expired() receiver -- directly, or as the
    subject of an Option/iterator adaptor whose closure calls is_expired() on its argument
    (`data.get(k).map_or(false, |v| !v.is_expired())`, `.filter(|v| !v.is_expired())`)"""
    ok = set()
    stop = re.compile(SHARD_MAP)
    if ctx is not None:
        for i, t in b.calls():
            if not t.get("clos") or not t["a"] or op_is_const(t["a"][0]):
                continue
            checks = False
            for c in t["clos"]:
                cb = ctx.prog.bodies.get(c)
                if cb is None:
                    continue
                for j, tj in cb.calls():
                    if IS_EXPIRED.match(callee(tj)) and tj["a"] and not op_is_const(tj["a"][0]):
                        Pc = prov.operand_origins(cb, tj["a"][0])
                        if any(r[0] == "param" and r[1] >= 2 for r in Pc.roots):
                            checks = True
            if checks:
                P = prov.operand_origins(b, t["a"][0], stop_calls=stop)
                for r in P.roots:
                    if r[0] == "call" and LOOKUP.search(r[1]):
                        ok.add(r[2])
    for i, t in b.calls():
        if not IS_EXPIRED.match(callee(t)):
            continue
        P = prov.operand_origins(b, t["a"][0], stop_calls=stop)
        for r in P.roots:
            if r[0] == "call" and LOOKUP.search(r[1]):
                ok.add(r[2])
    return ok


def x1_compliant_methods(ctx):
    """engine methods all of whose lookups are expiry-checked (or that have none and only
    use compliant methods)"""
    def compute():
        res = {}
        for fn, b in shared.engine_bodies(ctx.prog).items():
            lk0 = [(i, m) for i, m, _ in lookups(b) if not shared.is_purge_block(b, i)]
            # a `remove` that is dominated by another lookup of the map (get_mut ... then remove
            # the emptied key) is not a lookup of its own
            prim = [i for i, m in lk0 if m not in ("remove", "remove_entry", "len", "is_empty") ]
            lk = [(i, m) for i, m in lk0 if not (m in ("remove", "remove_entry") and any(cfg.dominates(b, j, i) and j != i for j in prim))]
            ok = expiry_checked_lookups(b, ctx)
            res[fn] = (lk, ok)
        return res
    return ctx.memo("x1", compute)


def rule_x1(select=None):
    def rule(ctx, R):
        table = x1_compliant_methods(ctx)
        api = shared.engine_api(ctx.prog)
        nm = 0; nl = 0
        for fn in sorted(table):
            if select and not select(ctx, fn):
                continue
            # only ENGINE-API methods and the private helpers they use that touch the map
            lk, ok = table[fn]
            b = ctx.prog.bodies[fn]
            if fn == SWEEPER:
                continue
            if not lk:
                R.trivial(); continue
            if any(re.search(SHARD_MAP + r"clear\b", t["f"]) for _, t in b.calls()):
                # whole-map flush: everything is removed whether expired or not
                R.trivial(); continue
            nm += 1
            counts = {}
            bad = []
            for i, m in lk:
                nl += 1
                k = counts.get(m, 0); counts[m] = k + 1
                desc = "lookup:%s#%d" % (m, k)
                R.inst(fn, desc, {"method": fn[len(ENGINE):], "lookup": m, "at": b.loc(i), "expiry_checked": i in ok})
                if i not in ok:
                    bad.append((i, m))
            if bad:
                # one finding per method: the key does not depend on the lookup idiom (get_mut / entry / get)
                i, m = bad[0]
                R.finding(fn, "lookup-without-expiry-check",
                          "%s uses shard-map lookup `%s` (line %d%s) without consulting is_expired(): a key past its deadline is treated as present until the sweeper runs"
                          % (fn.split("::")[-1], m, b.bb_line(i), ", and %d more" % (len(bad) - 1) if len(bad) > 1 else ""), b.loc(i))
        R.floor("methods_with_lookups", nm)
        R.floor("lookup_sites", nl)
    return rule


def rule_x2(ctx, R):
    """sweeper: every removal from the shard map is control-dependent on is_expired()==true of
    the stored value, under the same write guard"""
    b = ctx.prog.need(SWEEPER)
    rem = [(i, t) for i, t in b.calls() if re.search(SHARD_MAP + r"(remove|remove_entry|clear|retain|drain)\b", t["f"])]
    R.floor("sweeper_removals", len(rem))
    for k, (i, t) in enumerate(rem):
        ok = shared.is_purge_block(b, i)
        if ok:
            # the is_expired receiver must be the stored value (from the shard map), and no
            # guard release between the test and the removal
            ok = False
            for j, tt in b.calls():
                if IS_EXPIRED.match(callee(tt)) and shared.from_dataset(b, tt["a"][0]) and cfg.dominates(b, j, i):
                    between = cfg.fwd(b, b.succs(j), cut=[i]) & cfg.bwd(b, b.preds()[i], cut=[j])
                    released = any(b.term(x)["k"] == "call" and re.search(r"RwLock::<storage::engine::DatabaseShard>::(write|read)$", b.term(x)["f"] or "")
                                   for x in between if x != j)
                    if not released:
                        ok = True
        R.inst(SWEEPER, "remove#%d" % k, {"removal_at": b.loc(i), "dominated_by_is_expired_of_stored_value": ok})
        if not ok:
            R.finding(SWEEPER, "remove#%d:not-rechecked" % k,
                      "the sweeper deletes a key (line %d) on the strength of the expiry index alone, without re-checking the stored value's deadline under the write lock: a key whose TTL was removed or extended (SET over it, PERSIST, EXPIRE) is deleted spuriously"
                      % b.bb_line(i), b.loc(i))


PT_PLUMB = re.compile(prov.PASS_THROUGH.pattern[:-1] +
                      r"|^std::option::Option::<.*>::(ok_or|ok_or_else|map|filter)(::<.*>)?$|^std::result::Result::<.*>::(map_err|map)(::<.*>)?$)")
META_WRITERS_OK = ("storage::value::ValueMetadata::new", "storage::value::ValueMetadata::with_expiration",
                   "storage::value::ValueMetadata::set_expiration", "storage::value::ValueMetadata::clear_expiration",
                   "<storage::value::ValueMetadata as std::default::Default>::default")


def rule_x3(ctx, R):
    """who may write a deadline; in-place mutators never touch it; whole-value setters insert a
    fresh StoredValue; RENAME inserts the StoredValue it removed."""
    nw = 0
    # (a) writers of ValueMetadata.expires_at
    for fn, b in ctx.prog.bodies.items():
        if "::tests::" in fn:
            continue
        for i, bb in enumerate(b.bbs):
            for st in bb["s"]:
                if st["k"] != "=":
                    continue
                fields = [e["f"] for e in st["l"]["p"] if isinstance(e, dict) and "f" in e]
                agg = st["r"]["k"] == "agg" and st["r"]["a"].startswith("storage::value::ValueMetadata::")
                if (fields and fields[-1] == "storage::value::ValueMetadata.expires_at") or agg or \
                   (fields and fields[-1] == "storage::value::StoredValue.metadata"):
                    nw += 1
                    R.inst(fn, "writes-expires_at", {"writer": fn, "at": "%s:%s" % (b.file, st.get("line"))})
                    ok = fn in META_WRITERS_OK or fn in ("storage::value::StoredValue::new", "storage::value::StoredValue::with_expiration") \
                        or (b.trait == "std::clone::Clone" and b.self_ty.startswith("storage::value::"))
                    if not ok:
                        R.finding(fn, "writes-expires_at", "deadline field written outside the ValueMetadata constructors/setters", "%s:%s" % (b.file, st.get("line")))
    R.floor("deadline_writers", nw)
    # (b) callers of set_expiration / clear_expiration: dedicated TTL functions only
    dm = shared.direct_mutators(ctx)
    nc = 0
    for fn, b in shared.engine_bodies(ctx.prog).items():
        calls = [(i, callee(t)) for i, t in b.calls() if callee(t) in ("storage::value::ValueMetadata::set_expiration", "storage::value::ValueMetadata::clear_expiration")]
        if not calls:
            continue
        sites, stores = dm.get(fn, ([], []))
        other = [shared.short_callee(f) for (i, k, f) in sites if "ValueMetadata" not in f]
        for i, c in calls:
            nc += 1
            R.inst(fn, "ttl-setter:" + c.split("::")[-1], {"function": fn, "calls": c.split("::")[-1], "other_mutations_in_function": other})
            if other or stores:
                R.finding(fn, "ttl-touched-by-mutator:" + c.split("::")[-1],
                          "%s is called from a function that also modifies the value (%s): the TTL must survive in-place modifications" % (c.split("::")[-1], other), b.loc(i))
    R.floor("ttl_setter_call_sites", nc)
    # (c) every insert into the shard map: fresh StoredValue, or (rename) the removed one
    ni = 0
    stop = re.compile(SHARD_MAP + r"|^storage::value::StoredValue::(new|with_expiration)")
    for fn, b in shared.engine_bodies(ctx.prog).items():
        k = 0
        for i, t in b.calls():
            if not re.search(SHARD_MAP + r"insert\b", t["f"]):
                continue
            ni += 1
            P = prov.operand_origins(b, t["a"][2], stop_calls=stop, pass_through=PT_PLUMB) if len(t["a"]) >= 3 else None
            calls = sorted({shared.short_callee(r[1]) for r in P.roots if r[0] == "call"}) if P else []
            fresh = any(c.startswith("StoredValue::") for c in calls) or (P is not None and any(r[0] == "agg" and r[1].startswith("storage::value::StoredValue") for r in P.roots))
            moved = any(c == "HashMap::remove" for c in calls)
            looked = any(c in ("HashMap::get", "HashMap::get_mut") for c in calls)
            desc = "insert#%d" % k; k += 1
            R.inst(fn, desc, {"function": fn[len(ENGINE):], "at": b.loc(i), "stored_value_origin": calls})
            is_rename = bool([1 for _, tt in b.calls() if re.search(SHARD_MAP + r"remove\b", tt["f"])]) and not fresh
            if moved and not fresh:
                continue      # the StoredValue (value + metadata) travels as a whole
            if fresh and not moved and not looked:
                continue      # fresh value, TTL decided by the constructor
            R.finding(fn, desc + ":stored-value-origin",
                      "value inserted into the key space is neither a freshly constructed StoredValue nor the StoredValue removed from the old key (origins: %s): TTL would not be dropped on overwrite / would not travel on rename" % calls, b.loc(i))
    R.floor("shard_map_inserts", ni)
    # (d) RENAME moves the entry as a whole: it never writes the `.value` of an entry that is
    # already in the map (the destination would keep its own metadata, i.e. its own TTL)
    rb = ctx.prog.bodies.get(ENGINE + "rename")
    if rb is not None:
        bad = None
        VAL = "storage::value::StoredValue.value"
        for i, bb in enumerate(rb.bbs):
            if bb.get("cleanup"):
                continue
            for st in bb["s"]:
                if st["k"] == "=" and "*" in st["l"]["p"] and any(isinstance(e, dict) and e.get("f") == VAL for e in st["l"]["p"]) and shared.from_dataset(rb, {"cp": {"l": st["l"]["l"], "p": []}}):
                    bad = bad or i
            t = bb["t"]
            if t["k"] == "call" and re.search(r"^std::mem::(replace|swap|take)::<", t["f"] or "") and t["a"] and not op_is_const(t["a"][0]):
                P = prov.operand_origins(rb, t["a"][0])
                if VAL in P.fields and shared.from_dataset(rb, t["a"][0]):
                    bad = bad or i
        R.inst(rb.fn, "rename-moves-whole-entry", {"writes_value_of_an_existing_entry": bad is not None})
        if bad is not None:
            R.finding(rb.fn, "rename:value-without-metadata",
                      "rename writes the `.value` of an entry that is already in the map (line %d) instead of putting the removed StoredValue there as a whole: the destination keeps its own metadata, so the TTL does not travel with the value (and a destination without TTL makes the key immortal)" % rb.bb_line(bad), rb.loc(bad))


# commands that replace the whole value (and with it the TTL) or only remove / retime the key; every
# other writing command of the catalogue modifies the value in place and must keep the TTL
WHOLE_VALUE = {"SET", "MSET", "GETSET", "SETNX", "SETEX", "PSETEX", "RENAME", "RENAMENX", "FLUSHDB", "FLUSHALL",
               "DEL", "EXPIRE", "PEXPIRE", "PERSIST"}
MAP_LOOKUP = re.compile(SHARD_MAP + r"(get|get_mut|get_key_value|remove|remove_entry)\b")


OPT_SHAPE_PT = re.compile(prov.PASS_THROUGH.pattern[:-1] + r"|^std::option::Option::<.*>::(map|inspect|as_deref_mut)(::<.*>)?$)")


class AbsentSpec(boolpath.Spec):
    """evidence: the key has no live entry (lookup returned None, contains_key false, entry expired)"""

    def _from_lookup(s, b, o):
        if op_is_const(o):
            return False
        pl = op_place(o)
        if "Option<" not in b.locals[pl["l"]]:
            return False
        # through shape-preserving Option adaptors: `data.get_mut(k).map(|sv| &mut sv.value)`
        P = prov.origins(b, pl["l"], stop_calls=re.compile(SHARD_MAP), pass_through=OPT_SHAPE_PT)
        return any(r[0] == "call" and MAP_LOOKUP.search(r[1]) for r in P.roots)

    def call(s, b, bbi, t):
        f = t["f"] or ""
        if re.search(SHARD_MAP + r"contains_key\b", f):
            return boolpath.N
        if IS_EXPIRED.match(callee(t)):
            return boolpath.A
        m = boolpath.OPTION_TEST.match(f)
        if m and t["a"] and s._from_lookup(b, t["a"][0]):
            return {"is_none": boolpath.A, "is_some": boolpath.N}.get(m.group(1))
        return None

    def edges(s, b, bbi, t):
        return boolpath.none_edge(b, bbi, t, s._from_lookup)


def rule_keep(ctx, R):
    """`the TTL survives in-place modifications`: in the engine methods behind the commands that
    modify a value in place, a freshly constructed StoredValue (fresh metadata = no TTL) is put
    into the key space only where the key has no live entry"""
    import rules_cmd
    arms = rules_cmd.dispatch_arms(ctx)
    eng = shared.engine_bodies(ctx.prog)
    inplace = sorted(n for n, (eff, _) in rules_cmd.SPEC.items() if eff == "W" and n not in WHOLE_VALUE)
    methods = {}
    for n in inplace:
        a = arms.get(n)
        if a is None:
            continue
        for fn in a["reach"]:
            if fn in eng:
                methods.setdefault(fn, []).append(n)
    stop = re.compile(SHARD_MAP + r"|^storage::value::StoredValue::(new|with_expiration)")
    ns = 0
    for fn in sorted(methods):
        b = eng[fn]
        sites = []
        for i, t in b.calls():
            if re.search(SHARD_MAP + r"insert\b", t["f"] or "") and len(t["a"]) >= 3:
                P = prov.operand_origins(b, t["a"][2], stop_calls=stop)
                if any(r[0] == "call" and r[1].startswith("storage::value::StoredValue::") for r in P.roots) or \
                   any(r[0] == "agg" and r[1].startswith("storage::value::StoredValue") for r in P.roots):
                    sites.append(i)
        if not sites:
            R.trivial(); continue
        try:
            ex = boolpath.explore(b, AbsentSpec())
        except boolpath.TooManyStates as e:
            R.broken.append(str(e)); continue
        for k, i in enumerate(sites):
            ns += 1
            ok = i not in ex.reached
            R.inst(fn, "fresh-insert#%d" % k, {"method": fn[len(ENGINE):], "commands": methods[fn][:4], "at": b.loc(i), "only_when_key_absent_or_expired": ok})
            if not ok:
                R.finding(fn, "fresh-insert#%d:over-live-entry" % k,
                          "%s (reached from %s) stores a freshly constructed StoredValue (line %d) on a path on which the key can hold a live entry: the entry's TTL is dropped by what the property calls an in-place modification"
                          % (fn.split("::")[-1], "/".join(methods[fn][:4]), b.bb_line(i)), b.loc(i),
                          ["bb%d line %d" % (x, b.bb_line(x)) for x in ex.witness(b, i)][-10:])
    R.floor("fresh_insert_sites", ns)


_MOVED_PT = re.compile(prov.PASS_THROUGH.pattern[:-1] + r"|^std::option::Option::<.*>::(ok_or|ok_or_else|map|filter)(::<.*>)?$)")


def rule_x4(ctx, R):
    """index in step (missing-entry direction only): a function that stores a value with a
    deadline (with_expiration / set_expiration) also inserts into expiring_keys; a function that
    clears a deadline removes the entry."""
    n = 0
    IDX = r"std::collections::HashMap::<std::vec::Vec<u8>, std::time::Instant>::"
    for fn, b in shared.engine_bodies(ctx.prog).items():
        sets = [i for i, t in b.calls() if callee(t) in ("storage::value::StoredValue::with_expiration", "storage::value::ValueMetadata::set_expiration")]
        clears = [i for i, t in b.calls() if callee(t) == "storage::value::ValueMetadata::clear_expiration"]
        ins = [i for i, t in b.calls() if re.search(IDX + r"insert\b", t["f"])]
        rem = [i for i, t in b.calls() if re.search(IDX + r"remove\b", t["f"])]
        for i in sets:
            n += 1
            ok = any(j in cfg.fwd(b, [i]) for j in ins)
            R.inst(fn, "deadline-set", {"function": fn[len(ENGINE):], "at": b.loc(i), "index_insert_reachable": ok})
            if not ok:
                R.finding(fn, "deadline-set:no-index-insert", "a deadline is stored (line %d) but no entry is added to the expiry index: the key would never be swept" % b.bb_line(i), b.loc(i))
        for i in clears:
            n += 1
            ok = any(j in cfg.fwd(b, [i]) for j in rem)
            R.inst(fn, "deadline-cleared", {"function": fn[len(ENGINE):], "at": b.loc(i), "index_remove_reachable": ok})
            if not ok:
                R.finding(fn, "deadline-cleared:no-index-remove", "deadline cleared (line %d) without removing the expiry-index entry" % b.bb_line(i), b.loc(i))
    # moved entries: a whole StoredValue taken out of the map (remove / take) and stored under
    # another key carries its deadline along: the index entry has to be made for the new key
    nm_ = 0
    for fn, b in shared.engine_bodies(ctx.prog).items():
        ins = [i for i, t in b.calls() if re.search(IDX + r"insert\b", t["f"])]
        for i, t in b.calls():
            if b.bbs[i]["cleanup"] or not re.search(SHARD_MAP + r"insert\b", t["f"] or "") or len(t["a"]) < 3 or op_is_const(t["a"][2]):
                continue
            P = prov.operand_origins(b, t["a"][2], stop_calls=re.compile(SHARD_MAP), pass_through=_MOVED_PT)
            moved = [r for r in P.roots if r[0] == "call" and re.search(SHARD_MAP + r"(remove|remove_entry)\b", r[1])]
            if not moved:
                continue
            nm_ += 1
            ok = any(j in cfg.fwd(b, [i]) | cfg.bwd(b, [i]) for j in ins)
            R.inst(fn, "moved-entry", {"function": fn[len(ENGINE):], "at": b.loc(i), "index_entry_made_for_the_new_key": ok})
            if not ok:
                R.finding(fn, "moved-entry:index-not-moved",
                          "%s stores an entry it took out of the map (line %d) under another key without adding that key to the expiry index: the value keeps its deadline but the sweeper never visits the new key (SET src v PX 300; RENAME src dst: dst is never deleted at its deadline, it stays visible to TYPE / KEYS / DBSIZE)" % (fn.split("::")[-1], b.bb_line(i)), b.loc(i))
    R.floor("moved_entry_sites", nm_)
    R.floor("deadline_sites", n)


EXP_INDEX = "storage::engine::DatabaseShard.expiring_keys"
INDEX_READ = re.compile(r"^std::collections::HashMap::<std::vec::Vec<u8>, std::time::Instant>::(get|get_mut|iter|iter_mut|contains_key|values|values_mut|keys|get_key_value|drain|retain|into_iter|entry)(::<.*>)?$"
                        r"|as std::iter::IntoIterator>::into_iter$")


def rule_index_read(ctx, R):
    """the expiry index is a hint for the sweeper and can be stale (RENAME moves a value with its
    TTL, SET over a key drops the TTL, without touching the index; the sweeper re-checks, X2): a
    deadline that is reported, persisted or acted on must come from the stored value's own
    metadata -- nobody but the sweeper reads the contents of the index"""
    n = 0; readers = {}
    for fn, b in sorted(ctx.prog.bodies.items()):
        if not fn.startswith("storage::") or "::tests::" in fn:
            continue
        for i, t in b.calls():
            f = t["f"] or ""
            if not INDEX_READ.search(f) or not t["a"] or op_is_const(t["a"][0]) or b.bbs[i].get("cleanup"):
                continue
            P = prov.operand_origins(b, t["a"][0])
            if EXP_INDEX not in P.fields:
                continue
            n += 1
            readers.setdefault(fn, []).append(i)
    for fn, sites in sorted(readers.items()):
        b = ctx.prog.bodies[fn]
        ok = fn == SWEEPER or fn.startswith(SWEEPER + "::")
        R.inst(fn, "expiry-index-read", {"function": fn, "sites": len(sites), "is_sweeper": ok})
        if not ok:
            R.finding(fn, "expiry-index-read:outside-sweeper",
                      "%s reads a deadline from the shard's expiry index (line %d); the index is only a sweeper hint and goes stale on RENAME / SET over a key with a TTL, so the deadline used here can belong to another incarnation of the key" % (fn.split("::")[-1], b.bb_line(sites[0])), b.loc(sites[0]))
    R.floor("expiry_index_reads", n)
