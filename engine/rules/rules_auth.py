"""C17 rules: R-AUTH-GATE, R-AUTH-SET, R-AUTH-FAIL."""
import re
from facts import callee, op_local, op_place, promoted_consts, const_int
import cfg, shared, prov
from shared import SERVER, ENGINE

PF = SERVER + "process_frame"
PC = SERVER + "process_connection"
AUTHD = "network::connection::ConnectionState::Authenticated"
PRIV_PREFIX = ("pubsub::PubSubManager::", "replication::", "storage::rdb::RdbEngine::", "storage::aof::AofEngine::",
               "storage::commands::lua::", "storage::lua_engine::", "network::blocking::BlockingManager::",
               "storage::commands::executor::", "monitor::MonitorSubscribers::subscribe", "storage::lua_cache::",
               "storage::monitor::StorageMonitor::", "network::monitoring::")
CONN_FIELDS_PRIV = ("network::connection::Connection.db_index", "network::connection::Connection.transaction_state",
                    "network::connection::Connection.is_monitoring", "network::connection::Connection.name",
                    "network::connection::Connection.state")


def privileged_fns(ctx):
    def compute():
        priv = set(shared.engine_api(ctx.prog))
        for fn, b in ctx.prog.bodies.items():
            if fn.startswith(PRIV_PREFIX) and "::tests::" not in fn:
                priv.add(fn)
            # closures/functions writing per-connection state
            for bb in b.bbs:
                for st in bb["s"]:
                    if st["k"] == "=":
                        for e in st["l"]["p"]:
                            if isinstance(e, dict) and e.get("f") in CONN_FIELDS_PRIV:
                                if not fn.startswith("network::connection::Connection::"):
                                    priv.add(fn)
        return priv
    return ctx.memo("privileged_fns", compute)


def is_priv_site(ctx, t, cache):
    roots = [callee(t)] + list(t["clos"])
    for r in roots:
        if r not in cache:
            cache[r] = bool(ctx.cg.reach([r]) & privileged_fns(ctx))
        if cache[r]:
            return True
    return False


def password_tests(b):
    """T1: is_some/is_none on the configured password: [(bb, switch_bb, target_when_password_set, target_when_none)]"""
    out = []
    for i, t in b.calls():
        m = re.search(r"std::option::Option::<.*>::(is_some|is_none)$", t["f"] or "")
        if not m or not t["a"]:
            continue
        P = prov.operand_origins(b, t["a"][0])
        if not any(f.endswith("NetworkConfig.password") for f in P.fields):
            continue
        sw = shared._follow_to_switch(b, t["t"], t["d"]["l"]) if t["t"] >= 0 else None
        if sw is None:
            continue
        sbb, st = sw
        zero = dict(st["ts"]).get(0)
        if zero is None:
            continue
        if m.group(1) == "is_some":
            out.append((i, sbb, st["o"], zero))
        else:
            out.append((i, sbb, zero, st["o"]))
    return out


def state_tests(ctx, b):
    """T2: comparison of a ConnectionState with Authenticated:
    [(bb, switch_bb, target_if_authenticated, target_if_not)]"""
    out = []
    for i, t in b.calls():
        d = t["def"]
        if not (d.endswith("::eq") or d.endswith("::ne")) or "ConnectionState" not in (t["f"] or ""):
            continue
        isauth = False
        for a in t["a"]:
            pc = shared._promoted_through_ref(b, i, a)
            if pc and any(x.get("agg") == AUTHD for x in pc):
                isauth = True
            else:
                P = prov.operand_origins(b, a)
                if any(r[0] == "agg" and r[1] == AUTHD for r in P.roots):
                    isauth = True
        if not isauth or t["t"] < 0:
            continue
        sw = shared._follow_to_switch(b, t["t"], t["d"]["l"])
        if sw is None:
            continue
        sbb, st = sw
        zero = dict(st["ts"]).get(0)
        if zero is None:
            continue
        if d.endswith("::ne"):
            out.append((i, sbb, zero, st["o"]))
        else:
            out.append((i, sbb, st["o"], zero))
    # matches!(state, Authenticated): discriminant switch on a ConnectionState place
    dv = ctx.prog.variant_discr("network::connection::ConnectionState", "Authenticated")
    for i, bb in enumerate(b.bbs):
        t = bb["t"]
        if t["k"] != "switch":
            continue
        dl = op_local(t["d"])
        for st in bb["s"]:
            if st["k"] == "=" and st["l"]["l"] == dl and st["r"]["k"] == "discr":
                ty = b.locals[st["r"]["p"]["l"]]
                if "ConnectionState" in ty and not [e for e in st["r"]["p"]["p"] if e != "*" and not (isinstance(e, dict) and e.get("f", "").endswith("Connection.state"))]:
                    ts = dict(t["ts"])
                    if dv in ts and len(ts) == 1:
                        out.append((i, i, ts[dv], t["o"]))
    return out


ALLOWED_PREAUTH = (SERVER + "handle_auth", SERVER + "handle_ping")


def rule_gate(ctx, R):
    b = ctx.prog.need(PF)
    t1 = password_tests(b); t2 = state_tests(ctx, b)
    if not t1 or not t2:
        R.inst(PF, "gate")
        R.finding(PF, "gate:missing", "no authentication gate (password.is_some() && state != Authenticated) found in process_frame", b.loc())
        return
    # the gate: a T2 whose block is reachable from T1's password-set edge
    gate = None
    for (a, asw, a_set, a_none) in t1:
        for (c, csw, c_auth, c_not) in t2:
            if c in cfg.fwd(b, [a_set]):
                gate = (a, asw, a_set, a_none, c, csw, c_auth, c_not); break
        if gate:
            break
    if gate is None:
        R.inst(PF, "gate")
        R.finding(PF, "gate:missing", "password test and state test are not combined into a gate", b.loc()); return
    a, asw, a_set, a_none, c, csw, c_auth, c_not = gate
    refuse = cfg.fwd(b, [c_not])
    R.inst(PF, "gate", {"password_test": b.loc(a), "state_test": b.loc(c), "refuse_region_blocks": len(refuse)})
    cache = {}
    npriv = 0
    for i, t in b.calls():
        if not is_priv_site(ctx, t, cache):
            continue
        cal = callee(t)
        short = shared.site_name(ctx, t)
        npriv += 1
        in_refuse = i in refuse
        dom = cfg.dominates(b, a, i)
        skip_t2 = cfg.path_avoiding(b, [a_set], [i], {c, csw}) is not None if i not in (c, csw) else False
        R.inst(PF, "priv:" + short, {"call": short, "at": b.loc(i), "dominated_by_gate": dom, "reachable_from_refuse_edge": in_refuse})
        if cal in ALLOWED_PREAUTH:
            continue
        if not dom or skip_t2:
            R.finding(PF, "priv:%s:before-gate" % short,
                      "privileged call %s (line %d) is not dominated by the authentication gate: an unauthenticated connection can reach it" % (short, b.bb_line(i)), b.loc(i))
        elif in_refuse:
            R.finding(PF, "priv:%s:on-refuse-edge" % short,
                      "privileged call %s (line %d) is reachable from the gate's refuse edge (password set, connection not authenticated)" % (short, b.bb_line(i)), b.loc(i),
                      witness=["bb%d %s" % (x, b.loc(x)) for x in (cfg.path_avoiding(b, [c_not], [i], ()) or [])][:8])
    R.floor("privileged_calls_in_process_frame", npriv)
    # the refuse edge itself: only AUTH, PING, replies
    for i in sorted(refuse):
        t = b.term(i)
        if t["k"] == "call":
            cal = callee(t)
            if cal.startswith(SERVER) and cal not in ALLOWED_PREAUTH:
                if is_priv_site(ctx, t, cache):
                    continue  # already reported above
    # frame path outside process_frame: per-frame code of process_connection
    pc = ctx.prog.need(PC)
    import rules_conn
    head, body = rules_conn.frames_loop(ctx, pc)
    if head is None:
        R.broken.append("frame loop not found in process_connection"); return
    n = 0
    for i in sorted(body):
        t = pc.term(i)
        if t["k"] != "call":
            continue
        cal = callee(t)
        if cal == PF:
            n += 1; continue
        if is_priv_site(ctx, t, cache):
            short = cal.split("::")[-1]
            R.inst(PC, "pre-dispatch:" + short)
            R.finding(PC, "pre-dispatch:%s:ungated" % short,
                      "%s is executed per received frame in process_connection before/without process_frame's authentication gate: with requirepass set an unauthenticated client reaches it" % short, pc.loc(i),
                      witness=ctx.cg.path(cal, privileged_fns(ctx)) or [])
        else:
            R.trivial()
    R.floor("process_frame_calls_in_frame_loop", n)


def rule_set(ctx, R):
    """who may store ConnectionState::Authenticated"""
    n = 0
    for fn, b in sorted(ctx.prog.bodies.items()):
        if "::tests::" in fn:
            continue
        for i, bb in enumerate(b.bbs):
            if bb["cleanup"]:
                continue      # unwind twin of the same store (drop of the old value panicked)
            for st in bb["s"]:
                if st["k"] != "=":
                    continue
                fields = [e["f"] for e in st["l"]["p"] if isinstance(e, dict) and "f" in e]
                if not fields or fields[-1] != "network::connection::Connection.state":
                    continue
                P = prov.operand_origins(b, st["r"]["o"]) if st["r"]["k"] == "use" else None
                isauth = (st["r"]["k"] == "agg" and st["r"]["a"] == AUTHD) or (P is not None and any(r[0] == "agg" and r[1] == AUTHD for r in P.roots))
                if not isauth:
                    continue
                n += 1
                why = auth_store_context(ctx, fn, b, i)
                R.inst(fn, "store-authenticated", {"function": fn, "at": "%s:%s" % (b.file, st.get("line")), "context": why})
                if why is None:
                    R.finding(fn, "store-authenticated:unjustified",
                              "ConnectionState::Authenticated is stored (line %s) outside the three justified contexts (accept without password; AUTH after a full password equality; leaving the Blocked state)" % st.get("line"),
                              "%s:%s" % (b.file, st.get("line")))
    R.floor("authenticated_stores", n)


def auth_store_context(ctx, fn, b, bbi):
    # (c) leaving Blocked: dominated by a discriminant test of ConnectionState == Blocked
    import rules_block
    if bbi in rules_block.blocked_test_regions(ctx, b):
        return "leaving Blocked state"
    # (a) accept: dominated by the password-none edge
    for (a, asw, a_set, a_none) in password_tests(b):
        if bbi in cfg.edge_dom_set(b, asw, a_none):
            return "no password configured"
    # (b) closure run from handle_auth under a full password equality
    if b.kind == "Closure":
        enc = ctx.prog.bodies.get(b.encl)
        if enc is not None:
            for i, t in enc.calls():
                if fn in t["clos"]:
                    for j, tt in enc.calls():
                        if not re.search(r"(String|str) as std::cmp::PartialEq(<.*>)?>::eq$", tt["f"] or ""):
                            continue
                        srcs = [prov.operand_origins(enc, x, deep=True) for x in tt["a"]]
                        has_cfg = any(any(f.endswith("NetworkConfig.password") for f in P.fields) for P in srcs)
                        has_client = any(bool(P.params() - {1}) and not any(f.endswith("NetworkConfig.password") for f in P.fields) for P in srcs)
                        if not (has_cfg and has_client) or tt["t"] < 0:
                            continue
                        sw = shared._follow_to_switch(enc, tt["t"], tt["d"]["l"])
                        if sw and i in cfg.edge_dom_set(enc, sw[0], sw[1]["o"]):
                            # per connection: the connection id handed to with_connection is the parameter
                            idop = t["a"][1] if len(t["a"]) > 1 else None
                            if idop is not None and prov.operand_origins(enc, idop).params():
                                return "AUTH with exact password equality"
    return None


def rule_fail(ctx, R):
    """a failed AUTH changes nothing: the not-equal edge reaches no connection access and no
    privileged call"""
    ha = SERVER + "handle_auth"
    b = ctx.prog.need(ha)
    cache = {}
    n = 0
    for j, tt in b.calls():
        if not re.search(r"(String|str) as std::cmp::PartialEq(<.*>)?>::(eq|ne)$", tt["f"] or "") or tt["t"] < 0:
            continue
        srcs = [prov.operand_origins(b, x) for x in tt["a"]]
        if not any(any(f.endswith("NetworkConfig.password") for f in P.fields) for P in srcs):
            continue
        sw = shared._follow_to_switch(b, tt["t"], tt["d"]["l"])
        if sw is None:
            continue
        n += 1
        zero = dict(sw[1]["ts"]).get(0)
        fail_t = zero if tt["def"].endswith("::eq") else sw[1]["o"]
        reg = cfg.edge_dom_set(b, sw[0], fail_t)
        bad = [x for x in reg if b.term(x)["k"] == "call" and (b.term(x)["clos"] or is_priv_site(ctx, b.term(x), cache))]
        R.inst(ha, "failed-auth-edge", {"comparison_at": b.loc(j), "blocks_on_failure_edge": len(reg), "state_changing_calls": len(bad)})
        if bad:
            R.finding(ha, "failed-auth-edge:side-effect", "the failed-AUTH path performs a state-changing call (line %d)" % b.bb_line(bad[0]), b.loc(bad[0]))
    R.floor("password_comparisons", n)
