"""C17 rules: R-AUTH-GATE, R-AUTH-SET, R-AUTH-FAIL."""
import re
from facts import callee, op_local, op_place, promoted_consts, const_int
import cfg, shared, prov, boolpath
from facts import op_is_const
from shared import SERVER, ENGINE

PF = SERVER + "process_frame"
PC = SERVER + "process_connection"
AUTHD = "network::connection::ConnectionState::Authenticated"
PRIV_PREFIX = ("pubsub::PubSubManager::", "replication::", "storage::rdb::RdbEngine::", "storage::aof::AofEngine::",
               "storage::commands::lua::", "storage::lua_engine::", "network::blocking::BlockingManager::",
               "storage::commands::executor::", "monitor::MonitorSubscribers::subscribe", "storage::lua_cache::",
               "storage::monitor::StorageMonitor::", "network::monitoring::")
CONN_FIELDS_PRIV = ("network::connection::Connection.db_index", "network::connection::Connection.transaction_state",
                    "network::connection::Connection.is_monitoring", "network::connection::Connection.name",
                    "network::connection::Connection.state")


def privileged_fns(ctx):
    def compute():
        priv = set(shared.engine_api(ctx.prog))
        for fn, b in ctx.prog.bodies.items():
            if fn.startswith(PRIV_PREFIX) and "::tests::" not in fn:
                priv.add(fn)
            # closures/functions writing per-connection state
            for bb in b.bbs:
                for st in bb["s"]:
                    if st["k"] == "=":
                        for e in st["l"]["p"]:
                            if isinstance(e, dict) and e.get("f") in CONN_FIELDS_PRIV:
                                if not fn.startswith("network::connection::Connection::"):
                                    priv.add(fn)
        return priv
    return ctx.memo("privileged_fns", compute)


def is_priv_site(ctx, t, cache):
    roots = [callee(t)] + list(t["clos"])
    for r in roots:
        if r not in cache:
            cache[r] = bool(ctx.cg.reach([r]) & privileged_fns(ctx))
        if cache[r]:
            return True
    return False


def password_tests(b):
    """T1: is_some/is_none on the configured password: [(bb, switch_bb, target_when_password_set, target_when_none)]"""
    out = []
    for i, t in b.calls():
        m = re.search(r"std::option::Option::<.*>::(is_some|is_none)$", t["f"] or "")
        if not m or not t["a"]:
            continue
        P = prov.operand_origins(b, t["a"][0])
        if not any(f.endswith("NetworkConfig.password") for f in P.fields):
            continue
        sw = shared._follow_to_switch(b, t["t"], t["d"]["l"]) if t["t"] >= 0 else None
        if sw is None:
            continue
        sbb, st = sw
        zero = dict(st["ts"]).get(0)
        if zero is None:
            continue
        if m.group(1) == "is_some":
            out.append((i, sbb, st["o"], zero))
        else:
            out.append((i, sbb, zero, st["o"]))
    return out


def state_tests(ctx, b):
    """T2: comparison of a ConnectionState with Authenticated:
    [(bb, switch_bb, target_if_authenticated, target_if_not)]"""
    out = []
    for i, t in b.calls():
        d = t["def"]
        if not (d.endswith("::eq") or d.endswith("::ne")) or "ConnectionState" not in (t["f"] or ""):
            continue
        isauth = False
        for a in t["a"]:
            pc = shared._promoted_through_ref(b, i, a)
            if pc and any(x.get("agg") == AUTHD for x in pc):
                isauth = True
            else:
                P = prov.operand_origins(b, a)
                if any(r[0] == "agg" and r[1] == AUTHD for r in P.roots):
                    isauth = True
        if not isauth or t["t"] < 0:
            continue
        sw = shared._follow_to_switch(b, t["t"], t["d"]["l"])
        if sw is None:
            continue
        sbb, st = sw
        zero = dict(st["ts"]).get(0)
        if zero is None:
            continue
        if d.endswith("::ne"):
            out.append((i, sbb, zero, st["o"]))
        else:
            out.append((i, sbb, st["o"], zero))
    # matches!(state, Authenticated): discriminant switch on a ConnectionState place
    dv = ctx.prog.variant_discr("network::connection::ConnectionState", "Authenticated")
    for i, bb in enumerate(b.bbs):
        t = bb["t"]
        if t["k"] != "switch":
            continue
        dl = op_local(t["d"])
        for st in bb["s"]:
            if st["k"] == "=" and st["l"]["l"] == dl and st["r"]["k"] == "discr":
                ty = b.locals[st["r"]["p"]["l"]]
                if "ConnectionState" in ty and not [e for e in st["r"]["p"]["p"] if e != "*" and not (isinstance(e, dict) and e.get("f", "").endswith("Connection.state"))]:
                    ts = dict(t["ts"])
                    if dv in ts and len(ts) == 1:
                        out.append((i, i, ts[dv], t["o"]))
    return out


def _has_password_field(b, o):
    if op_is_const(o):
        return False
    return any(f.endswith("NetworkConfig.password") for f in prov.operand_origins(b, o).fields)


def _is_authd_operand(b, bbi, a):
    pc = shared._promoted_through_ref(b, bbi, a)
    if pc and any(x.get("agg") == AUTHD for x in pc):
        return True
    if op_is_const(a):
        return False
    P = prov.operand_origins(b, a)
    return any(r[0] == "agg" and r[1] == AUTHD for r in P.roots)


class GateSpec(boolpath.Spec):
    """evidence for `this frame may be served`: no password is configured, or the connection's state
    equals Authenticated.  Tests may sit in process_frame itself, in a helper (inlined or
    summarised) or in the closure handed to with_connection (`|c| c.state == Authenticated`)."""

    def __init__(s, ctx, b, memo=None, password=True, state=True):
        s.ctx = ctx; s.b = b; s.memo = memo if memo is not None else {}
        s.password = password; s.state = state
        s.state_tests = 0; s.password_tests = 0

    def _kind_of(s, fn):
        cb = s.ctx.prog.bodies.get(fn)
        if cb is None or cb.locals[0] != "bool":
            return None
        k = (fn, s.password, s.state)
        if k not in s.memo:
            s.memo[k] = None
            sub = GateSpec(s.ctx, cb, s.memo, s.password, s.state)
            try:
                s.memo[k] = boolpath.ret_kind(cb, sub)
            except boolpath.TooManyStates:
                s.memo[k] = None
            if s.memo[k] is not None and (sub.state_tests or sub.password_tests):
                s.memo[k] = (s.memo[k], sub.state_tests, sub.password_tests)
            else:
                s.memo[k] = None
        return s.memo[k]

    def call(s, b, bbi, t):
        f = t["f"] or ""
        m = re.search(r"std::option::Option::<.*>::(is_some|is_none)$", f)
        if m and t["a"] and s.password and _has_password_field(b, t["a"][0]):
            s.password_tests += 1
            return boolpath.A if m.group(1) == "is_none" else boolpath.N
        d = t["def"] or ""
        if s.state and (d.endswith("::eq") or d.endswith("::ne")) and "ConnectionState" in f:
            if any(_is_authd_operand(b, bbi, a) for a in t["a"]):
                s.state_tests += 1
                return boolpath.A if d.endswith("::eq") else boolpath.N
        # local bool helper / bool closure called directly
        k = s._kind_of(callee(t))
        if k:
            s.state_tests += k[1]; s.password_tests += k[2]
            return k[0]
        # Option<bool>::unwrap_or(false) / == Some(true) of a closure-borne verdict
        if re.search(r"^std::option::Option::<bool>::(unwrap_or|unwrap_or_default)$", f) and t["a"] and not op_is_const(t["a"][0]):
            if s._verdict_option(b, op_place(t["a"][0])["l"]) and (len(t["a"]) < 2 or boolpath._const_bool(t["a"][1]) == boolpath.F):
                return boolpath.A
        return None

    def _verdict_option(s, b, l, depth=0):
        """Option<bool> local produced by a call that runs an accepting bool closure (with_connection)"""
        if depth > 5:
            return False
        for kind, bbi, x in prov.build_defs(b).get(l, ()):
            if kind == "call":
                for c in x.get("clos") or []:
                    k = s._kind_of(c)
                    if k and k[0] == boolpath.A:
                        s.state_tests += k[1]; s.password_tests += k[2]
                        return True
                return False
            if x["r"]["k"] == "use" and not op_is_const(x["r"]["o"]) and not x["l"]["p"]:
                if s._verdict_option(b, op_place(x["r"]["o"])["l"], depth + 1):
                    return True
        return False

    def stmt(s, b, bbi, st):
        # `let Some(is_auth) = self.connections.with_connection(id, |c| c.state == Authenticated) else ..`
        # `let Some((db, in_tx, is_auth)) = ...with_connection(id, |c| (c.db_index, .., c.state == Authenticated))`
        r = st["r"]
        if r["k"] == "use" and not op_is_const(r["o"]):
            pl = op_place(r["o"])
            ty = b.locals[pl["l"]].replace("std::option::", "")
            if pl["p"] and ty.startswith("Option<bool>") and s._verdict_option(b, pl["l"]):
                return boolpath.A
            idx = [e["f"] for e in pl["p"] if isinstance(e, dict) and "f" in e and str(e["f"]).isdigit()]
            if pl["p"] and ty.startswith("Option<(") and idx:
                return s._verdict_tuple(b, pl["l"], int(idx[-1]))
        return None

    def _verdict_tuple(s, b, l, k, depth=0):
        if depth > 5:
            return None
        for kind, bbi, x in prov.build_defs(b).get(l, ()):
            if kind == "call":
                for c in x.get("clos") or []:
                    cb = s.ctx.prog.bodies.get(c)
                    if cb is None:
                        continue
                    key = ("tuple", c, k, s.password, s.state)
                    if key not in s.memo:
                        sub = GateSpec(s.ctx, cb, s.memo, s.password, s.state)
                        try:
                            v = boolpath.tuple_field_kind(cb, sub, k)
                        except boolpath.TooManyStates:
                            v = None
                        s.memo[key] = (v, sub.state_tests, sub.password_tests) if v and (sub.state_tests or sub.password_tests) else None
                    if s.memo[key]:
                        s.state_tests += s.memo[key][1]; s.password_tests += s.memo[key][2]
                        return s.memo[key][0]
                return None
            if x["r"]["k"] == "use" and not op_is_const(x["r"]["o"]) and not x["l"]["p"]:
                v = s._verdict_tuple(b, op_place(x["r"]["o"])["l"], k, depth + 1)
                if v:
                    return v
        return None

    def edges(s, b, bbi, t):
        out = []
        if op_is_const(t["d"]):
            return out
        dl = op_place(t["d"])["l"]
        for st in reversed(b.bbs[bbi]["s"]):
            if st["k"] == "=" and st["l"]["l"] == dl and not st["l"]["p"]:
                if st["r"]["k"] == "discr":
                    pl = st["r"]["p"]
                    ty = b.locals[pl["l"]]
                    fproj = [e for e in pl["p"] if isinstance(e, dict) and "f" in e]
                    is_state = (not fproj and re.match(r"^(&(mut )?)*network::connection::ConnectionState$", ty)) or \
                               (fproj and fproj[-1]["f"].endswith("Connection.state") and not [e for e in pl["p"] if isinstance(e, dict) and "f" not in e])
                    if s.state and is_state:
                        dv = s.ctx.prog.variant_discr("network::connection::ConnectionState", "Authenticated")
                        ts = dict(t["ts"])
                        if dv in ts:
                            s.state_tests += 1
                            out.append(ts[dv])
                    elif s.password and ("Option<" in ty or (fproj and fproj[-1]["f"].endswith("NetworkConfig.password"))) and _has_password_field(b, {"cp": pl}):
                        ne = boolpath.none_edge(b, bbi, t, lambda b_, o_: True)
                        if ne:
                            s.password_tests += 1
                        out += list(ne)
                break
        return out


ALLOWED_PREAUTH = (SERVER + "handle_auth", SERVER + "handle_ping")


def gate_regions(ctx, b):
    """(exploration, refuse region) of the authentication gate in b: the refuse region is what is
    reached without evidence once no gate test lies ahead any more (password set, not authenticated)"""
    def compute():
        spec = GateSpec(ctx, b)
        ex = boolpath.explore(b, spec)
        refuse = {x for x in ex.reached if x not in ex.evidence_switches and not (cfg.fwd(b, [x]) & ex.evidence_switches)}
        if not ex.evidence_switches:
            refuse = set()
        return spec, ex, refuse
    return ctx.memo(("gate_regions", b.fn), compute)


def rule_gate(ctx, R):
    b = ctx.prog.need(PF)
    spec = GateSpec(ctx, b)
    try:
        ex = boolpath.explore(b, spec)
    except boolpath.TooManyStates as e:
        R.broken.append(str(e)); return
    R.inst(PF, "gate", {"password_tests_seen": spec.password_tests, "state_tests_seen": spec.state_tests})
    if not spec.password_tests or not spec.state_tests:
        R.finding(PF, "gate:missing", "no authentication gate (no password configured, or the connection's state equals Authenticated) found in process_frame", b.loc())
    cache = {}
    npriv = 0
    for i, t in b.calls():
        if not is_priv_site(ctx, t, cache):
            continue
        cal = callee(t)
        short = shared.site_name(ctx, t)
        npriv += 1
        open_ = i in ex.reached
        R.inst(PF, "priv:" + short, {"call": short, "at": b.loc(i), "reachable_without_passing_the_gate": open_})
        if cal in ALLOWED_PREAUTH:
            continue
        if open_:
            R.finding(PF, "priv:%s:before-gate" % short,
                      "privileged call %s (line %d) can be reached on a path that establishes neither `no password configured` nor `connection state == Authenticated`: an unauthenticated connection can reach it" % (short, b.bb_line(i)), b.loc(i),
                      witness=["bb%d %s" % (x, b.loc(x)) for x in ex.witness(b, i)][-10:])
    R.floor("privileged_calls_in_process_frame", npriv)
    # frame path outside process_frame: per-frame code of process_connection
    pc = ctx.prog.need(PC)
    import rules_conn
    head, body = rules_conn.frames_loop(ctx, pc)
    if head is None:
        R.broken.append("frame loop not found in process_connection"); return
    n = 0
    for i in sorted(body):
        t = pc.term(i)
        if t["k"] != "call":
            continue
        cal = callee(t)
        if cal == PF:
            n += 1; continue
        if is_priv_site(ctx, t, cache):
            short = cal.split("::")[-1]
            R.inst(PC, "pre-dispatch:" + short)
            R.finding(PC, "pre-dispatch:%s:ungated" % short,
                      "%s is executed per received frame in process_connection before/without process_frame's authentication gate: with requirepass set an unauthenticated client reaches it" % short, pc.loc(i),
                      witness=ctx.cg.path(cal, privileged_fns(ctx)) or [])
        else:
            R.trivial()
    R.floor("process_frame_calls_in_frame_loop", n)


def rule_set(ctx, R):
    """who may store ConnectionState::Authenticated"""
    n = 0
    for fn, b in sorted(ctx.prog.bodies.items()):
        if "::tests::" in fn:
            continue
        for i, bb in enumerate(b.bbs):
            if bb["cleanup"]:
                continue      # unwind twin of the same store (drop of the old value panicked)
            for st in bb["s"]:
                if st["k"] != "=":
                    continue
                fields = [e["f"] for e in st["l"]["p"] if isinstance(e, dict) and "f" in e]
                if not fields or fields[-1] != "network::connection::Connection.state":
                    continue
                P = prov.operand_origins(b, st["r"]["o"]) if st["r"]["k"] == "use" else None
                isauth = (st["r"]["k"] == "agg" and st["r"]["a"] == AUTHD) or (P is not None and any(r[0] == "agg" and r[1] == AUTHD for r in P.roots))
                if not isauth:
                    continue
                n += 1
                aggs = [r[2] for r in P.roots if r[0] == "agg" and r[1] == AUTHD] if P is not None else []
                others = [r for r in P.roots if r[0] == "agg" and r[1] != AUTHD] if P is not None else []
                why = auth_store_context(ctx, fn, b, i, aggs if others else None)
                if why is None and b.kind != "Closure" and not any(bb_["t"]["k"] == "switch" for bb_ in b.bbs if not bb_.get("cleanup")):
                    # a plain setter (`Connection::mark_authenticated`): judged where it is used --
                    # called, or handed by path to a function that runs it on a connection
                    uses = []
                    for fn2, b2 in ctx.prog.bodies.items():
                        if "::tests::" in fn2:
                            continue
                        for i2, t2 in b2.calls():
                            if callee(t2) == fn or any(isinstance(a_, dict) and a_.get("fn") == fn for a_ in (t2.get("a") or [])):
                                uses.append((fn2, b2, i2))
                    whys = []
                    for fn2, b2, i2 in uses:
                        w2 = auth_store_context(ctx, fn2, b2, i2, None)
                        if w2 is None:
                            try:
                                ex2 = boolpath.explore(b2, PasswordEqSpec())
                                if i2 not in ex2.reached:
                                    w2 = "AUTH with exact password equality"
                            except boolpath.TooManyStates:
                                pass
                        whys.append(w2)
                    if uses and all(w is not None for w in whys):
                        why = "setter; every use justified: " + ", ".join(sorted(set(whys)))
                        n += len(uses) - 1
                R.inst(fn, "store-authenticated", {"function": fn, "at": "%s:%s" % (b.file, st.get("line")), "context": why})
                if why is None:
                    R.finding(fn, "store-authenticated:unjustified",
                              "ConnectionState::Authenticated is stored (line %s) outside the three justified contexts (accept without password; AUTH after a full password equality; leaving the Blocked state)" % st.get("line"),
                              "%s:%s" % (b.file, st.get("line")))
    R.floor("authenticated_stores", n)


PW_CMP = re.compile(r"^<&*(std::string::String|str|\[u8\]|std::vec::Vec<u8>|\[A\]|std::borrow::Cow<'_, str>|std::borrow::Cow<'_, \[u8\]>|String|Vec<u8>) as std::cmp::PartialEq(<.*>)?>::(eq|ne)$")


class PasswordEqSpec(boolpath.Spec):
    """evidence: the password supplied by the client equals the configured one (full equality of
    strings / byte slices -- not a prefix, case-insensitive or length-only comparison)"""

    def call(s, b, bbi, t):
        m = PW_CMP.search(t["f"] or "")
        if not m or len(t["a"]) != 2:
            return None
        srcs = [prov.operand_origins(b, x, deep=True) for x in t["a"]]
        has_cfg = any(any(f.endswith("NetworkConfig.password") for f in P.fields) for P in srcs)
        has_client = any(bool(P.params() - {1}) and not any(f.endswith("NetworkConfig.password") for f in P.fields) for P in srcs)
        if has_cfg and has_client:
            return boolpath.A if m.group(3) == "eq" else boolpath.N
        return None


def auth_store_context(ctx, fn, b, bbi, agg_sites=None):
    # (c) leaving Blocked: dominated by a discriminant test of ConnectionState == Blocked
    import rules_block
    if bbi in rules_block.blocked_test_regions(ctx, b):
        return "leaving Blocked state"
    # (a) accept: the Authenticated value is built only where no password is configured
    try:
        ex = boolpath.explore(b, GateSpec(ctx, b, state=False))
        sites = agg_sites if agg_sites else [bbi]
        if all(x not in ex.reached for x in sites):
            return "no password configured"
    except boolpath.TooManyStates:
        pass
    # (b) closure run from handle_auth under a full password equality
    if b.kind == "Closure":
        enc = ctx.prog.bodies.get(b.encl)
        if enc is not None:
            try:
                ex = boolpath.explore(enc, PasswordEqSpec())
            except boolpath.TooManyStates:
                ex = None
            for i, t in enc.calls():
                if fn in t["clos"] and ex is not None and i not in ex.reached:
                    # per connection: the connection id handed to with_connection is the parameter
                    idop = t["a"][1] if len(t["a"]) > 1 else None
                    if idop is not None and prov.operand_origins(enc, idop).params():
                        return "AUTH with exact password equality"
    return None


def rule_fail(ctx, R):
    """a failed AUTH changes nothing: the not-equal edge reaches no connection access and no
    privileged call"""
    ha = SERVER + "handle_auth"
    b = ctx.prog.need(ha)
    cache = {}
    n = 0
    for j, tt in b.calls():
        if not PW_CMP.search(tt["f"] or "") or tt["t"] < 0:
            continue
        srcs = [prov.operand_origins(b, x) for x in tt["a"]]
        if not any(any(f.endswith("NetworkConfig.password") for f in P.fields) for P in srcs):
            continue
        sw = shared._follow_to_switch(b, tt["t"], tt["d"]["l"])
        if sw is None:
            continue
        n += 1
        zero = dict(sw[1]["ts"]).get(0)
        fail_t = zero if tt["def"].endswith("::eq") else sw[1]["o"]
        reg = cfg.edge_dom_set(b, sw[0], fail_t)
        bad = [x for x in reg if b.term(x)["k"] == "call" and (b.term(x)["clos"] or is_priv_site(ctx, b.term(x), cache))]
        R.inst(ha, "failed-auth-edge", {"comparison_at": b.loc(j), "blocks_on_failure_edge": len(reg), "state_changing_calls": len(bad)})
        if bad:
            R.finding(ha, "failed-auth-edge:side-effect", "the failed-AUTH path performs a state-changing call (line %d)" % b.bb_line(bad[0]), b.loc(bad[0]))
    R.floor("password_comparisons", n)


# ---- R-AUTH-PWSRC -------------------------------------------------------------------------------
ALTERING = re.compile(r"::(to_lowercase|to_uppercase|to_ascii_lowercase|to_ascii_uppercase|make_ascii_lowercase|make_ascii_uppercase|"
                      r"from_utf8_lossy|to_string_lossy|replace|replacen|truncate|split_off|retain|trim_matches|trim_start_matches|trim_end_matches|"
                      r"strip_prefix|strip_suffix|chars|bytes|escape_default|escape_debug)(::<.*>)?$")


def _flow_calls(ctx, fn, operand, seen, depth=0):
    """callees on the (interprocedural, backward) data flow that produces `operand` in fn"""
    b = ctx.prog.bodies.get(fn)
    if b is None or depth > 6 or op_is_const(operand):
        return set()
    P = prov.operand_origins(b, operand, deep=True)
    calls = {(r[1], fn, r[2]) for r in P.roots if r[0] == "call"} | {(c, fn, bb) for c, bb in P.via}
    for p in P.params():
        key = (fn, p)
        if key in seen:
            continue
        seen.add(key)
        for caller in ctx.cg.callers.get(fn, ()):
            cb = ctx.prog.bodies.get(caller)
            if cb is None:
                continue
            for i, t in cb.calls():
                if callee(t) == fn and len(t["a"]) >= p:
                    calls |= _flow_calls(ctx, caller, t["a"][p - 1], seen, depth + 1)
    return calls


def rule_pwsrc(ctx, R):
    """`only the exact password authenticates`: the configured password reaches the field the gate
    and AUTH compare against exactly as it was written (command line or config file): no case
    mapping, lossy decoding, replacement or cutting on the data flow into a `password` field"""
    n = 0
    for fn, b in sorted(ctx.prog.bodies.items()):
        if not fn.startswith(("config::", "main", "network::")) or "::tests::" in fn:
            continue
        k = 0
        for i, bb in enumerate(b.bbs):
            if bb.get("cleanup"):
                continue
            for st in bb["s"]:
                if st["k"] != "=":
                    continue
                fields = [e["f"] for e in st["l"]["p"] if isinstance(e, dict) and "f" in e]
                ops = []
                if fields and fields[-1].endswith(".password") and st["r"]["k"] == "use":
                    ops = [st["r"]["o"]]
                elif st["r"]["k"] == "agg" and "fs" in st["r"] and "password" in st["r"]["fs"] and st["r"]["a"].startswith("config::"):
                    ops = [st["r"]["o"][st["r"]["fs"].index("password")]]
                for o in ops:
                    if op_is_const(o):
                        continue
                    n += 1
                    calls = _flow_calls(ctx, fn, o, set())
                    bad = sorted({(c, f_, bb_) for (c, f_, bb_) in calls if ALTERING.search(c)})
                    R.inst(fn, "password-store#%d" % k, {"function": fn, "at": "%s:%s" % (b.file, st.get("line")), "calls_on_the_flow": len(calls), "altering": [c.split("::")[-1] for c, _, _ in bad]})
                    if bad:
                        c, f_, bb_ = bad[0]
                        fb = ctx.prog.bodies[f_]
                        R.finding(fn, "password-store#%d:altered-by:%s" % (k, re.search(r"::(\w+)(::<.*>)?$", c).group(1)),
                                  "the password stored at line %s has passed through %s (%s): the server's password is no longer the configured text, so a different string authenticates and the exact one may not" % (st.get("line"), c.split("::")[-1], fb.loc(bb_)), "%s:%s" % (b.file, st.get("line")))
                    k += 1
    R.floor("password_stores", n)


def rule_config_failclosed(ctx, R):
    """`requirepass configured` must not silently become `no password`: when the configuration
    file cannot be loaded the process does not go on to serve with some other configuration (the
    defaults have no password, so the authentication gate would never be entered).  On the error
    edge of every configuration load no server start is reachable."""
    starts = {f for f in ctx.prog.bodies if re.search(r"^network::server::Server::(new|from_config|run|with_config)$", f)}
    n = 0
    for fn, b in sorted(ctx.prog.bodies.items()):
        if "::tests::" in fn or fn.startswith(("config::", "network::", "storage::")):
            continue
        for i, t in b.calls():
            c = callee(t)
            if not re.search(r"^config::(Config::from_file|parser::parse_config_file|Config::load)$", c):
                continue
            n += 1
            rs = shared.result_switch(b, i)
            if rs is None:
                R.inst(fn, "config-load", {"at": b.loc(i), "result_inspected": False})
                R.finding(fn, "config-load:result-not-inspected", "the result of %s is not inspected" % c.split("::")[-1], b.loc(i)); continue
            fail = set()
            for f0 in rs["fail"]:
                fail |= cfg.fwd(b, [f0])
            ok_side = set()
            for o0 in rs["ok"]:
                ok_side |= cfg.fwd(b, [o0])
            serve = [x for x in fail if b.term(x)["k"] == "call" and (ctx.cg.reach([callee(b.term(x))]) & starts or callee(b.term(x)) in starts)]
            R.inst(fn, "config-load", {"at": b.loc(i), "server_start_reachable_on_the_error_edge": bool(serve)})
            if serve:
                R.finding(fn, "config-load:error-edge-starts-server",
                          "when %s fails (line %d) %s goes on to start the server (line %d) with another configuration: a `requirepass` in the file that could not be loaded is lost and every connection is served without authentication" % (c.split("::")[-1], b.bb_line(i), fn.split("::")[-1], b.bb_line(serve[0])), b.loc(serve[0]))
    R.floor("configuration_loads", n)


# ---- R-AUTH-ARG ---------------------------------------------------------------------------------
def rule_auth_arg(ctx, R):
    """`only the exact password authenticates`, client side: the password the client supplied
    reaches the comparison with the configured one as it was sent -- strictly decoded (invalid
    UTF-8 refused) or as bytes, never through a lossy decoding, case mapping, trimming or cutting
    (a non-injective step makes byte strings that are not the password compare equal to it)."""
    import flow
    n = 0
    for fn, b in sorted(ctx.prog.bodies.items()):
        if not fn.startswith("network::") or "::tests::" in fn:
            continue
        for i, t in b.calls():
            if not PW_CMP.search(t["f"] or "") or len(t["a"]) != 2:
                continue
            srcs = [prov.operand_origins(b, x, deep=True) for x in t["a"]]
            cfgside = [k for k, P in enumerate(srcs) if any(f.endswith("NetworkConfig.password") for f in P.fields)]
            if len(cfgside) != 1:
                continue
            n += 1
            cl = t["a"][1 - cfgside[0]]
            calls = flow.flow_calls(ctx, fn, cl, seen={(fn, p) for p in range(1, b.nargs + 1)})
            bad = sorted((c, w, bb) for (c, w, bb) in calls if ALTERING.search(c or ""))
            R.inst(fn, "password-comparison", {"function": fn, "at": b.loc(i), "calls_on_the_supplied_password_flow": len(calls), "altering": [shared.short_callee(c) for c, _, _ in bad][:3]})
            if bad:
                c, w, bb = bad[0]
                R.finding(fn, "password-comparison:supplied-side-altered-by:%s" % re.search(r"::(\w+)(::<.*>)?$", c).group(1),
                          "the password the client supplied is compared (line %d) after passing through %s (%s): the step is not injective, so byte strings that are not the password compare equal to it (every invalid UTF-8 sequence becomes U+FFFD and matches a U+FFFD in the configured password)" % (b.bb_line(i), shared.short_callee(c), ctx.prog.bodies[w].loc(bb)), b.loc(i))
    R.floor("password_comparisons", n)
