"""Rename tolerance.  The rules name functions (`Server::handle_exec`, `StorageEngine::xdel`, ...).
A maintainer who renames one of them, keeping its behaviour, must not break the checks.  So the
signature of every local function of the tree the rules were confirmed on is recorded in
/verif/anchors.json (scope = path without the last segment, parameter and return types, callees);
when the facts of the tree under analysis are loaded, a recorded name that is missing is matched
against the functions that are new in the same scope -- same types, most similar callee set, unique
and clearly ahead of the runner-up -- and the new function is presented to the rules under the
recorded name (bodies, callee references and closure names are rewritten).  Every alias made is
reported in the evidence.  `python3 anchors.py --record` rewrites anchors.json from /repo."""
import json, os, re, sys

HERE = os.path.dirname(os.path.abspath(__file__))
ANCHORS = os.path.join(os.path.dirname(os.path.dirname(HERE)), "anchors.json")


def scope_of(fn):
    # strip closure suffixes first
    base = re.sub(r"(::\{closure#\d+\})+$", "", fn)
    return base.rsplit("::", 1)[0] if "::" in base else ""


def signature(b):
    from facts import callee
    cal = set()
    for bb in b.bbs:
        t = bb["t"]
        if t["k"] == "call":
            c = callee(t)
            if c:
                cal.add(re.sub(r"::<.*?>", "", c))
    return {"nargs": b.nargs, "args": [b.locals[i] for i in range(1, b.nargs + 1)], "ret": b.locals[0], "callees": sorted(cal), "blocks": len(b.bbs)}


def record(prog):
    out = {}
    for fn, b in prog.bodies.items():
        if b.kind == "Closure" or "::tests::" in fn or "{closure" in fn or "{impl" in fn:
            continue
        out[fn] = signature(b)
    return out


def _sim(a, b):
    A, B = set(a), set(b)
    if not A and not B:
        return 1.0
    return len(A & B) / float(len(A | B))


def _called_by_old_callers(prog, rec, old, new):
    from facts import callee
    o = re.sub(r"::<.*?>", "", old); n = re.sub(r"::<.*?>", "", new)
    callers = {f for f, v in rec.items() if o in v.get("callees", ())}
    for fn, b in prog.bodies.items():
        base = re.sub(r"(::\{closure#\d+\})+$", "", fn)
        if base in callers:
            for bb in b.bbs:
                t = bb["t"]
                if t["k"] == "call" and re.sub(r"::<.*?>", "", callee(t) or "") == n:
                    return True
    return False


def normalise(prog):
    """returns list of (recorded_name, actual_name, similarity) aliases applied to prog"""
    try:
        rec = json.load(open(ANCHORS))
    except Exception:
        return []
    present = set(prog.bodies)
    missing = [fn for fn in rec if fn not in present]
    if not missing:
        return []
    new_by_scope = {}
    for fn, b in prog.bodies.items():
        if fn in rec or b.kind == "Closure" or "{closure" in fn or "::tests::" in fn:
            continue
        new_by_scope.setdefault(scope_of(fn), []).append(fn)
    aliases = []
    used = set()
    for old in sorted(missing):
        sig = rec[old]
        cands = []
        for new in new_by_scope.get(scope_of(old), []):
            if new in used:
                continue
            b = prog.bodies[new]
            if b.nargs != sig["nargs"] or b.locals[0] != sig["ret"] or [b.locals[i] for i in range(1, b.nargs + 1)] != sig["args"]:
                continue
            s_ = _sim(sig["callees"], signature(b)["callees"])
            cands.append((s_, new))
        cands.sort(reverse=True)
        if not cands:
            # changed signature as well (an out-parameter instead of a result, borrowed instead
            # of owned arguments): accepted only on caller evidence -- exactly one new function
            # of the scope is called by a function that used to call the old name, the old name
            # is gone, the two names share a word (`get_expired_clients` / `drain_expired`), and no other
            # missing function of the scope competes for it
            others_missing = [o for o in missing if o != old and scope_of(o) == scope_of(old)]
            def _tokens(n):
                return {w for w in re.split(r"[_:]+", n.rsplit("::", 1)[-1].lower()) if len(w) >= 5}
            by_callers = [new for new in new_by_scope.get(scope_of(old), []) if new not in used and (_tokens(old) & _tokens(new)) and _called_by_old_callers(prog, rec, old, new)]
            if len(by_callers) == 1 and not others_missing:
                aliases.append((old, by_callers[0], 0.0))
                used.add(by_callers[0])
            continue
        if cands[0][0] < 0.5:
            # rewritten body under a new name: accepted on other evidence -- it is the only new
            # function of the scope with exactly these types, no other missing function has
            # them, and a function that used to call the old name now calls the new one
            same_sig_missing = [o for o in missing if o != old and scope_of(o) == scope_of(old) and rec[o]["args"] == sig["args"] and rec[o]["ret"] == sig["ret"]]
            if len(cands) != 1 or same_sig_missing or not _called_by_old_callers(prog, rec, old, cands[0][1]):
                continue
        elif len(cands) > 1 and cands[0][0] - cands[1][0] < 0.15:
            continue
        aliases.append((old, cands[0][1], round(cands[0][0], 2)))
        used.add(cands[0][1])
    if not aliases:
        return []
    ren = {new: old for old, new, _ in aliases}
    def fix(name):
        if not name:
            return name
        for new, old in ren.items():
            if name == new:
                return old
            if name.startswith(new + "::{"):
                return old + name[len(new):]
        return name
    nb = {}
    for fn, b in prog.bodies.items():
        b.fn = fix(fn)
        if b.encl:
            b.encl = fix(b.encl)
        for bb in b.bbs:
            t = bb["t"]
            if t["k"] == "call":
                for k in ("f", "def", "res"):
                    if t.get(k):
                        t[k] = fix(t[k])
                if t.get("clos"):
                    t["clos"] = [fix(c) for c in t["clos"]]
            for st in bb["s"]:
                r = st.get("r")
                if r and r.get("k") == "agg" and isinstance(r.get("a"), str) and r["a"].startswith("closure:"):
                    r["a"] = "closure:" + fix(r["a"][8:])
        nb[b.fn] = b
    prog.bodies = nb
    prog.aliases = aliases
    return aliases


if __name__ == "__main__":
    sys.path.insert(0, HERE)
    import extract
    from facts import Program
    if "--record" in sys.argv:
        d = extract.ensure_facts("dev")
        out = {}
        for f in ("ferrous.bin.jsonl", "ferrous.lib.jsonl"):
            p = Program(os.path.join(d, f))
            for k, v in record(p).items():
                out.setdefault(k, v)
        with open(ANCHORS, "w") as fh:
            json.dump(out, fh, indent=0, sort_keys=True)
        print("recorded", len(out), "functions ->", ANCHORS)
