"""thorough tier: quick rules on the server binary, PLUS the same rules over the library target
(the module tree is compiled twice: a cfg/visibility difference must not hide a site), PLUS --
for the properties with arithmetic rules -- a second extraction with overflow checks off
(release arithmetic), PLUS the checker's own self-tests (fixtures, seeded changes)."""
import json, os, sys, time
import runner, props, extract
from runner import Ctx, run_property, Finding, load_known, EVID
from extract import VERIF

RELEASE_ARITH = {"C06", "C10", "C20"}


def finding_keys(reports):
    out = {}
    for r in reports or []:
        for f in r.findings:
            out.setdefault(f.key, f)
    return out


def run(pid, seed):
    t0 = time.time()
    rc, reports = run_property(pid, "thorough", props.rules_for(pid), seed=seed)
    if rc == 2:
        return 2
    base = finding_keys(reports)
    known, fixed = load_known()
    extra_viol = []
    extra = {"lib_target": None, "release_arithmetic": None, "selftest": None}
    # (a) library target
    try:
        rc2, rep2 = run_property(pid, "thorough", props.rules_for(pid), seed=seed, quiet=True, target="lib", write_evidence=False)
        lib = finding_keys(rep2)
        only_lib = sorted(k for k in lib if k not in base)
        only_bin = sorted(k for k in base if k not in lib)
        extra["lib_target"] = {"findings": len(lib), "only_in_lib": only_lib, "only_in_bin": only_bin,
                               "evaluations": sum(r.evaluations for r in rep2 or [])}
        for k in only_lib:
            if (pid, k) not in known:
                extra_viol.append(lib[k])
        if rc2 == 2:
            print("CHECK-BROKEN property=%s library-target run broken" % pid); return 2
    except Exception as e:
        print("CHECK-BROKEN property=%s library-target run failed: %s" % (pid, e)); return 2
    # (b) release arithmetic (overflow checks off): index/alloc sinks must not depend on the asserts
    if pid in RELEASE_ARITH:
        try:
            rc3, rep3 = run_property(pid, "thorough", props.rules_for(pid), seed=seed, quiet=True, variant="noovf", write_evidence=False, record_floors=False)
            rel = finding_keys(rep3)
            only_rel = sorted(k for k in rel if k not in base)
            extra["release_arithmetic"] = {"findings": len(rel), "only_with_overflow_checks_off": only_rel}
            for k in only_rel:
                if (pid, k) not in known:
                    extra_viol.append(rel[k])
        except extract.Broken as e:
            print("CHECK-BROKEN property=%s release-arithmetic extraction failed: %s" % (pid, e)); return 2
    # (c) self-tests of the checker
    try:
        import selftest
        st = selftest.run(pid)
        extra["selftest"] = st
        # fixtures do not depend on /repo: a wrong verdict on them means the analyses are broken.
        # Seeded replays depend on the tree under analysis (a patch may no longer apply to, or
        # mean the same on, a tree that has moved on): their outcome is recorded and printed,
        # it never changes the verdict on the property.
        if st.get("fixtures", {}).get("failures"):
            for m in st["fixtures"]["failures"]:
                print("CHECK-BROKEN property=%s self-test failed: %s" % (pid, m))
            return 2
        for m in st.get("seeded_notes", []):
            print("SELFTEST-NOTE property=%s %s" % (pid, m))
    except ImportError:
        extra["selftest"] = {"note": "no self-test module"}
    # merge into evidence
    path = os.path.join(EVID, "%s.json" % pid)
    try:
        ev = json.load(open(path))
        ev["coverage"]["thorough"] = extra
        ev["wall_s"] = round(time.time() - t0, 2)
        ev["violations"] = ev.get("violations", 0) + len(extra_viol)
        with open(path + ".tmp", "w") as f:
            json.dump(ev, f, indent=1); f.write("\n")
        os.replace(path + ".tmp", path)
    except Exception as e:
        print("CHECK-BROKEN property=%s cannot update evidence: %s" % (pid, e)); return 2
    os.makedirs(os.path.join(EVID, "replay"), exist_ok=True)
    for n, f in enumerate(extra_viol):
        p_ = os.path.join(EVID, "replay", "%s-t%d.json" % (pid, n))
        with open(p_, "w") as fh:
            json.dump(dict(f.to_json(), property=pid), fh, indent=1)
        print("  finding (thorough only): %s\n    %s" % (f.key, f.msg))
        print("VIOLATION property=%s replay=%s" % (pid, p_))
    print("%s thorough: lib target %s, release arithmetic %s, self-test %s, %.1fs" % (
        pid, "ok" if extra["lib_target"] and not extra["lib_target"]["only_in_lib"] else extra["lib_target"],
        extra["release_arithmetic"] if extra["release_arithmetic"] is not None else "n/a",
        (extra["selftest"] or {}).get("summary", extra["selftest"]), time.time() - t0))
    if rc == 1 or extra_viol:
        return 1
    return 0
