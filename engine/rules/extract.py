"""Fact extraction: runs the mirfacts driver under `cargo +nightly check` against /repo's
working tree and caches the result keyed by a hash of the sources and the driver."""
import fcntl, hashlib, os, shutil, subprocess, sys, time, glob

VERIF = os.path.dirname(os.path.dirname(os.path.dirname(os.path.abspath(__file__))))
REPO = os.environ.get("VERIF_REPO", "/repo")
CACHE = os.environ.get("VERIF_CACHE", os.path.join(VERIF, ".cache"))
DRIVER_DIR = os.path.join(VERIF, "engine", "mirfacts")
DRIVER = os.path.join(DRIVER_DIR, "target", "release", "mirfacts")
FIXTURES = os.path.join(VERIF, "engine", "fixtures")


class Broken(Exception):
    """the check itself cannot run (fail closed, exit 2)"""


def _sha_tree(paths):
    h = hashlib.sha256()
    for p in paths:
        if os.path.isdir(p):
            for root, dirs, files in os.walk(p):
                dirs.sort()
                if "target" in dirs and root == p:
                    dirs.remove("target")
                for f in sorted(files):
                    fp = os.path.join(root, f)
                    h.update(os.path.relpath(fp, p).encode()); h.update(b"\0")
                    try:
                        with open(fp, "rb") as fh:
                            h.update(fh.read())
                    except OSError:
                        pass
                    h.update(b"\0")
        elif os.path.exists(p):
            h.update(p.encode()); h.update(b"\0")
            with open(p, "rb") as fh:
                h.update(fh.read())
            h.update(b"\0")
    return h.hexdigest()[:20]


def build_driver(force=False):
    if os.path.exists(DRIVER) and not force:
        src_m = max(os.path.getmtime(os.path.join(DRIVER_DIR, "src", "main.rs")),
                    os.path.getmtime(os.path.join(DRIVER_DIR, "Cargo.toml")))
        if os.path.getmtime(DRIVER) >= src_m:
            return
    env = dict(os.environ, CARGO_NET_OFFLINE="true")
    r = subprocess.run(["cargo", "build", "--offline", "--release"], cwd=DRIVER_DIR, env=env,
                       stdout=subprocess.PIPE, stderr=subprocess.STDOUT, text=True)
    if r.returncode != 0 or not os.path.exists(DRIVER):
        raise Broken("mirfacts driver does not build:\n" + r.stdout[-3000:])


def _sysroot():
    r = subprocess.run(["rustc", "+nightly", "--print", "sysroot"], stdout=subprocess.PIPE, text=True)
    if r.returncode != 0:
        raise Broken("nightly toolchain not available")
    return r.stdout.strip()


def _run_cargo(manifest_dir, target_dir, out_dir, crates, rustflags, extra_args):
    env = dict(os.environ)
    env.update({
        "CARGO_NET_OFFLINE": "true",
        "LD_LIBRARY_PATH": _sysroot() + "/lib" + (":" + env["LD_LIBRARY_PATH"] if env.get("LD_LIBRARY_PATH") else ""),
        "RUSTFLAGS": rustflags,
        "RUSTC_WORKSPACE_WRAPPER": DRIVER,
        "CARGO_TARGET_DIR": target_dir,
        "MIRFACTS_OUT": out_dir,
        "MIRFACTS_CRATES": crates,
    })
    env.pop("RUSTC_WRAPPER", None)
    # cargo's freshness cache would skip the wrapper: drop the workspace members' fingerprints
    for prof in ("debug",):
        for name in crates.split(","):
            for d in glob.glob(os.path.join(target_dir, prof, ".fingerprint", name.replace("_", "?") + "-*")):
                shutil.rmtree(d, ignore_errors=True)
    cmd = ["cargo", "+nightly", "check", "--offline", "--manifest-path",
           os.path.join(manifest_dir, "Cargo.toml")] + extra_args
    r = subprocess.run(cmd, cwd=manifest_dir, env=env, stdout=subprocess.PIPE, stderr=subprocess.STDOUT, text=True)
    return r


VARIANTS = {
    # name: (rustflags, target dir suffix)
    "dev": ("-Zmir-opt-level=0 -Awarnings", "target-dev"),
    "noovf": ("-Zmir-opt-level=0 -Awarnings -Coverflow-checks=off", "target-noovf"),
}


def ensure_facts(variant="dev", verbose=True):
    """returns the directory holding ferrous.bin.jsonl / ferrous.lib.jsonl / lua_cli.bin.jsonl
    extracted from /repo's current working tree."""
    os.makedirs(CACHE, exist_ok=True)
    lock = open(os.path.join(CACHE, "extract.lock"), "w")
    fcntl.flock(lock, fcntl.LOCK_EX)
    try:
        build_driver()
        key = _sha_tree([os.path.join(REPO, "src"), os.path.join(REPO, "Cargo.toml"),
                         os.path.join(REPO, "Cargo.lock"), os.path.join(REPO, "build.rs"),
                         os.path.join(REPO, ".cargo"), DRIVER])
        out = os.path.join(CACHE, "facts", variant + "-" + key)
        need = [os.path.join(out, f) for f in ("ferrous.bin.jsonl", "ferrous.lib.jsonl")]
        if all(os.path.exists(p) for p in need) and os.path.exists(os.path.join(out, "OK")):
            return out
        shutil.rmtree(out, ignore_errors=True)
        os.makedirs(out)
        flags, tdir = VARIANTS[variant]
        t0 = time.time()
        r = _run_cargo(REPO, os.path.join(CACHE, tdir), out, "ferrous,lua_cli", flags, ["--bins", "--lib"])
        if r.returncode != 0:
            shutil.rmtree(out, ignore_errors=True)
            raise Broken("cargo check of /repo failed (the tree must compile):\n" + r.stdout[-4000:])
        if not all(os.path.exists(p) for p in need):
            shutil.rmtree(out, ignore_errors=True)
            raise Broken("driver produced no fact file for crate ferrous:\n" + r.stdout[-2000:])
        with open(os.path.join(out, "OK"), "w") as f:
            f.write("%.1f\n" % (time.time() - t0))
        if verbose:
            sys.stderr.write("[extract] %s facts for %s in %.1fs\n" % (variant, key, time.time() - t0))
        _prune(os.path.join(CACHE, "facts"), keep=6)
        return out
    finally:
        fcntl.flock(lock, fcntl.LOCK_UN)
        lock.close()


def ensure_fixture_facts():
    os.makedirs(CACHE, exist_ok=True)
    lock = open(os.path.join(CACHE, "extract.lock"), "w")
    fcntl.flock(lock, fcntl.LOCK_EX)
    try:
        build_driver()
        key = _sha_tree([os.path.join(FIXTURES, "src"), os.path.join(FIXTURES, "Cargo.toml"), DRIVER])
        out = os.path.join(CACHE, "facts", "fixtures-" + key)
        need = os.path.join(out, "verif_fixtures.lib.jsonl")
        if os.path.exists(need) and os.path.exists(os.path.join(out, "OK")):
            return out
        shutil.rmtree(out, ignore_errors=True)
        os.makedirs(out)
        r = _run_cargo(FIXTURES, os.path.join(CACHE, "target-fixtures"), out, "verif_fixtures",
                       VARIANTS["dev"][0], ["--lib"])
        if r.returncode != 0 or not os.path.exists(need):
            shutil.rmtree(out, ignore_errors=True)
            raise Broken("fixtures crate failed to compile under the driver:\n" + r.stdout[-4000:])
        with open(os.path.join(out, "OK"), "w") as f:
            f.write("ok\n")
        return out
    finally:
        fcntl.flock(lock, fcntl.LOCK_UN)
        lock.close()


def _prune(d, keep):
    try:
        ents = sorted((os.path.getmtime(os.path.join(d, e)), e) for e in os.listdir(d))
    except OSError:
        return
    for _, e in ents[:-keep]:
        shutil.rmtree(os.path.join(d, e), ignore_errors=True)
