"""C05 rules: R-ERRPROP, R-REPLY1, R-PARSEERR, R-CRLF, R-TXNORESP (connection loop and reply
framing)."""
import re
from facts import callee, op_local, op_place, const_int, const_bytes, op_is_const
import cfg, shared, prov
from shared import SERVER

PC = SERVER + "process_connection"
PUSH_RESP = re.compile(r"^std::vec::Vec::<protocol::resp::RespFrame>::push$")


def ferrous_error_arms(ctx, b):
    """switches on the discriminant of a FerrousError in b: list of (bb, {variant_name: target}, otherwise)"""
    out = []
    for i, bb in enumerate(b.bbs):
        t = bb["t"]
        if t["k"] != "switch":
            continue
        dl = op_local(t["d"])
        # find `dl = discriminant(place)` in this block (or a predecessor chain)
        for st in bb["s"]:
            if st["k"] == "=" and st["l"]["l"] == dl and st["r"]["k"] == "discr":
                p = st["r"]["p"]
                ty = place_type(ctx, b, p)
                if ty and ty.replace("&", "").replace("mut ", "").strip() == "error::FerrousError":
                    names = {}
                    for v, tb in t["ts"]:
                        n = ctx.prog.variant_name("error::FerrousError", v)
                        names[n] = tb
                    out.append((i, names, t["o"]))
    return out


def place_type(ctx, b, p):
    """type of a place when it is a bare local or deref of a local; for variant-field
    projections use the ADT table"""
    ty = b.locals[p["l"]]
    adt = None
    for e in p["p"]:
        if e == "*":
            ty = re.sub(r"^&(mut )?", "", ty) if ty else ty
        elif isinstance(e, dict) and "v" in e:
            adt = ty; variant = e["v"]
            ty = ("VARIANT", adt, variant)
        elif isinstance(e, dict) and "f" in e:
            if isinstance(ty, tuple):
                _, adt_ty, variant = ty
                fld = e["f"].rsplit(".", 1)[-1]
                ty = variant_field_type(ctx, adt_ty, variant, fld)
            else:
                fld = e["f"].rsplit(".", 1)
                a = ctx.prog.adts.get(fld[0])
                ty = None
                if a:
                    for v in a["variants"]:
                        for fn_, fty in v["f"]:
                            if fn_ == fld[1]:
                                ty = fty
        else:
            return None
        if ty is None:
            return None
    return ty if isinstance(ty, str) else None


def variant_field_type(ctx, adt_ty, variant, fld):
    # Result<T, E> / Option<T>: field 0 of Err is E, of Ok/Some is T
    m = re.match(r"^std::result::Result<(.*)>$", adt_ty or "")
    if m:
        parts = split_generics(m.group(1))
        if len(parts) == 2:
            return parts[1] if variant == "Err" else parts[0]
    m = re.match(r"^std::option::Option<(.*)>$", adt_ty or "")
    if m:
        return m.group(1)
    a = ctx.prog.adts.get(re.sub(r"<.*$", "", adt_ty or ""))
    if a:
        for v in a["variants"]:
            if v["n"] == variant:
                for fn_, fty in v["f"]:
                    if fn_ == fld:
                        return fty
    return None


def split_generics(s):
    out = []; depth = 0; cur = ""
    for ch in s:
        if ch in "<([":
            depth += 1
        elif ch in ">)]":
            depth -= 1
        if ch == "," and depth == 0:
            out.append(cur.strip()); cur = ""
        else:
            cur += ch
    if cur.strip():
        out.append(cur.strip())
    return out


def frame_exec_calls(ctx, b):
    """calls in b to functions returning Result<RespFrame, _> (they execute a frame)"""
    out = []
    for i, t in b.calls():
        c = callee(t)
        cb = ctx.prog.bodies.get(c)
        if cb is not None and cb.ret_ty().startswith("std::result::Result<protocol::resp::RespFrame"):
            out.append((i, c))
    return out


def rule_errprop(ctx, R):
    b = ctx.prog.need(PC)
    execs = frame_exec_calls(ctx, b)
    R.floor("frame_executing_calls", len(execs))
    pushes = {i for i, t in b.calls() if PUSH_RESP.match(t["f"])}
    arms = ferrous_error_arms(ctx, b)
    allowed = set()
    for sw, names, other in arms:
        for n, tb in names.items():
            if n in ("Connection", "Io"):
                allowed |= cfg.edge_dom_set(b, sw, tb)
    exits = b.exits()
    # a call, on the error edge, to a local function that returns Err only for Connection/Io
    # errors (an "error filter"): its `?` exit is an allowed exit
    filt_exits = set()
    for i, t in b.calls():
        c = callee(t)
        if c in ctx.prog.bodies and is_conn_error_filter(ctx, c):
            rs = shared.result_switch(b, i)
            if rs:
                for f0 in rs["fail"]:
                    filt_exits |= cfg.dom_set(b, f0)
                R.note("error filter recognised: %s" % c)
    allowed |= filt_exits
    for i, c in execs:
        if c in ctx.prog.bodies and is_conn_error_filter(ctx, c):
            continue
        rs = shared.result_switch(b, i)
        short = c.split("::")[-1]
        if rs is None:
            R.inst(PC, "exec:" + short)
            R.finding(PC, "exec:%s:result-not-inspected" % short, "result of %s is not inspected by a match/if-let/? in the connection loop" % short, b.loc(i))
            continue
        p = cfg.path_avoiding(b, rs["fail"], exits, pushes | allowed)
        R.inst(PC, "exec:" + short, {"call": short, "at": b.loc(i), "error_edge_reaches_exit_without_reply": p is not None})
        if p is not None:
            R.finding(PC, "exec:%s:error-drops-connection" % short,
                      "an Err from %s (line %d) can leave process_connection without being turned into an error reply (only Connection/Io errors may): any command error closes the connection and loses the replies of the batch"
                      % (short, b.bb_line(i)), b.loc(i), witness=["bb%d %s" % (x, b.loc(x)) for x in p][:8])
    # population covered by this single conversion point: ?-propagated storage results in handlers
    api = set(shared.engine_api(ctx.prog))
    n = 0
    for fn, hb in shared.handler_like(ctx.prog).items():
        for i, t in hb.calls():
            if callee(t) in api:
                nxt = hb.term(t["t"]) if t["t"] >= 0 else None
                if nxt and nxt["k"] == "call" and nxt["def"].endswith("Try::branch"):
                    n += 1
    R.note("?-propagated storage-engine results in handlers covered by the conversion point: %d" % n)
    R.floor("propagated_engine_results", n)


class ConnErrSpec(__import__("boolpath").Spec):
    """evidence: the error at hand is a Connection / Io error (the peer is gone).  The test may be a
    match on the error's discriminant or a bool predicate on the error type
    (`FerrousError::is_connection_failure()`), summarised with the same spec."""

    def __init__(s, ctx, memo=None):
        s.ctx = ctx; s.memo = memo if memo is not None else {}

    def edges(s, b, bbi, t):
        out = []
        if op_is_const(t["d"]):
            return out
        dl = op_place(t["d"])["l"]
        for st in reversed(b.bbs[bbi]["s"]):
            if st["k"] == "=" and st["l"]["l"] == dl and not st["l"]["p"]:
                if st["r"]["k"] == "discr":
                    ty = place_type(s.ctx, b, st["r"]["p"])
                    if ty and ty.replace("&", "").replace("mut ", "").strip() == "error::FerrousError":
                        for v, tb in t["ts"]:
                            if s.ctx.prog.variant_name("error::FerrousError", v) in ("Connection", "Io"):
                                out.append(tb)
                break
        return out

    def call(s, b, bbi, t):
        import boolpath
        c = callee(t)
        cb = s.ctx.prog.bodies.get(c)
        if cb is None or cb.locals[0] != "bool" or not any("error::FerrousError" in ty for ty in cb.arg_tys()):
            return None
        if c not in s.memo:
            s.memo[c] = None
            try:
                s.memo[c] = boolpath.ret_kind(cb, ConnErrSpec(s.ctx, s.memo))
            except boolpath.TooManyStates:
                s.memo[c] = None
        return s.memo[c]


def is_conn_error_filter(ctx, fn):
    """fn takes a FerrousError and returns Result<RespFrame,_>; every block that builds an Err
    result is reached only where the error is known to be a Connection/Io error (path-sensitive:
    a match on the discriminant, a bool predicate on the error, an early return)"""
    def compute():
        import boolpath
        b = ctx.prog.bodies[fn]
        if not any(ty == "error::FerrousError" for ty in b.arg_tys()):
            return False
        errs = []
        for i, bb in enumerate(b.bbs):
            if bb.get("cleanup"):
                continue
            for st in bb["s"]:
                if st["k"] == "=" and st["r"]["k"] == "agg" and st["r"]["a"] == "std::result::Result::Err":
                    errs.append(i)
            t = bb["t"]
            if t["k"] == "call" and "from_residual" in t["def"]:
                errs.append(i)
        if not errs:
            return False
        spec = ConnErrSpec(ctx)
        try:
            ex = boolpath.explore(b, spec)
        except boolpath.TooManyStates:
            return False
        return bool(ex.evidence_switches) and all(e not in ex.reached for e in errs)
    return ctx.memo(("filter", fn), compute)


def frames_loop(ctx, b):
    """the innermost natural loop of process_connection containing the frame-executing calls"""
    execs = frame_exec_calls(ctx, b)
    if not execs:
        return None, None
    lps = cfg.loops(b)
    best = None
    for h, body in lps.items():
        if all(i in body for i, _ in execs):
            if best is None or len(body) < len(best[1]):
                best = (h, body)
    return best if best else (None, None)


def rule_reply1(ctx, R):
    """every acyclic path through one iteration of the frame loop performs exactly one push
    onto the response vector, and the loop is left only at its head or through an exit that
    R-ERRPROP allows"""
    b = ctx.prog.need(PC)
    head, body = frames_loop(ctx, b)
    if head is None:
        R.broken.append("frame loop not found in process_connection")
        return
    pushes = {i for i, t in b.calls() if PUSH_RESP.match(t["f"]) and i in body}
    R.floor("response_pushes_in_loop", len(pushes))
    # DAG: loop body without back edges to head and without inner back edges
    inner_back = {(x, y) for (x, y) in cfg.back_edges(b) if x in body and y in body}
    # the loop is entered at `head`; iteration starts at the successor taken when next() is Some
    memo = {}
    order = [x for x in cfg.rpo(b) if x in body]
    INF = 10 ** 6
    lo = {}; hi = {}
    for x in reversed(order):
        w = 1 if x in pushes else 0
        succ = [y for y in b.succs(x) if y in body and (x, y) not in inner_back]
        ends = [y for y in b.succs(x) if (x, y) in inner_back and y == head]
        vals_lo = []; vals_hi = []
        for y in succ:
            if y in lo:
                vals_lo.append(lo[y]); vals_hi.append(hi[y])
        if ends:
            vals_lo.append(0); vals_hi.append(0)
        if not vals_lo:
            # leaves the loop (exit edge) or dead end: not a completed iteration
            lo[x] = None; hi[x] = None
            continue
        vl = [v for v in vals_lo if v is not None]; vh = [v for v in vals_hi if v is not None]
        if not vl:
            lo[x] = None; hi[x] = None
        else:
            lo[x] = w + min(vl); hi[x] = w + max(vh)
    # start of an iteration: blocks in body that are successors of head
    starts = [y for y in b.succs(head) if y in body]
    for s_ in starts:
        if lo.get(s_) is None:
            continue
        R.inst(PC, "frame-loop", {"loop_head": b.loc(head), "blocks": len(body), "min_pushes_per_iteration": lo[s_], "max_pushes_per_iteration": hi[s_]})
        if lo[s_] != 1 or hi[s_] != 1:
            R.finding(PC, "frame-loop:pushes-per-iteration",
                      "an iteration of the frame loop can push %d..%d replies (must be exactly one per received frame)" % (lo[s_], hi[s_]), b.loc(head))
    # exits from inside the loop other than at the head
    arms = ferrous_error_arms(ctx, b)
    allowed = set()
    for sw, names, other in arms:
        for n, tb in names.items():
            if n in ("Connection", "Io"):
                allowed |= cfg.edge_dom_set(b, sw, tb)
    for i, t in b.calls():
        c = callee(t)
        if c in ctx.prog.bodies and is_conn_error_filter(ctx, c):
            rs = shared.result_switch(b, i)
            if rs:
                allowed.add(rs["sw"])
                for f0 in rs["fail"]:
                    allowed |= cfg.dom_set(b, f0)
    k = 0
    for x in sorted(body):
        for y in b.succs(x):
            if y not in body and x != head:
                if b.term(y)["k"] == "unreachable":
                    continue
                if x in allowed or y in allowed:
                    continue
                if is_iter_exhausted_exit(b, x):
                    continue      # the loop's natural exit: the frame iterator is exhausted
                # does this exit reach a return (i.e. leaves the function mid-batch)?
                k += 1
                R.inst(PC, "loop-exit#%d" % k)
                R.finding(PC, "frame-loop:early-exit:%s" % exit_kind(b, x),
                          "the frame loop can be left from inside an iteration (line %d) other than by a connection error: the remaining frames of the batch get no reply" % b.bb_line(x), b.loc(x))


def is_iter_exhausted_exit(b, x):
    t = b.term(x)
    if t["k"] != "switch":
        return False
    dl = op_local(t["d"])
    for st in b.stmts(x):
        if st["k"] == "=" and st["l"]["l"] == dl and st["r"]["k"] == "discr":
            P = prov.origins(b, st["r"]["p"]["l"])
            for r in P.roots:
                if r[0] == "call" and re.search(r"Iterator>::next$", r[1]):
                    return True
            if P.has_call(r"Iterator>::next$"):
                return True
    return False


def exit_kind(b, x):
    # describe the construct at the exiting block without line numbers
    t = b.term(x)
    if t["k"] == "call":
        return "after-" + callee(t).split("::")[-1]
    if t["k"] == "switch":
        return "switch"
    return t["k"]


def rule_parseerr(ctx, R):
    """protocol errors are answered: on the failure edge of Connection::parse_frame every path to
    the exit of the enclosing function queues the error like a frame (push onto the queue the
    Ok(Some) edge pushes onto) or sends an error frame; and the queue consumer turns an Err item
    into a pushed error reply and requests the connection to be closed."""
    sites = []
    for fn, b in ctx.prog.bodies.items():
        if "::tests::" in fn:
            continue
        for i, t in b.calls():
            if callee(t) == "network::connection::Connection::parse_frame":
                sites.append((fn, b, i))
    R.floor("parse_frame_call_sites", len(sites))
    for fn, b, i in sites:
        rs = shared.result_switch(b, i)
        if rs is None:
            R.inst(fn, "parse_frame")
            R.finding(fn, "parse_frame:result-not-inspected", "result of parse_frame not inspected", b.loc(i))
            continue
        # queue pushes on the success side
        ok_reach = cfg.fwd(b, rs["ok"], cut=rs["fail"])
        def is_queue_push(t):
            return t["k"] == "call" and re.match(r"^std::vec::Vec::<.*protocol::resp::RespFrame.*>::push$", t["f"] or "")
        ok_push = [x for x in ok_reach if is_queue_push(b.term(x))]
        fail_reach = cfg.fwd(b, rs["fail"])
        replies = set()
        for x in fail_reach:
            t = b.term(x)
            if is_queue_push(t) or (t["k"] == "call" and callee(t) in ("network::connection::Connection::send_frame",)):
                replies.add(x)
        exits = set(b.exits())
        p = cfg.path_avoiding(b, rs["fail"], exits, replies)
        R.inst(fn, "parse_frame", {"function": fn, "at": b.loc(i), "reply_events_on_error_edge": len(replies), "silent_path": p is not None})
        if p is not None:
            R.finding(fn, "parse_frame:protocol-error-silent",
                      "a protocol error from parse_frame (line %d) can leave the read loop without an error reply being queued or sent: the client gets silence and the parser stays on the offending byte (connection wedged)" % b.bb_line(i),
                      b.loc(i), witness=["bb%d %s" % (x, b.loc(x)) for x in p][:8])


def option_switch(b, starts, root_local):
    """in the blocks `starts`: a switch on the discriminant of a place rooted at root_local
    (the Option inside Ok); returns (bb, none_target, some_target) or None"""
    for x in starts:
        t = b.term(x)
        if t["k"] != "switch":
            continue
        dl = op_local(t["d"])
        for st in b.stmts(x):
            if st["k"] == "=" and st["l"]["l"] == dl and st["r"]["k"] == "discr" and st["r"]["p"]["l"] == root_local and st["r"]["p"]["p"]:
                ts = dict(t["ts"])
                return x, ts.get(0), ts.get(1, t["o"])
    return None


def data_gated_region(ctx, b):
    """blocks that only execute when Connection::read reported new data (Ok(true))"""
    reg = set()
    for i, t in b.calls():
        if callee(t) != "network::connection::Connection::read":
            continue
        rs = shared.result_switch(b, i)
        if not rs:
            continue
        rl = t["d"]["l"]
        for x in rs["ok"]:
            tt = b.term(x)
            if tt["k"] == "switch" and op_place(tt["d"]) is not None and op_place(tt["d"])["l"] == rl:
                ts = dict(tt["ts"])
                if 0 in ts:
                    reg |= cfg.edge_dom_set(b, x, tt["o"])
    return reg


def rule_parse_drain(ctx, R):
    """no complete frame is left behind in the parser: the loop around Connection::parse_frame is
    left only after parse_frame itself reported `incomplete` (Ok(None)) or an error in the same
    iteration -- never before the call (a counter / budget test) and never from the arm that just
    received a frame -- unless some parse_frame site also runs when no new bytes arrived (frames
    are only parsed when read() reported data, so a frame left in the buffer would wait for the
    client's next bytes: missing reply now, shifted replies later)."""
    sites = []
    for fn, b in ctx.prog.bodies.items():
        if "::tests::" in fn:
            continue
        for i, t in b.calls():
            if callee(t) == "network::connection::Connection::parse_frame":
                sites.append((fn, b, i))
    R.floor("parse_frame_call_sites", len(sites))
    ungated = []
    for fn, b, i in sites:
        if i not in data_gated_region(ctx, b):
            ungated.append(fn)
    for fn, b, i in sites:
        lps = [(h, body) for h, body in cfg.loops(b).items() if i in body]
        if not lps:
            R.inst(fn, "parse_frame-drain", {"loop": None})
            if not ungated:
                R.finding(fn, "parse_frame:not-in-a-drain-loop",
                          "parse_frame (line %d) is not called in a loop: at most one frame is taken per read although a read can deliver many pipelined commands" % b.bb_line(i), b.loc(i))
            continue
        head, body = min(lps, key=lambda hb: len(hb[1]))
        rs = shared.result_switch(b, i)
        some_reg = set()
        if rs:
            osw = option_switch(b, rs["ok"], b.term(i)["d"]["l"])
            if osw:
                some_reg = cfg.edge_dom_set(b, osw[0], osw[2])
        inner_back = cfg.back_edges(b)
        # blocks of this iteration reachable from the head without passing the call
        pre = set(); st = [head]
        while st:
            x = st.pop()
            if x in pre or x not in body:
                continue
            pre.add(x)
            if x == i:
                continue
            for y in b.succs(x):
                if (x, y) in inner_back:
                    continue
                st.append(y)
        pre.discard(i)
        bad = []
        nexit = 0
        for x in sorted(body):
            for y in b.succs(x):
                if y in body or b.term(y)["k"] == "unreachable":
                    continue
                nexit += 1
                if x in pre:
                    bad.append((x, "before-parse"))
                elif x in some_reg:
                    bad.append((x, "after-frame"))
        R.inst(fn, "parse_frame-drain", {"function": fn, "loop_head": b.loc(head), "exits": nexit, "frame_arm_blocks": len(some_reg),
                                         "unjustified_exits": len(bad), "parse_sites_not_gated_on_new_data": len(ungated)})
        if nexit == 0 or not some_reg:
            R.broken.append("parse loop of %s: exits %d, frame arm %d blocks (shape not recognised)" % (fn, nexit, len(some_reg)))
            continue
        if bad and not ungated:
            kinds = sorted({k for _, k in bad})
            for k in kinds:
                x = [x_ for x_, k_ in bad if k_ == k][0]
                R.finding(fn, "parse-loop:exit-%s" % k,
                          "the loop draining the parser can be left %s (line %d) although parse_frame has not reported an incomplete buffer; frames are parsed only when read() reports new bytes, so complete commands stay unanswered until the client sends more, and every later reply is shifted" % (
                              "before parse_frame is consulted" if k == "before-parse" else "right after a frame was taken", b.bb_line(x)), b.loc(x))


def rule_parseerr_close(ctx, R):
    """consumer side: where queued items of type Result<RespFrame, FerrousError> are consumed, the
    Err edge pushes an error reply and stores `true` into a flag that guards a `Closing` store."""
    b = ctx.prog.need(PC)
    head, body = frames_loop(ctx, b)
    if head is None:
        R.broken.append("frame loop not found"); return
    # the item switch: discriminant of a local of type Result<RespFrame, FerrousError>
    found = 0
    for x in sorted(body):
        t = b.term(x)
        if t["k"] != "switch":
            continue
        dl = op_local(t["d"])
        for st in b.stmts(x):
            if st["k"] == "=" and st["l"]["l"] == dl and st["r"]["k"] == "discr":
                ty = b.locals[st["r"]["p"]["l"]]
                if re.match(r"^std::result::Result<protocol::resp::RespFrame, error::FerrousError>$", ty) and not st["r"]["p"]["p"]:
                    # is this local the loop item (from Iterator::next), not a call result?
                    P = prov.origins(b, st["r"]["p"]["l"])
                    if not P.has_call(r"Iterator>::next"):
                        continue
                    found += 1
                    ts = dict(t["ts"]); err = ts.get(1, t["o"])
                    reg = cfg.edge_dom_set(b, x, err)
                    pushes = [y for y in reg if b.term(y)["k"] == "call" and PUSH_RESP.match(b.term(y)["f"])]
                    flags = flag_stores(b, reg)
                    closing = closing_guard_flags(ctx, b)
                    ok = bool(pushes) and bool(set(flags) & closing)
                    R.inst(PC, "queued-error-item", {"err_arm_blocks": len(reg), "pushes_error_reply": bool(pushes), "sets_close_flag": bool(set(flags) & closing)})
                    if not ok:
                        R.finding(PC, "queued-error-item:not-answered-and-closed",
                                  "a queued protocol error is not turned into a pushed error reply plus a close request", b.loc(x))
    R.floor("queued_error_item_switches", found)


def flag_stores(b, region):
    out = []
    for x in region:
        for st in b.stmts(x):
            if st["k"] == "=" and not st["l"]["p"] and st["r"]["k"] == "use" and op_is_const(st["r"]["o"]) and st["r"]["o"]["c"] == "true":
                out.append(b.names.get(st["l"]["l"], "_%d" % st["l"]["l"]))
    return out


def closing_guard_flags(ctx, b):
    """names of captured bool variables that, inside a closure of b, guard a store of
    ConnectionState::Closing"""
    out = set()
    for fn, cb in ctx.prog.bodies.items():
        if cb.encl != b.fn or cb.kind != "Closure":
            continue
        closing = set()
        for i, bb in enumerate(cb.bbs):
            for st in bb["s"]:
                if st["k"] == "=" and st["r"]["k"] == "agg" and st["r"]["a"] == "network::connection::ConnectionState::Closing":
                    closing.add(i)
        if not closing:
            continue
        upnames = {}
        for name, pl in cb.upvars:
            upnames[str(pl["p"])] = name
        for i, bb in enumerate(cb.bbs):
            t = bb["t"]
            if t["k"] != "switch":
                continue
            pl = op_place(t["d"])
            if pl is None:
                continue
            src = {"l": pl["l"], "p": list(pl["p"])}
            for _ in range(6):
                if src["l"] == 1:
                    break
                hit = None
                for st in bb["s"]:
                    if st["k"] == "=" and st["l"]["l"] == src["l"] and not st["l"]["p"] and st["r"]["k"] == "use" and op_place(st["r"]["o"]):
                        hit = op_place(st["r"]["o"])
                if hit is None:
                    break
                src = {"l": hit["l"], "p": list(hit["p"]) + src["p"]}
            if src["l"] != 1:
                continue
            nm = upnames.get(str(src["p"]))
            if nm is None:
                continue
            tru = t["o"]
            if any(c in cfg.edge_dom_set(cb, i, tru) for c in closing):
                out.add(nm)
    return out


# ---------------------------------------------------------------------------------------
SER = "protocol::serializer::serialize_resp_frame"
WRITE_ALL = re.compile(r"std::io::Write>::write_all$|std::io::Write::write_all$")


def rule_crlf(ctx, R):
    """line-framed variants (SimpleString, Error) write payload bytes only through a function
    that inspects CR and LF; length-prefixed variants write len() of the slice they write."""
    b = ctx.prog.need(SER)
    # discriminant switch on the frame parameter
    sw = None
    for i, bb in enumerate(b.bbs):
        t = bb["t"]
        if t["k"] == "switch":
            dl = op_local(t["d"])
            for st in bb["s"]:
                if st["k"] == "=" and st["l"]["l"] == dl and st["r"]["k"] == "discr":
                    P = prov.origins(b, st["r"]["p"]["l"])
                    if 1 in P.params() and "RespFrame" in b.locals[st["r"]["p"]["l"]]:
                        sw = (i, t)
            if sw:
                break
    if sw is None:
        R.broken.append("variant switch of serialize_resp_frame not found"); return
    i, t = sw
    ts = dict(t["ts"])
    # arm regions by reachability: what an arm's entry reaches minus what every arm reaches (the
    # common continuation) -- or-pattern arms (`SimpleString(s) | Error(s)`) share one body that no
    # single entry edge dominates
    reach_ = {v_: cfg.fwd(b, [tb_]) for v_, tb_ in ts.items()}
    common_ = set.intersection(*reach_.values()) if reach_ else set()

    def arm_region_(tgt_):
        return (cfg.fwd(b, [tgt_]) - common_) | cfg.edge_dom_set(b, i, tgt_)
    n = 0
    for vname in ("SimpleString", "Error"):
        d = ctx.prog.variant_discr("protocol::resp::RespFrame", vname)
        tgt = ts.get(d)
        if tgt is None:
            R.finding(SER, "arm:%s:missing" % vname, "no serializer arm for %s" % vname, b.loc(i)); continue
        reg = arm_region_(tgt)
        for x in sorted(reg):
            tt = b.term(x)
            if tt["k"] != "call":
                continue
            c = callee(tt)
            if WRITE_ALL.search(tt["def"]) or WRITE_ALL.search(c):
                data = tt["a"][1]
                P = prov.operand_origins(b, data)
                consts = [r for r in P.roots if r[0] == "const"]
                from_frame = 1 in P.params()
                n += 1
                R.inst(SER, "%s:write_all#%d" % (vname, n), {"variant": vname, "at": b.loc(x), "operand": "payload" if from_frame else "constant"})
                if from_frame:
                    R.finding(SER, "arm:%s:raw-payload-write" % vname,
                              "the %s arm writes the frame's payload bytes directly (line %d): CR/LF inside the payload (client-controlled, e.g. an unknown command name echoed in an error) ends the reply early and injects further replies" % (vname, b.bb_line(x)), b.loc(x))
            else:
                # helper call receiving the payload: must inspect CR and LF
                cb = ctx.prog.bodies.get(c)
                if cb is None:
                    continue
                passes_payload = any(("c" not in a) and 1 in prov.operand_origins(b, a).params() and
                                     re.search(r"u8|Bytes|Arc<std::vec::Vec<u8>>", b.locals[op_local(a)] or "") for a in tt["a"])
                if not passes_payload:
                    continue
                n += 1
                ok = inspects_crlf(ctx, c)
                R.inst(SER, "%s:helper:%s" % (vname, c.split("::")[-1]), {"variant": vname, "helper": c, "inspects_CR_and_LF": ok})
                if not ok:
                    R.finding(SER, "arm:%s:helper-without-filter" % vname, "payload of %s is written by %s which does not inspect CR/LF bytes" % (vname, c), b.loc(x))
    R.floor("line_framed_write_sites", n)
    # length-prefixed: BulkString writes len() of the slice it writes
    d = ctx.prog.variant_discr("protocol::resp::RespFrame", "BulkString")
    tgt = ts.get(d)
    if tgt is not None:
        reg = arm_region_(tgt)
        lens = []; datas = []
        for x in sorted(reg):
            tt = b.term(x)
            if tt["k"] != "call":
                continue
            if re.search(r"::len$", tt["def"]) and tt["a"]:
                lens.append((x, prov.operand_origins(b, tt["a"][0])))
            if WRITE_ALL.search(tt["def"]) or WRITE_ALL.search(callee(tt)):
                P = prov.operand_origins(b, tt["a"][1])
                if 1 in P.params():
                    datas.append((x, P))
        ok = bool(lens) and bool(datas) and any(1 in P.params() for _, P in lens)
        R.inst(SER, "BulkString:len-prefix", {"len_calls": len(lens), "payload_writes": len(datas), "len_of_frame_payload": ok})
        if not ok:
            R.finding(SER, "arm:BulkString:length-prefix", "the bulk-string arm does not write len() of the payload it writes", b.loc(tgt))


def inspects_crlf(ctx, fn):
    seen13 = seen10 = False
    for f in ctx.cg.reach([fn]):
        fb = ctx.prog.bodies.get(f)
        if fb is None:
            continue
        for bb in fb.bbs:
            for st in bb["s"]:
                if st["k"] == "=" and st["r"]["k"] == "bin" and st["r"]["op"] in ("Eq", "Ne"):
                    for o in (st["r"]["a"], st["r"]["b"]):
                        if op_is_const(o) and o.get("ty") == "u8":
                            v = const_int(o)
                            seen13 |= v == 13; seen10 |= v == 10
            t = bb["t"]
            if t["k"] == "switch" and t.get("dty") == "u8":
                for v, _ in t["ts"]:
                    seen13 |= v == 13; seen10 |= v == 10
            if t["k"] == "call":
                for a in t["a"]:
                    if op_is_const(a) and a.get("ty") in ("u8", "&u8"):
                        v = const_int(a)
                        seen13 |= v == 13; seen10 |= v == 10
    return seen13 and seen10


# ---------------------------------------------------------------------------------------

def rule_txnoresp(ctx, R):
    """nothing reachable from EXEC's execution of queued commands can produce NoResponse or
    register a blocked client"""
    he = SERVER + "handle_exec"
    ctx.prog.need(he)
    reach = ctx.cg.reach([he])
    R.floor("functions_reachable_from_exec", len(reach))
    n = 0
    for fn in sorted(reach):
        b = ctx.prog.bodies.get(fn)
        if b is None:
            continue
        hits = []
        for i, bb in enumerate(b.bbs):
            for st in bb["s"]:
                if st["k"] == "=" and st["r"]["k"] == "agg" and st["r"]["a"] == "protocol::resp::RespFrame::NoResponse":
                    hits.append(i)
        import rules_block
        regs = [i for i, t in b.calls() if callee(t) in rules_block.registration_fns(ctx)]
        if b.trait and "RespFrame" in b.self_ty:
            R.trivial(); continue      # derived Clone/PartialEq/Debug of the frame type itself
        if (hits or regs) and "std::process::exit" in ctx.cg.reach([fn], spawn=True):
            R.note("%s returns NoResponse but terminates the process (SHUTDOWN): exempt" % fn)
            R.trivial(); continue
        if hits or regs:
            guarded = exec_flag_guard(ctx, b, hits + regs)
            if guarded:
                n += 1
                R.inst(fn, "noresponse", {"function": fn, "constructs_NoResponse": bool(hits), "registers_blocked_client": bool(regs), "only_when_not_executing_a_transaction": True, "flag": guarded})
                continue
        if hits or regs:
            n += 1
            R.inst(fn, "noresponse", {"function": fn, "constructs_NoResponse": bool(hits), "registers_blocked_client": bool(regs)})
            R.finding(fn, "reachable-from-exec:noresponse",
                      "%s is reachable from EXEC and can return NoResponse / register a blocked client: EXEC's reply array then cannot be serialised and the client gets no reply at all" % fn,
                      b.loc((hits or regs)[0]), witness=ctx.cg.path(he, {fn}) or [])
        else:
            R.trivial()


def exec_flag_guard(ctx, b, sites):
    """a bool field of Server that (1) handle_exec stores `true` into before its execution loop
    and `false` after it on every path, and (2) is tested in b so that every block in `sites`
    lies on its false edge.  Returns the field name or None."""
    he = ctx.prog.bodies.get(SERVER + "handle_exec")
    if he is None:
        return None
    def flag_stores(body):
        out = {}
        for x, bb in enumerate(body.bbs):
            if bb.get("cleanup"):
                continue
            for st in bb["s"]:
                if st["k"] == "=" and st["r"]["k"] == "use" and op_is_const(st["r"]["o"]):
                    fs = [e["f"] for e in st["l"]["p"] if isinstance(e, dict) and "f" in e]
                    if fs and fs[-1].startswith("network::server::Server.") and body.locals[1].endswith("network::server::Server"):
                        v = const_int(st["r"]["o"])
                        out.setdefault(fs[-1], []).append((x, v))
        return out
    st_he = flag_stores(he)
    execs = sorted({x for _, _, x in shared.exec_sites(ctx, he, (SERVER + "process_command_parts", SERVER + "process_normal_command"))})
    if not execs:
        return None
    for fld, ws in st_he.items():
        trues = [x for x, v in ws if v == 1]; falses = [x for x, v in ws if v == 0]
        if not trues or not falses:
            continue
        if not all(any(cfg.dominates(he, t_, e) for t_ in trues) for e in execs):
            continue
        # after the loop: every path from an execution call to the exit passes a false store
        if cfg.path_avoiding(he, execs, set(he.exits()), set(falses)) is not None:
            continue
        # the test in b: switch on a copy of the field; sites in the region of value 0
        for x, bb in enumerate(b.bbs):
            t = bb["t"]
            if t["k"] != "switch":
                continue
            pl = op_place(t["d"]) if not op_is_const(t["d"]) else None
            src = None
            if pl is not None:
                if any(isinstance(e, dict) and e.get("f") == fld for e in pl["p"]):
                    src = True
                else:
                    for kind, db, d in prov.build_defs(b).get(pl["l"], ()):
                        if kind == "stmt" and d["r"]["k"] == "use" and not op_is_const(d["r"]["o"]) and any(isinstance(e, dict) and e.get("f") == fld for e in op_place(d["r"]["o"])["p"]):
                            src = True
            if not src:
                continue
            zero = dict(t["ts"]).get(0)
            if zero is None:
                continue
            reg = cfg.edge_dom_set(b, x, zero)
            if all(s_ in reg for s_ in sites):
                return fld
    return None


# ---------------------------------------------------------------------------------------
# C20 codec tables

PARSER = "protocol::parser::"


def rule_codec_table(ctx, R):
    """type byte written by the serializer for each variant <-> variant built by the parser for
    that byte"""
    import rules_rdb
    b = ctx.prog.need(SER)
    sw = rules_rdb.discr_switch_on(ctx, b, "protocol::resp::RespFrame")
    if not sw:
        R.broken.append("variant switch of serialize_resp_frame not found"); return
    i, names, other, pl = max(sw, key=lambda x: len(x[1]))
    ser = {}
    for v, tgt in names.items():
        reg = cfg.edge_dom_set(b, i, tgt)
        first = None
        for x in [y for y in cfg.rpo(b) if y in reg]:
            t = b.term(x)
            if t["k"] == "call" and (WRITE_ALL.search(t["def"] or "") or WRITE_ALL.search(callee(t))):
                cb = shared.resolve_const_bytes(b, t["a"][1]) if len(t["a"]) > 1 else None
                if cb:
                    first = cb[0]; break
        if first is not None:
            ser[v] = first
    R.floor("serializer_variants_with_type_byte", len(ser))
    pf = ctx.prog.need(PARSER + "parse_frame")
    # switch on data[0]
    psw = None
    for x, bb in enumerate(pf.bbs):
        t = bb["t"]
        if t["k"] == "switch" and t.get("dty") == "u8" and len(t["ts"]) >= 5:
            psw = (x, t)
    if psw is None:
        R.broken.append("type-byte switch of parse_frame not found"); return
    x, t = psw
    par = {}
    for v, tgt in t["ts"]:
        reg = cfg.edge_dom_set(pf, x, tgt)
        built = set()
        for y in reg:
            tt = pf.term(y)
            if tt["k"] == "call" and callee(tt).startswith(PARSER):
                for f in ctx.cg.reach([callee(tt)], stop={PARSER + "parse_frame"}):
                    fb = ctx.prog.bodies.get(f)
                    if fb is None or not f.startswith(PARSER) or f == PARSER + "parse_frame":
                        continue
                    for bb2 in fb.bbs:
                        for st in bb2["s"]:
                            if st["k"] == "=" and st["r"]["k"] == "agg" and st["r"]["a"].startswith("protocol::resp::RespFrame::"):
                                built.add(st["r"]["a"].rsplit("::", 1)[-1])
        par[chr(v)] = built
    R.floor("parser_type_bytes", len(par))
    for v, c in sorted(ser.items()):
        built = par.get(c)
        R.inst(SER, "type-byte:" + v, {"variant": v, "byte": c, "parser_builds": sorted(built) if built is not None else None})
        if built is None and (c in "\r\n" or c.isalnum()):
            # not a type byte at all: the arm's first constant write is a length / terminator, i.e.
            # the arm's shape is not the one this rule reads (merged arms, header helper)
            R.broken.append("serializer arm of RespFrame::%s not recognised (first constant write %r)" % (v, c)); continue
        if built is None:
            R.finding(SER, "type-byte:%s:unknown-to-parser" % v, "RespFrame::%s is serialised with type byte %r which the parser does not accept" % (v, c), b.loc())
        elif v not in built:
            R.finding(SER, "type-byte:%s:parsed-as-other" % v, "RespFrame::%s is serialised with type byte %r but the parser builds %s for it: the value does not round-trip" % (v, c, sorted(built)), b.loc())
    # default arm is an error
    oreg = cfg.edge_dom_set(pf, x, t["o"])
    err = any(st["k"] == "=" and st["r"]["k"] == "agg" and st["r"]["a"] in ("error::FerrousError::Protocol", "std::result::Result::Err") for y in oreg for st in pf.stmts(y))
    R.inst(pf.fn, "unknown-type-byte", {"is_error": err})
    if not err:
        R.finding(pf.fn, "unknown-type-byte:accepted", "an unknown type byte is not answered with an error", pf.loc())
    # null forms
    for fn, const in ((PARSER + "parse_bulk_string", "$-1\r\n"), (PARSER + "parse_array", "*-1\r\n")):
        pb = ctx.prog.need(fn)
        has = any(st["k"] == "=" and st["r"]["k"] == "bin" and st["r"]["op"] == "Eq" and (const_int(st["r"]["a"]) == -1 or const_int(st["r"]["b"]) == -1) for bb2 in pb.bbs for st in bb2["s"])
        # `match declared_len { -1 => null, .. }`: a literal arm of a switch on the signed length
        has = has or any(bb2["t"]["k"] == "switch" and any(int(v_) in (-1, (1 << 64) - 1, (1 << 63) * 2 - 1) for v_, _ in bb2["t"]["ts"]) and str(bb2["t"].get("dty", "")).startswith("i") for bb2 in pb.bbs)
        wrote = False
        for y, bb2 in enumerate(b.bbs):
            tt = bb2["t"]
            if tt["k"] == "call" and len(tt["a"]) > 1:
                cb = shared.resolve_const_bytes(b, tt["a"][1])
                if cb == const:
                    wrote = True
        R.inst(fn, "null-form", {"serializer_writes": wrote, "parser_tests_minus_one": has})
        if not (has and wrote):
            R.finding(fn, "null-form:mismatch", "the null form %r is not mirrored between serializer and parser" % const, pb.loc())
    # no unwrap/expect on the parsing path
    n = 0
    for fn, fb in ctx.prog.bodies.items():
        if fn.startswith(PARSER) and "::tests::" not in fn:
            for y, tt in fb.calls():
                if re.search(r"::(unwrap|expect)$", tt["f"] or "") and not tt.get("exp"):
                    n += 1
                    R.finding(fn, "unwrap-on-parse-path", "%s unwraps on the parsing path (line %d): arbitrary bytes must give a frame, a request for more data or an error" % (fn.split("::")[-1], fb.bb_line(y)), fb.loc(y))
    R.inst(PARSER, "unwraps", {"count": n})


def rule_codec_pos(ctx, R):
    """the parse position advances by a parsed frame's size only on the Ok(Some) edge"""
    b = ctx.prog.need("protocol::parser::RespParser::parse")
    pfc = [i for i, t in b.calls() if callee(t) == PARSER + "parse_frame"]
    R.floor("parse_frame_calls", len(pfc))
    stores = []
    for i, bb in enumerate(b.bbs):
        for st in bb["s"]:
            if st["k"] == "=" and [e for e in st["l"]["p"] if isinstance(e, dict) and e.get("f") == "protocol::parser::RespParser.position"]:
                stores.append((i, st))
    for c in pfc:
        rs = shared.result_switch(b, c)
        if rs is None:
            R.finding(b.fn, "parse_frame:result-ignored", "the incremental parser ignores parse_frame's result", b.loc(c)); continue
        okreg = set()
        for o in rs["ok"]:
            okreg |= cfg.fwd(b, [o], cut=rs["fail"])
        failreg = set()
        for f0 in rs["fail"]:
            failreg |= cfg.dom_set(b, f0)
        # Some edge
        some = None
        for y in sorted(okreg):
            tt = b.term(y)
            if tt["k"] == "switch":
                dl = op_local(tt["d"])
                for st in b.stmts(y):
                    if st["k"] == "=" and st["l"]["l"] == dl and st["r"]["k"] == "discr" and b.locals[st["r"]["p"]["l"]].startswith("std::option::Option<(protocol::resp::RespFrame"):
                        some = (y, dict(tt["ts"]).get(1, tt["o"]), dict(tt["ts"]).get(0))
        bad_fail = [i for i, st in stores if i in failreg]
        after = [(i, st) for i, st in stores if i in cfg.fwd(b, [c]) and i != c]
        none_adv = []
        if some:
            none_reg = cfg.edge_dom_set(b, some[0], some[2]) if some[2] is not None else set()
            none_adv = [i for i, st in after if i in none_reg]
        R.inst(b.fn, "position-advance", {"stores_after_parse": len(after), "on_error_edge": len(bad_fail), "on_need_more_data_edge": len(none_adv)})
        if bad_fail:
            R.finding(b.fn, "position:advanced-on-error", "the parser moves its position on the error edge: bytes are consumed without being reported", b.loc(bad_fail[0]))
        if none_adv:
            R.finding(b.fn, "position:advanced-on-incomplete", "the parser moves its position although the frame is incomplete: the next chunk is parsed from the middle of the frame (chunking changes the result)", b.loc(none_adv[0]))
        if not after:
            R.finding(b.fn, "position:never-advanced", "the parser never advances past a parsed frame", b.loc(c))


_PT_WRAP = re.compile(prov.PASS_THROUGH.pattern[:-1] + r"|FromResidual<.*>>::from_residual$)")


MIN_WIRE_ELEMENT = 3      # `_\r\n`, `+\r\n`, `-\r\n`: the shortest RESP element


def _option_ctor_sites(b, local, maxn=200):
    """where the Option (possibly wrapped in Ok / passed through `?`) held by `local` was built:
    (blocks that construct None, other-sources?) -- follows copies, Ok{..}/Continue{..} wrappers,
    downcasts and Try::branch; `Some{..}` constructions and calls into the parser are fine (a call
    is examined where its own result is switched on); anything else counts as unknown"""
    nones = []; unknown = False
    seen = set(); st = [local]
    defs = prov.build_defs(b)
    while st and len(seen) < maxn:
        cur = st.pop()
        if cur in seen:
            continue
        seen.add(cur)
        ds = defs.get(cur, ())
        if not ds:
            unknown = True
        for kind, db, x in ds:
            if kind == "call":
                f = x["f"] or ""
                if re.search(r"std::ops::Try>::branch$", f) and x["a"] and not op_is_const(x["a"][0]):
                    st.append(op_place(x["a"][0])["l"])
                elif re.search(r"FromResidual<.*>>::from_residual$", f):
                    pass                  # the Err path: never an Option
                elif callee(x).startswith(PARSER):
                    pass                  # a sub-parser's own verdict: a None from it is legitimate
                else:
                    unknown = True
                continue
            if x["l"]["p"]:
                continue
            r = x["r"]
            if r["k"] == "agg":
                if r["a"] == "std::option::Option::None":
                    nones.append(db)
                elif r["a"] == "std::option::Option::Some":
                    pass
                elif r["a"] in ("std::result::Result::Ok", "std::ops::ControlFlow::Continue") and r["o"] and not op_is_const(r["o"][0]):
                    st.append(op_place(r["o"][0])["l"])
                else:
                    unknown = True
            elif r["k"] == "use" and not op_is_const(r["o"]):
                st.append(op_place(r["o"])["l"])
            else:
                unknown = True
    return nones, unknown


def rule_codec_incomplete(ctx, R):
    """an aggregate parser answers `need more data` only because a sub-parser did (the header
    line or an element was incomplete).  A shortcut that decides `incomplete` from the declared
    element count is accepted only if its per-element estimate does not exceed the shortest
    element on the wire (3 bytes) -- otherwise a complete frame of short elements is held back
    until later bytes arrive (or for ever if it is the last on the connection)."""
    n = 0; nfn = 0
    for fn, b in sorted(ctx.prog.bodies.items()):
        if not fn.startswith(PARSER) or "::tests::" in fn or b.kind == "Closure":
            continue
        if not b.locals[0].startswith("std::result::Result<std::option::Option<(protocol::resp::RespFrame, usize)>"):
            continue
        rec = [i for i, t in b.calls() if callee(t) == PARSER + "parse_frame"]
        if not rec or fn == PARSER + "parse_frame":
            continue
        nfn += 1
        # regions where a sub-parser's Option result is None
        none_regs = set()
        for x, bb in enumerate(b.bbs):
            t = bb["t"]
            if t["k"] != "switch" or bb.get("cleanup"):
                continue
            dl = op_local(t["d"])
            for st in bb["s"]:
                if st["k"] == "=" and st["l"]["l"] == dl and st["r"]["k"] == "discr" and b.locals[st["r"]["p"]["l"]].startswith("std::option::Option<("):
                    P = prov.origins(b, st["r"]["p"]["l"])
                    if any(r[0] == "call" and callee(b.term(r[2])).startswith(PARSER) for r in P.roots):
                        ts = dict(t["ts"])
                        none_t = ts[0] if 0 in ts else (t["o"] if 1 in ts else None)     # `let Some(..) = x else {..}` lists Some only
                        if none_t is not None:
                            none_regs |= cfg.edge_dom_set(b, x, none_t)
        # derived: an Option (or Result<Option>) local all of whose `None` constructions lie in a
        # none-region (a helper -- inlined -- that re-wraps a sub-parser's verdict) carries that
        # verdict: the None edge of a switch on it is a none-region too
        for _round in range(4):
            grew = False
            for x, bb in enumerate(b.bbs):
                t = bb["t"]
                if t["k"] != "switch" or bb.get("cleanup"):
                    continue
                dl = op_local(t["d"])
                for st in bb["s"]:
                    if not (st["k"] == "=" and st["l"]["l"] == dl and st["r"]["k"] == "discr"):
                        continue
                    base = st["r"]["p"]["l"]
                    if not re.search(r"std::option::Option<", b.locals[base]):
                        continue
                    nones, unknown = _option_ctor_sites(b, base)
                    if nones and not unknown and all(x_ in none_regs for x_ in nones):
                        ts = dict(t["ts"])
                        none_t = ts[0] if 0 in ts else (t["o"] if 1 in ts else None)
                        if none_t is not None:
                            reg = cfg.edge_dom_set(b, x, none_t)
                            if not reg <= none_regs:
                                none_regs |= reg; grew = True
            if not grew:
                break
        # blocks that build Ok(None)
        for x, bb in enumerate(b.bbs):
            if bb.get("cleanup"):
                continue
            for st in bb["s"]:
                if st["k"] == "=" and st["l"]["l"] == 0 and not st["l"]["p"] and st["r"]["k"] == "agg" and st["r"]["a"].endswith("Result::Ok") and st["r"]["o"]:
                    o = st["r"]["o"][0]
                    if op_is_const(o):
                        continue
                    isnone = False
                    for kind, db, d in prov.build_defs(b).get(op_place(o)["l"], ()):
                        if kind == "stmt" and d["r"]["k"] == "agg" and d["r"]["a"].endswith("Option::None"):
                            isnone = True
                    if not isnone:
                        continue
                    n += 1
                    if x in none_regs:
                        R.inst(fn, "incomplete-return", None); continue
                    # a length shortcut: find the multiplier constants in comparisons that control x
                    ks = []
                    for y, by in enumerate(b.bbs):
                        ty = by["t"]
                        if ty["k"] != "switch":
                            continue
                        if not any(x in cfg.edge_dom_set(b, y, tgt) for tgt in set(b.succs(y))):
                            continue
                        for s2 in by["s"]:
                            if s2["k"] == "=" and s2["r"]["k"] == "bin" and s2["r"]["op"] in ("Lt", "Le", "Gt", "Ge"):
                                for side in (s2["r"]["a"], s2["r"]["b"]):
                                    ks += _mul_consts(b, side)
                    est = 1
                    for k in ks:
                        est *= k
                    ok = bool(ks) and est <= MIN_WIRE_ELEMENT
                    R.inst(fn, "incomplete-return", {"function": fn, "line": st.get("line"), "from_sub_parser": False, "per_element_estimate": est if ks else None})
                    if not ok:
                        R.finding(fn, "incomplete:decided-by-length-estimate" if ks else "incomplete:not-from-sub-parser",
                                  "%s answers `need more data` (line %s) %s: a complete frame whose elements are shorter (`_\\\\r\\\\n` is 3 bytes) is not delivered until more bytes arrive, so the result depends on how the stream is chunked" % (
                                      fn.split("::")[-1], st.get("line"), ("from an estimate of %d bytes per declared element" % est) if ks else "without any sub-parser having reported an incomplete element"), "%s:%s" % (b.file, st.get("line")))
    R.floor("aggregate_parsers", nfn)
    R.floor("incomplete_returns", n)


def _mul_consts(b, o, depth=5):
    """constant factors of a product feeding operand o (through checked-mul tuples and copies)"""
    if op_is_const(o) or depth == 0:
        return []
    out = []
    for kind, db, d in prov.build_defs(b).get(op_place(o)["l"], ()):
        if kind != "stmt":
            continue
        r = d["r"]
        if r["k"] == "bin" and r["op"].replace("WithOverflow", "") == "Mul":
            for side in (r["a"], r["b"]):
                if op_is_const(side):
                    v = const_int(side)
                    if v is not None:
                        out.append(v)
                else:
                    out += _mul_consts(b, side, depth - 1)
        elif r["k"] == "use":
            out += _mul_consts(b, r["o"], depth - 1)
    return out


IO_RESIDUAL = re.compile(r"FromResidual<std::result::Result<std::convert::Infallible, std::io::Error>>>::from_residual$")


def rule_errprop_io(ctx, R):
    """the connection loop treats Io/Connection errors as `peer gone` (no reply, connection
    removed, the batch's replies dropped) -- correct for the client's own socket, wrong for an
    I/O failure inside a command (dump directory missing, disk full).  So no error that can
    propagate out of process_normal_command is of the Io/Connection class: along the error flow
    no `?` converts a std::io::Error and no FerrousError::Io/Connection is constructed."""
    import errflow
    fn = SERVER + "process_normal_command"
    ctx.prog.need(fn)
    E = errflow.ErrFlow(ctx)
    org = E.origins(fn)
    followed = sorted(E.memo)
    R.floor("functions_on_the_error_flow", min(len(followed), 20))
    hits = []
    for f in followed:
        fb = ctx.prog.bodies.get(f)
        if fb is None or not fb.locals[0].startswith(("std::result::Result<", "std::option::Option<std::result::Result<")) or "FerrousError" not in fb.locals[0]:
            continue
        for i, t in fb.calls():
            if IO_RESIDUAL.search(t["f"] or "") and t["d"]["l"] == 0:
                hits.append((f, i, "`?` on a std::io::Error"))
        for x, bb in enumerate(fb.bbs):
            if bb.get("cleanup"):
                continue
            for st in bb["s"]:
                if st["k"] == "=" and st["r"]["k"] == "agg" and st["r"]["a"] in ("error::FerrousError::Io", "error::FerrousError::Connection"):
                    # flows into an Err of _0 ?
                    hits.append((f, x, "a %s error is constructed" % st["r"]["a"].rsplit("::", 1)[-1]))
    R.inst(fn, "io-class-errors-on-the-error-flow", {"functions_followed": len(followed), "origins": len(org), "io_class_sites": len(hits)})
    seen = set()
    for f, i, what in hits:
        fb = ctx.prog.bodies[f]
        k = runner_stable(f)
        if k in seen:
            continue
        seen.add(k)
        R.finding(f, "io-class-error-propagates-from-command",
                  "%s in %s (line %d) and can propagate out of process_normal_command: the connection loop takes Io/Connection errors for a vanished peer, so the client gets no reply to this command, loses the replies of the rest of the batch and is disconnected" % (what, f.split("::")[-1], fb.bb_line(i)), fb.loc(i))


def runner_stable(fn):
    import runner
    return runner.stable_fn(fn) if hasattr(runner, "stable_fn") else fn


def decimal_buffer_issues(b):
    """[(bb, N, need)] for stack buffers `[0u8; N]` that a digit loop (`% 10`, `/ 10`) fills with
    the decimal form of a 64-bit integer: 20 bytes are needed (19 digits + sign for i64, 20 digits
    for u64)"""
    bufs = []
    for x, bb in enumerate(b.bbs):
        for st in bb["s"]:
            if st["k"] == "=" and st["r"]["k"] == "repeat" and b.locals[st["l"]["l"]].startswith("[u8;"):
                try:
                    n = int(str(st["r"]["n"]).split("_")[0])
                except Exception:
                    m = re.match(r"^\\[u8; (\\d+)\\]$", b.locals[st["l"]["l"]])
                    n = int(m.group(1)) if m else None
                if n is not None:
                    bufs.append((x, n))
    if not bufs:
        return []
    digit_loop = False; wide = False
    for bb in b.bbs:
        for st in bb["s"]:
            if st["k"] == "=" and st["r"]["k"] == "bin" and st["r"]["op"] in ("Rem", "Div") and const_int(st["r"]["b"]) == 10:
                digit_loop = True
                if not op_is_const(st["r"]["a"]) and b.locals[op_place(st["r"]["a"])["l"]] in ("u64", "i64", "u128", "i128", "usize", "isize"):
                    wide = True
    if not (digit_loop and wide):
        return []
    signed = any(b.locals[p] in ("i64", "isize") for p in range(1, b.nargs + 1))
    need = 20
    return [(x, n, need) for x, n in bufs if n < need]


def rule_codec_decbuf(ctx, R):
    n = 0
    for fn, b in sorted(ctx.prog.bodies.items()):
        if not fn.startswith(("protocol::", "network::connection::")) or "::tests::" in fn:
            continue
        n += 1
        for x, size, need in decimal_buffer_issues(b):
            R.inst(fn, "decimal-buffer", {"function": fn, "bytes": size, "needed": need})
            R.finding(fn, "decimal-buffer:%d-bytes" % size,
                      "%s formats a 64-bit integer into a %d-byte stack buffer; -9223372036854775808 needs %d bytes (19 digits and the sign), so the write position underflows and the serializer panics on replies below -10^18" % (fn.split("::")[-1], size, need), b.loc(x))
    R.inst("protocol", "functions-scanned-for-decimal-buffers", {"functions": n})
    R.floor("codec_functions_scanned", min(n, 30))


# ---- R-CODEC-SHORTTEST ----------------------------------------------------------------------------
QUIET_TEST = re.compile(r"^core::slice::<impl \[[^\]]*\]>::(starts_with|ends_with|strip_prefix|strip_suffix|get|first|last|split_first|split_last)(::<.*>)?$"
                        r"|^<\[(A|u8)\] as std::cmp::PartialEq<\[(B|u8)\]>>::(eq|ne)$|^core::slice::cmp::<impl std::cmp::PartialEq<\[.*\]> for \[.*\]>::(eq|ne)$")


def _const_len(b, o, depth=0):
    """length of a constant byte-string operand (through refs / unsize casts), else None"""
    from facts import const_bytes
    if op_is_const(o):
        v = const_bytes(o)
        if v is not None:
            return len(v)
        m = re.search(r"\[u8; (\d+)\]", o.get("ty", ""))
        if m:
            return int(m.group(1))
        return None
    if depth > 6:
        return None
    ds = prov.build_defs(b).get(op_place(o)["l"], ())
    if len(ds) != 1 or ds[0][0] != "stmt":
        return None
    r = ds[0][2]["r"]
    if r["k"] in ("use", "cast"):
        return _const_len(b, r["o"], depth + 1)
    if r["k"] == "ref":
        return _const_len(b, {"cp": r["p"]}, depth + 1)
    return None


def _slice_from(b, o, depth=0):
    """(container operand, start operand or None) if o is `container[start..]` / the container itself"""
    if op_is_const(o) or depth > 6:
        return None
    ds = prov.build_defs(b).get(op_place(o)["l"], ())
    if 1 <= op_place(o)["l"] <= b.nargs and not ds:
        return (o, None)
    if len(ds) != 1:
        return (o, None)
    kind, bbi, x = ds[0]
    if kind == "call":
        f = x["f"] or ""
        if re.search(r"Index<.*>.*>::index$|impl std::ops::Index<I> for \[T\]>::index$", f) and len(x["a"]) == 2 and not op_is_const(x["a"][1]):
            rl = op_place(x["a"][1])["l"]
            if "RangeFrom<" in b.locals[rl]:
                for k2, b2, d2 in prov.build_defs(b).get(rl, ()):
                    if k2 == "stmt" and d2["r"]["k"] == "agg" and d2["r"]["o"]:
                        return (x["a"][0], d2["r"]["o"][0])
            return None      # two-ended ranges panic when short: R-PANIC's business
        if re.search(r"Deref(Mut)?>::deref(_mut)?$|::as_slice$|::as_ref$", f) and x["a"]:
            return _slice_from(b, x["a"][0], depth + 1)
        return None
    r = x["r"]
    if x["l"]["p"]:
        return None
    if r["k"] == "use" and not op_is_const(r["o"]):
        return _slice_from(b, r["o"], depth + 1)
    if r["k"] == "ref":
        if r["p"]["p"] and r["p"]["p"] != ["*"]:
            return ({"cp": r["p"]}, None)
        return _slice_from(b, {"cp": {"l": r["p"]["l"], "p": []}}, depth + 1)
    return None


def rule_codec_shorttest(ctx, R):
    """chunking independence, error side: a content test that cannot panic (`starts_with`, `get`,
    slice `==` on an open-ended sub-slice ...) answers `no` also when the bytes have not arrived
    yet.  Where that `no` leads to a protocol error, a dominating length test must prove that the
    bytes examined are present -- otherwise a frame split by a read boundary is refused."""
    import taint
    n = 0
    for fn, b in sorted(ctx.prog.bodies.items()):
        if not fn.startswith(PARSER) or "::tests::" in fn or b.kind == "Closure":
            continue
        errs = set()
        for x, bb in enumerate(b.bbs):
            for st in bb["s"]:
                if st["k"] == "=" and st["r"]["k"] == "agg" and st["r"]["a"].endswith("Result::Err") and st["l"]["l"] == 0:
                    errs.add(x)
                if st["k"] == "=" and st["r"]["k"] == "agg" and st["r"]["a"].endswith("FerrousError::Protocol"):
                    errs.add(x)
        k = 0
        for i, t in b.calls():
            f = t["f"] or ""
            m = QUIET_TEST.match(f)
            if not m or not t["a"] or t["t"] < 0:
                continue
            sf = _slice_from(b, t["a"][0])
            if sf is None:
                continue
            cont, start = sf
            root = taint._container_root(b, cont)
            if root is None:
                continue
            kind = re.search(r"::(\w+)(::<.*>)?$", f).group(1)
            # how many bytes from `start` does the test look at?
            if kind in ("get",):
                need_form = None
                if len(t["a"]) > 1 and (op_is_const(t["a"][1]) or b.locals[op_place(t["a"][1])["l"]] == "usize"):
                    need_form = taint.linform(b, t["a"][1])
                extra = 1
            elif kind in ("first", "last", "split_first", "split_last"):
                need_form = ({}, 0); extra = 1
            else:
                need_form = ({}, 0); extra = _const_len(b, t["a"][1]) if len(t["a"]) > 1 else None
                if extra is None:
                    extra = 1
            if need_form is None:
                continue
            # negative edge
            sw = shared._follow_to_switch(b, t["t"], t["d"]["l"])
            if not sw:
                continue
            ts = dict(sw[1]["ts"])
            if b.locals[t["d"]["l"]] == "bool":
                neg = sw[1]["o"] if kind == "ne" else ts.get(0)
            else:
                neg = ts[0] if 0 in ts else (sw[1]["o"] if 1 in ts else None)
            if neg is None:
                continue
            reg = cfg.edge_dom_set(b, sw[0], neg)
            if not (reg & errs):
                R.trivial(); continue
            n += 1
            S = taint.linform(b, start) if start is not None else ({}, 0)
            verdict = None
            if S is not None:
                atoms = dict(S[0])
                for a_, c_ in need_form[0].items():
                    atoms[a_] = atoms.get(a_, 0) + c_
                I = (atoms, S[1] + need_form[1] + extra - 1)
                verdict = taint.length_guard_verdict_forms(b, i, I, ({("len", root): 1}, 0))
            R.inst(fn, "quiet-test:%s#%d" % (kind, k), {"function": fn, "at": b.loc(i), "bytes_examined_from_start": extra, "length_guard": verdict})
            if verdict != "ok":
                R.finding(fn, "quiet-test:%s#%d:error-on-missing-bytes" % (kind, k),
                          "%s decides a protocol error from `%s` on an open-ended sub-slice of its input (line %d) although no dominating length test proves that the %d byte(s) it looks at have arrived%s: a frame cut by a read boundary at this point is refused instead of waiting for more data"
                          % (fn.split("::")[-1], kind, b.bb_line(i), extra, " (the strongest test found is too weak)" if verdict == "short" else ""), b.loc(i))
            k += 1
    R.note("non-panicking content tests whose negative outcome reaches a protocol error: %d" % n)
    R.trivial()


def rule_read_feed(ctx, R):
    """bytes handed to the parser are parsed: once Connection::read has fed the parser in this call
    it reports `data available` -- an error (or `nothing read`) result after a feed would make the
    connection loop skip the parse step (it parses only on Ok(true)) and the commands received in
    full would be neither executed nor answered.  Path-sensitive: a flag remembering that something
    was fed may guard the later exits."""
    import boolpath
    b = ctx.prog.need("network::connection::Connection::read")
    feeds = [i for i, t in b.calls() if callee(t) == "protocol::parser::RespParser::feed"]
    R.floor("parser_feeds_in_read", len(feeds))
    bad_exits = {}
    for x, bb in enumerate(b.bbs):
        if bb.get("cleanup"):
            continue
        for st in bb["s"]:
            if st["k"] == "=" and st["l"]["l"] == 0 and not st["l"]["p"] and st["r"]["k"] == "agg":
                if st["r"]["a"].endswith("Result::Err"):
                    bad_exits[x] = "an error"
                elif st["r"]["a"].endswith("Result::Ok") and st["r"]["o"] and op_is_const(st["r"]["o"][0]) and st["r"]["o"][0]["c"].replace("const ", "") == "false":
                    bad_exits[x] = "`nothing read`"
        t = bb["t"]
        if t["k"] == "call" and t["d"]["l"] == 0 and re.search(r"from_residual$", callee(t)):
            bad_exits[x] = "an error"
    for k, i in enumerate(feeds):
        nxt = b.term(i)["t"]
        if nxt < 0:
            continue
        ex = boolpath.explore(b, boolpath.Spec(), starts=[nxt])
        hit = sorted(x for x in bad_exits if x in ex.reached)
        R.inst(b.fn, "feed#%d" % k, {"at": b.loc(i), "exits_other_than_data_available_reachable_after_the_feed": len(hit)})
        if hit:
            R.finding(b.fn, "feed#%d:then-%s" % (k, "error" if bad_exits[hit[0]] == "an error" else "nothing-read"),
                      "Connection::read can feed received bytes to the parser (line %d) and then return %s (line %d) in the same call: the connection loop parses only after `data available`, so complete commands already in the parser are dropped with the connection / left unanswered" % (b.bb_line(i), bad_exits[hit[0]], b.bb_line(hit[0])), b.loc(hit[0]),
                      ["bb%d line %d" % (x, b.bb_line(x)) for x in ex.witness(b, hit[0])][-8:])


# ---- R-SOCK-WRITE ---------------------------------------------------------------------------------
_SOCK_W = re.compile(r"^<std::net::TcpStream as std::io::Write>::(write|write_all|write_fmt|write_vectored|write_all_vectored)$")
W_OFF = "network::connection::Connection.write_offset"
W_BUF = "network::connection::Connection.write_buffer"


def _place_fields(pl):
    return [e["f"] for e in pl["p"] if isinstance(e, dict) and "f" in e]


def rule_sock_write(ctx, R):
    """the reply bytes queued for a client are sent exactly once, in order, over a non-blocking
    socket: every write to the connection's stream is a partial `write` of
    `write_buffer[write_offset..]` whose returned count is added to write_offset.  An
    all-or-nothing form (write_all / write!) reports nothing about the bytes it sent before
    WouldBlock, so the retry re-sends them and the reply stream is duplicated / shifted."""
    n = 0
    for fn, b in sorted(ctx.prog.bodies.items()):
        if not fn.startswith("network::") or "::tests::" in fn:
            continue
        for i, t in b.calls():
            m = _SOCK_W.match(t["f"] or "")
            if not m or b.bbs[i]["cleanup"]:
                continue
            n += 1
            kind = m.group(1)
            if kind != "write":
                R.inst(fn, "socket-write:%s" % kind, {"function": fn, "at": b.loc(i), "form": kind})
                R.finding(fn, "socket-write:all-or-nothing:%s" % kind,
                          "%s writes to the non-blocking client socket with %s: when the socket buffer fills the bytes already sent are not accounted for (WouldBlock carries no count), so the next attempt sends them again and the client sees duplicated / shifted replies" % (fn.split("::")[-1], kind), b.loc(i))
                continue
            # (i) the slice written starts at write_offset of write_buffer
            P = prov.operand_origins(b, t["a"][1])
            from_buf = W_BUF in P.fields
            start_ok = False
            for c, bbi in P.via:
                if re.search(r"Index<std::ops::RangeFrom<usize>>>::index$", c):
                    tt = b.term(bbi)
                    if len(tt["a"]) > 1 and W_OFF in prov.operand_origins(b, tt["a"][1]).fields:
                        start_ok = True
            # (ii) the count returned is added to write_offset
            counted = False
            for bb in b.bbs:
                for st in bb["s"]:
                    if st["k"] == "=" and st["r"]["k"] == "bin" and st["r"]["op"] in ("Add", "AddWithOverflow", "AddUnchecked"):
                        ops = [st["r"]["a"], st["r"]["b"]]
                        offs = [o for o in ops if not op_is_const(o) and (W_OFF in _place_fields(op_place(o)) or W_OFF in prov.operand_origins(b, o).fields)]
                        cnts = [o for o in ops if not op_is_const(o) and any(r[0] == "call" and r[2] == i for r in prov.operand_origins(b, o).roots)]
                        if offs and cnts:
                            counted = True
            R.inst(fn, "socket-write:write", {"function": fn, "at": b.loc(i), "slice_of_write_buffer": from_buf, "starts_at_write_offset": start_ok, "count_added_to_write_offset": counted})
            if from_buf and not start_ok:
                R.finding(fn, "socket-write:not-from-offset", "the slice of the output buffer written to the socket does not start at write_offset: bytes already sent are sent again", b.loc(i))
            if from_buf and not counted:
                R.finding(fn, "socket-write:count-dropped", "the number of bytes the socket accepted is not added to write_offset: a partial write is followed by a resend of the same bytes", b.loc(i))
    R.floor("client_socket_write_sites", n)


# ---- R-CODEC-INLINE -------------------------------------------------------------------------------
def _const_bytes_len(b, o):
    """length of a byte-string constant operand (directly or through a promoted reference /
    unsize cast), else None"""
    cs = []
    if op_is_const(o):
        cs = [(o.get("c") or "", o.get("ty") or "")]
    else:
        P = prov.operand_origins(b, o)
        if P.params() or any(r[0] == "call" for r in P.roots):
            return None
        cs = [(r[1], "") for r in P.roots if r[0] == "const"]
        for kind, bbi, x in prov.build_defs(b).get(op_place(o)["l"], ()):
            if kind == "stmt" and x["r"]["k"] == "cast" and x["r"].get("from"):
                cs.append(("", x["r"]["from"]))
    for c, ty in cs:
        m = re.search(r"\[u8; (\d+)\]", ty) or re.search(r"\[u8; (\d+)\]", c)
        if m:
            return int(m.group(1))
        m = re.match(r'^(const )?b"((?:[^"\\]|\\.)*)"$', c)
        if m:
            return len(re.sub(r"\\x..|\\.", "x", m.group(2)))
    return None


def rule_codec_inline(ctx, R):
    """chunking independence of the inline forms: where the incremental parser recognises a
    non-RESP byte string of fixed length N by comparing buffered bytes with a constant
    (`&buf[pos..pos+4] == b"PING"`, `buf[pos..].starts_with(b"PING")`), fewer than N buffered
    bytes that are a prefix of the constant must mean `incomplete`, not fall through to the RESP
    parser (which refuses the first byte).  Every such recognition is preceded by a
    `CONSTANT.starts_with(available)` test of a constant of the same length whose true edge
    returns without parsing, or the parser has no inline forms."""
    b = ctx.prog.need("protocol::parser::RespParser::parse")
    n = 0
    pf = [i for i, t in b.calls() if callee(t) == "protocol::parser::parse_frame"]
    rets = [x for x, bb_ in enumerate(b.bbs) if bb_["t"]["k"] == "return"]
    recog = []
    for i, t in b.calls():
        if b.bbs[i]["cleanup"]:
            continue
        m = re.match(r"^<&?\[u8\] as std::cmp::PartialEq<&?\[u8; (\d+)\]>>::(eq|ne)$|^<\[u8; (\d+)\] as std::cmp::PartialEq<&?\[u8\]>>::(eq|ne)$", t["f"] or "")
        if m:
            recog.append((i, int(m.group(1) or m.group(3))))
        elif re.search(r"<impl \[u8\]>::starts_with$", t["f"] or "") and len(t["a"]) == 2:
            N = _const_bytes_len(b, t["a"][1])
            if N is not None and _const_bytes_len(b, t["a"][0]) is None:
                recog.append((i, N))
    for i, N in recog:
        n += 1
        ok = False
        for j, tt in b.calls():
            if j == i or not re.search(r"<impl \[u8\]>::starts_with$", tt["f"] or "") or len(tt["a"]) != 2 or i not in cfg.fwd(b, [j]):
                continue
            if _const_bytes_len(b, tt["a"][0]) != N:
                continue
            sw = shared._follow_to_switch(b, tt["t"], tt["d"]["l"]) if tt["t"] >= 0 else None
            if sw is None:
                continue
            if cfg.path_avoiding(b, [sw[1]["o"]], rets, set(pf) | {i}) is not None:
                ok = True
        R.inst(b.fn, "inline-form:%d-bytes" % N, {"at": b.loc(i), "constant_length": N, "partial_arrival_answered_incomplete": ok})
        if not ok:
            R.finding(b.fn, "inline-form:%d-bytes:partial-arrival-is-an-error" % N,
                      "the parser recognises a %d-byte inline form by comparing buffered bytes with a constant (line %d) but has no prefix test for fewer bytes: when the form arrives split (`PI` then `NG`) the bytes fall through to the RESP parser and the client gets a protocol error -- the answer depends on how the request was split into reads" % (N, b.bb_line(i)), b.loc(i))
    R.inst(b.fn, "inline-forms", {"recognitions": n, "parse_frame_calls": len(pf)})
    R.floor("inline_form_comparisons", n)


# ---- R-CODEC-STDINT -------------------------------------------------------------------------------
STD_INT = r"core::str::<impl str>::parse::<i(64|128)>$|<i64 as std::str::FromStr>::from_str$|i64>::from_str_radix$"


def rule_codec_stdint(ctx, R):
    """every integer the serializer can write is read back: the number of an integer frame (and the
    header numbers of bulk strings and arrays) comes from the std i64 parser, which covers the
    whole range including i64::MIN.  (a) the value handed to `RespFrame::Integer` in the parser
    has the std parser on its provenance; (b) no function of the parser accumulates decimal
    digits itself (a multiplication by 10 inside a loop): a magnitude-then-negate accumulator
    loses -2^63, which the server itself emits (DECR on -9223372036854775807)."""
    n = 0; loops10 = 0
    for fn, b in sorted(ctx.prog.bodies.items()):
        if not fn.startswith("protocol::parser::") or "::tests::" in fn:
            continue
        for i, bb in enumerate(b.bbs):
            for st in bb["s"]:
                if st["k"] == "=" and st["r"]["k"] == "agg" and st["r"]["a"] == "protocol::resp::RespFrame::Integer" and st["r"]["o"]:
                    n += 1
                    o = st["r"]["o"][0]
                    P = prov.operand_origins(b, o, deep=True) if not op_is_const(o) else None
                    ok = P is not None and (P.has_call(STD_INT) or _up_has_call(ctx, b, o, STD_INT))
                    R.inst(fn, "integer-frame#%d" % n, {"function": fn, "at": b.loc(i), "value_from_the_std_i64_parser": ok})
                    if not ok:
                        R.finding(re.sub(r"(::\{closure#\d+\})+$", "", fn), "integer-frame:not-from-the-std-parser",
                                  "the parser builds an integer frame (line %d) from a number the std i64 parser did not produce: a hand-written decimal reader has to be shown to cover the whole range (i64::MIN, which the server emits, is the usual casualty)" % b.bb_line(i), b.loc(i))
        lps = cfg.loops(b)
        inloop = set().union(*lps.values()) if lps else set()
        for i in sorted(inloop):
            t = b.term(i)
            hit = False
            for st in b.stmts(i):
                if st["k"] == "=" and st["r"]["k"] == "bin" and st["r"]["op"] in ("Mul", "MulWithOverflow") and any(op_is_const(o) and str(o.get("v")) == "10" for o in (st["r"]["a"], st["r"]["b"])):
                    hit = True
            if t["k"] == "call" and re.search(r"::(checked_mul|wrapping_mul|saturating_mul|overflowing_mul)$", t["f"] or "") and any(op_is_const(a) and str(a.get("v")) == "10" for a in t["a"]):
                hit = True
            if hit:
                loops10 += 1
                R.finding(re.sub(r"(::\{closure#\d+\})+$", "", fn), "decimal-accumulator",
                          "%s accumulates decimal digits itself (x10 inside a loop, line %d) instead of using the std parser: the range it accepts is not the range the serializer writes" % (fn.split("::")[-1], b.bb_line(i)), b.loc(i))
    R.inst("-", "decimal-accumulators", {"in_protocol_parser": loops10})
    R.floor("integer_frames_built_by_the_parser", n)


def _up_has_call(ctx, body, o, rx):
    """std parse reached through a closure's argument / capture (`.and_then(|s| s.parse())` chains)"""
    for b2 in shared.closure_tree(ctx, body):
        if any(re.search(rx, t["f"] or "") for _, t in b2.calls()):
            return True
    enc = ctx.prog.bodies.get(body.encl) if body.encl else None
    while enc is not None:
        if any(re.search(rx, t["f"] or "") for _, t in enc.calls()):
            return True
        enc = ctx.prog.bodies.get(enc.encl) if enc.encl else None
    return False


# ---- R-PARSE-AGG-INCOMPLETE -----------------------------------------------------------------------
def rule_agg_incomplete(ctx, R):
    """an aggregate (array / map / set) is `incomplete` only when one of its parts is: in the
    parser functions that walk the elements of an aggregate (they call parse_frame), every
    `Ok(None)` exit is decided by a sub-parser's own answer (the None of parse_line / parse_frame),
    never by a comparison of the bytes received with an estimate from the announced element count.
    Elements have no fixed size, so such an estimate keeps a short malformed aggregate waiting for
    ever instead of answering the protocol error its bytes already show."""
    n = 0
    PF = "protocol::parser::parse_frame"
    for fn, b in sorted(ctx.prog.bodies.items()):
        if not fn.startswith("protocol::parser::") or "::tests::" in fn or b.kind == "Closure" or fn == PF:
            continue
        # element walkers: parse_frame is called inside a loop (or in a closure an adaptor drives)
        lps_ = cfg.loops(b)
        inl_ = set().union(*lps_.values()) if lps_ else set()
        walks = any(callee(t) == PF and i in inl_ for i, t in b.calls()) or any(callee(t) == PF for body in shared.closure_tree(ctx, b)[1:] for _, t in body.calls())
        if not walks:
            continue
        # blocks that set the result to Ok(None)
        nones = []
        for i, bb in enumerate(b.bbs):
            if bb.get("cleanup"):
                continue
            for st in bb["s"]:
                if st["k"] == "=" and st["l"]["l"] == 0 and not st["l"]["p"] and st["r"]["k"] == "agg" and st["r"]["a"] == "std::result::Result::Ok" and st["r"]["o"]:
                    o = st["r"]["o"][0]
                    isnone = False
                    if op_is_const(o):
                        isnone = "None" in str(o.get("c"))
                    else:
                        for kind, db, d in prov.build_defs(b).get(op_place(o)["l"], ()):
                            if kind == "stmt" and d["r"]["k"] == "agg" and d["r"]["a"].endswith("Option::None"):
                                isnone = True
                    if isnone:
                        nones.append(i)
        for i in nones:
            n += 1
            # the closest switch that decides whether this block runs
            ctl = None
            for x in range(len(b.bbs)):
                t = b.term(x)
                if t["k"] != "switch" or not cfg.dominates(b, x, i) or x == i:
                    continue
                succ = set(b.succs(x))
                if any(i in cfg.edge_dom_set(b, x, y) or y == i for y in succ) and not all(i in cfg.fwd(b, [y]) for y in succ):
                    if ctl is None or cfg.dominates(b, ctl, x):
                        ctl = x
            why = "no deciding test found"
            ok = False
            if ctl is not None:
                t = b.term(ctl)
                dl = op_local(t["d"])
                src = None
                for st in b.stmts(ctl):
                    if st["k"] == "=" and st["l"]["l"] == dl and st["r"]["k"] == "discr":
                        src = st["r"]["p"]
                if src is not None:
                    P = prov.origins(b, src["l"], deep=True)
                    if P.has_call(r"^protocol::parser::"):
                        ok = True; why = "the None of a sub-parser"
                    else:
                        why = "a discriminant not produced by a sub-parser"
                else:
                    why = "a comparison / flag (line %d)" % b.bb_line(ctl)
            R.inst(fn, "incomplete-exit@%d" % b.bb_line(i), {"function": fn, "at": b.loc(i), "decided_by": why})
            if not ok:
                R.finding(fn, "incomplete-exit:not-a-sub-parsers-answer",
                          "%s answers `incomplete` (line %d) on %s: an aggregate's elements have no fixed size, so only the element parsers can tell whether more bytes are needed -- a short aggregate with malformed content waits for ever instead of getting its protocol error" % (fn.split("::")[-1], b.bb_line(i), why), b.loc(i))
    R.floor("aggregate_incomplete_exits", n)
